(* C06 / C07 — link between the Gallina GENERATED from /repo's current queasars/circuit_evaluation/mutex_primitives.py
   and the constructor of EvolvingAnsatzMinimumEigensolver (build/gen*/QVGen/C06Gen.v, written by translator/py2gallina.py
   on every check) and the hand-written models coq/theories/Batch/{Monitor,Mutex}.v the C06/C07 (C08/C09) theorems are about.
   One lemma link_<function> per translated function, each followed by Print Assumptions.  Compiled by
   harness/vlib/translate.py; NOT part of coq/theories because it depends on the generated module.

   ONLY THE NON-CONCURRENT PARTS ARE LINKED.  BatchingMutexPrimitiveJobRunner.run is translated as FRAGMENTS: the
   straight-line blocks between two synchronisation operations, one generated definition per block.  Each link lemma says:
   at the program counter of Batch/Monitor.v that stands for the synchronisation operation in front of the block, the
   model's [step_th] updates the data fields (and the thread's locals) exactly as the generated block does, read through
   [abs_shared] (nat counters as Z; lock owners, wait queues and ghost fields are not Python data and are dropped).
   A FRAGMENT LINK DOES NOT SHOW THAT THE BLOCK RUNS WHERE THE MODEL SAYS IT RUNS (under which lock, after which wake-up,
   atomically): the lock/condition operations, `while`, `try` and `with` are not translated.  That part of the
   correspondence stays with the per-step differential check (harness/vlib/batch.py). *)
From QV Require Import Translate.PyPrelude Translate.PyPrelude_proofs.
From QV Require Import Batch.Monitor Batch.ListX Batch.Inv Batch.Mutex.
From QVGen Require Import C06Gen.
Open Scope Z_scope.

(* the Python data attributes of the runner, read off the model's shared state *)
Definition abs_shared (s : shared) : rstate :=
  mkR (Z.of_nat (tc s)) (Z.of_nat (ec s)) (bpubs s) (Z.of_nat (blen s)) (res s) (exc s).

(* what a link lemma observes of a model step: a view of (new shared state, new thread) *)
Definition observe {X} (view : shared * thread -> X) (r : option (shared * thread)) : option X := option_map view r.

(* ------------------------------------------------------------------ constructor: the initial values *)
Lemma link_Runner_init : forall f wd, gen_Runner_init f wd = abs_shared init_shared.
Proof. reflexivity. Qed.
Print Assumptions link_Runner_init.

(* ------------------------------------------------------------------ E1: try-acquire V succeeded
   acquired_both_locks = True; batch_index = _batch_length; _batched_pubs.extend(pubs); _batch_length += len(pubs); _thread_counter += 1 *)
Lemma link_E1_enter : forall v s t th c, t_pc th = E1 -> free (lkV s) = true ->
  observe (fun r => ((true, Z.of_nat (t_bidx (snd r))), abs_shared (fst r))) (step_th v s t th c)
  = Some (gen_E1_enter (t_pubs th) (abs_shared s)).
Proof.
  intros v s t th c Hpc Hfree. unfold step_th. rewrite Hpc, Hfree.
  unfold observe, option_map, gen_E1_enter, abs_shared, set_enter, set_pc, set_bidx, py_len.
  cbn [fst snd tc ec blen bpubs res exc t_bidx r_tc r_ec r_bpubs r_blen r_res r_exc].
  rewrite Nat2Z.inj_succ, Nat2Z.inj_add. reflexivity.
Qed.
Print Assumptions link_E1_enter.

(* ------------------------------------------------------------------ G0: V acquired; _entry_counter += 1 and the test
   `_entry_counter == _thread_counter` that decides executor (-> X1) or member (-> N1) *)
Lemma eqb_succ_nat : forall a b : nat, (Z.of_nat a + 1 =? Z.of_nat b) = (S a =? b)%nat.
Proof.
  intros a b. destruct (Nat.eqb_spec (S a) b) as [E|E].
  - apply Z.eqb_eq. lia.
  - apply Z.eqb_neq. lia.
Qed.

Lemma link_G0_count : forall v s t th c, t_pc th = G0 -> free (lkV s) = true ->
  observe (fun r => (match t_pc (snd r) with X1 => true | _ => false end, abs_shared (fst r))) (step_th v s t th c)
  = Some (gen_G0_count (abs_shared s)).
Proof.
  intros v s t th c Hpc Hfree. unfold step_th. rewrite Hpc, Hfree.
  unfold gen_G0_count, abs_shared. cbn [r_tc r_ec r_bpubs r_blen r_res r_exc].
  rewrite eqb_succ_nat.
  destruct (S (ec s) =? tc s)%nat; unfold observe, option_map, set_count, set_pc;
    cbn [fst snd tc ec blen bpubs res exc t_pc]; rewrite Nat2Z.inj_succ; reflexivity.
Qed.
Print Assumptions link_G0_count.

(* the local `executor`: the model sets it in the G0 step, Python behind the next synchronisation operation of either branch
   (`executor = True` behind the acquire of E, `executor = False` in front of the release of V): a thread-local, so the
   position within the branch is unobservable to other threads *)
Lemma link_X1_executor_flag : forall v s t th c s' th', t_pc th = G0 -> step_th v s t th c = Some (s', th') ->
  t_pc th' = X1 -> t_exec th' = gen_X1_executor_flag.
Proof.
  intros v s t th c s' th' Hpc. unfold step_th. rewrite Hpc.
  destruct (free (lkV s)); [|discriminate]. destruct (S (ec s) =? tc s)%nat; intros H; inversion H; subst; cbn; [reflexivity|discriminate].
Qed.
Print Assumptions link_X1_executor_flag.

Lemma link_N1_member_flag : forall v s t th c s' th', t_pc th = G0 -> step_th v s t th c = Some (s', th') ->
  t_pc th' = N1 -> t_exec th' = gen_N1_member_flag.
Proof.
  intros v s t th c s' th' Hpc. unfold step_th. rewrite Hpc.
  destruct (free (lkV s)); [|discriminate]. destruct (S (ec s) =? tc s)%nat; intros H; inversion H; subst; cbn; [discriminate|reflexivity].
Qed.
Print Assumptions link_N1_member_flag.

(* ------------------------------------------------------------------ X2;X3(ok): self._result = self.f(self._batched_pubs).result()
   f-begin and a successful f-end; the result object is the index of the invocation (the length of the log) *)
Definition two_steps (v : variant) (s : shared) (t : tid) (th : thread) (c c' : nat) : option (shared * thread) :=
  match step_th v s t th c with Some (s1, th1) => step_th v s1 t th1 c' | None => None end.

Lemma link_X3_ok : forall v s t th c c', t_pc th = X2 -> (c' =? 1)%nat = false ->
  observe (fun r => (tt, abs_shared (fst r))) (two_steps v s t th c c')
  = Some (gen_X3_ok (fun _ => List.length (log s)) (abs_shared s)).
Proof.
  intros v s t th c c' Hpc Hc. unfold two_steps, step_th. rewrite Hpc. cbn [set_pc t_pc]. rewrite Hc. reflexivity.
Qed.
Print Assumptions link_X3_ok.

(* the oracle is applied to _batched_pubs — the list the model records as the argument of the invocation (inflight) *)
Lemma link_X3_ok_argument : forall f st s, r_res (snd (gen_X3_ok f st)) = Some (f (r_bpubs st))
  /\ inflight (set_fbegin s) = Some (r_bpubs (abs_shared s)).
Proof. intros; split; reflexivity. Qed.
Print Assumptions link_X3_ok_argument.

(* ------------------------------------------------------------------ X3(fail): except Exception as e: _result = None; _exception = e *)
Lemma link_X3_fail : forall v s t th, t_pc th = X3 ->
  observe (fun r => (tt, abs_shared (fst r))) (step_th v s t th 1%nat)
  = Some (gen_X3_fail (List.length (log s)) (abs_shared s)).
Proof. intros v s t th Hpc. unfold step_th. rewrite Hpc. reflexivity. Qed.
Print Assumptions link_X3_fail.

(* ------------------------------------------------------------------ H0: V acquired by `with`; result = _result; exception = _exception;
   _thread_counter -= 1.   Hypothesis 0 < tc: the thread at H0 is itself counted in _thread_counter (invariant inv_tc of
   Batch/Inv.v, see H0_counted below); without it Python's int would go to -1 where the model's nat stays 0. *)
Lemma link_H0_gather : forall v s t th c, t_pc th = H0 -> free (lkV s) = true -> (0 < tc s)%nat ->
  observe (fun r => ((t_res (snd r), t_exc (snd r)), abs_shared (fst r))) (step_th v s t th c)
  = Some (gen_H0_gather (abs_shared s)).
Proof.
  intros v s t th c Hpc Hfree Hpos. unfold step_th. rewrite Hpc, Hfree.
  unfold observe, option_map, gen_H0_gather, abs_shared, set_gather, set_pc, set_got.
  cbn [fst snd tc ec blen bpubs res exc t_res t_exc r_tc r_ec r_bpubs r_blen r_res r_exc].
  replace (Z.of_nat (pred (tc s))) with (Z.of_nat (tc s) - 1) by lia. reflexivity.
Qed.
Print Assumptions link_H0_gather.

Lemma H0_counted : forall st t th, Inv st -> nth_error (threads st) t = Some th -> t_pc th = H0 -> (0 < tc (sh st))%nat.
Proof.
  intros st t th I Hn Hpc. rewrite (inv_tc st I).
  assert (1 <= cnt pCnt (threads st))%nat by (apply (cnt_ge_one pCnt _ t th Hn); unfold pCnt; rewrite Hpc; reflexivity).
  lia.
Qed.

(* ------------------------------------------------------------------ R0: while self._thread_counter > 0 (the unprotected read) *)
Lemma link_R0_loop_test : forall v s t th c, t_pc th = R0 ->
  observe (fun r => (match t_pc (snd r) with R1 => true | _ => false end, abs_shared (fst r))) (step_th v s t th c)
  = Some (gen_R0_loop_test (abs_shared s)).
Proof.
  intros v s t th c Hpc. unfold step_th. rewrite Hpc.
  unfold observe, option_map, gen_R0_loop_test, abs_shared, set_pc. cbn [fst snd t_pc r_tc].
  assert (E : (0 <? Z.of_nat (tc s)) = (0 <? tc s)%nat).
  { destruct (Nat.ltb_spec 0 (tc s)); [apply Z.ltb_lt|apply Z.ltb_ge]; lia. }
  rewrite E. destruct (0 <? tc s)%nat; reflexivity.
Qed.
Print Assumptions link_R0_loop_test.

(* ------------------------------------------------------------------ C0: V acquired by `with` (executor); the six resets *)
Lemma link_C0_reset : forall v s t th c, failure_path_repaired v = true -> t_pc th = C0 -> free (lkV s) = true ->
  observe (fun r => (tt, abs_shared (fst r))) (step_th v s t th c) = Some (gen_C0_reset (abs_shared s)).
Proof. intros v s t th c Hv Hpc Hfree. unfold step_th. rewrite Hpc, Hfree, Hv. reflexivity. Qed.
Print Assumptions link_C0_reset.

(* ------------------------------------------------------------------ leaving run(): what the call hands back.
   `raise exception` re-raises the object stored in the local: the translator renders it as the class-less Err "exception"
   (raise-class-only applied to a variable); WHICH exception it is (RetExc k) is not expressed by the generated term. *)
Lemma link_outcome : forall th,
  gen_outcome (t_res th) (t_exc th) (Z.of_nat (t_bidx th))
  = match outcome_of th with
    | RetOk k idx => Ok (k, Z.of_nat idx)
    | RetExc _ _ => Err "exception"%string
    | RetValueError => Err "ValueError"%string
    end.
Proof. intros th. unfold gen_outcome, outcome_of. destruct (t_res th); [reflexivity|]. destruct (t_exc th); reflexivity. Qed.
Print Assumptions link_outcome.

(* ------------------------------------------------------------------ BatchingMutexSampler/Estimator._run: the slice
   [result[i] for i in range(start_index, start_index + n_pubs)] *)
Lemma py_index_nat_gen {A} (l : list A) (n : nat) :
  py_index l (Z.of_nat n) = match nth_error l n with Some x => Ok x | None => Err "IndexError"%string end.
Proof.
  unfold py_index, py_len. cbv zeta.
  assert (H0 : (Z.of_nat n <? 0) = false) by (apply Z.ltb_ge; lia). rewrite !H0. cbn [orb]. rewrite Nat2Z.id.
  destruct (Z.of_nat (List.length l) <=? Z.of_nat n) eqn:E; [|reflexivity].
  apply Z.leb_le in E. assert (L : (List.length l <= n)%nat) by lia.
  apply nth_error_None in L. rewrite L. reflexivity.
Qed.

Lemma slice_mapM {A} (l : list A) : forall (n a idx : nat),
  mapM (fun i => do it <- py_index l i; Ok it) (map (fun k => Z.of_nat idx + Z.of_nat k) (seq a n)) = slice l (idx + a) n.
Proof.
  induction n as [|n IH]; intros a idx; [reflexivity|].
  cbn [seq map mapM slice].
  replace (Z.of_nat idx + Z.of_nat a) with (Z.of_nat (idx + a)) by lia.
  rewrite py_index_nat_gen. destruct (nth_error l (idx + a)) as [x|]; cbn [bind]; [|reflexivity].
  rewrite IH. replace (idx + S a)%nat with (S (idx + a)) by lia. reflexivity.
Qed.

Lemma run_slice {A} (l : list A) (idx : nat) (pubs : list pub) :
  mapM (fun i => do it <- py_index l i; Ok it) (py_range (Z.of_nat idx) (Z.of_nat idx + py_len pubs))
  = slice l idx (List.length pubs).
Proof.
  unfold py_range, py_len. replace (Z.of_nat idx + Z.of_nat (List.length pubs) - Z.of_nat idx) with (Z.of_nat (List.length pubs)) by lia.
  rewrite Nat2Z.id, slice_mapM. replace (idx + 0)%nat with idx by lia. reflexivity.
Qed.

Lemma bind_ret {A} (r : result A) : (do x <- r; Ok x) = r.
Proof. destruct r; reflexivity. Qed.

(* the runner hands back (result object, start index) with a start index that is a natural number (link_E1_enter: it is
   Z.of_nat of the model's blen) or raises; then _run is the model's [slice] *)
Lemma link_Sampler_run : forall (A : Type) (runner : list pub -> result (list A * Z)) (pubs : list pub),
  (forall l (idx : nat), runner pubs = Ok (l, Z.of_nat idx) -> gen_Sampler_run A runner pubs = slice l idx (List.length pubs))
  /\ (forall e, runner pubs = Err e -> gen_Sampler_run A runner pubs = Err e).
Proof.
  intros A runner pubs. split.
  - intros l idx H. unfold gen_Sampler_run. rewrite H. cbn [bind]. rewrite run_slice. apply bind_ret.
  - intros e H. unfold gen_Sampler_run. rewrite H. reflexivity.
Qed.
Print Assumptions link_Sampler_run.

Lemma link_Estimator_run : forall (A : Type) (runner : list pub -> result (list A * Z)) (pubs : list pub),
  (forall l (idx : nat), runner pubs = Ok (l, Z.of_nat idx) -> gen_Estimator_run A runner pubs = slice l idx (List.length pubs))
  /\ (forall e, runner pubs = Err e -> gen_Estimator_run A runner pubs = Err e).
Proof.
  intros A runner pubs. split.
  - intros l idx H. unfold gen_Estimator_run. rewrite H. cbn [bind]. rewrite run_slice. apply bind_ret.
  - intros e H. unfold gen_Estimator_run. rewrite H. reflexivity.
Qed.
Print Assumptions link_Estimator_run.

(* ... which is what C06_slice speaks about: the model's [wrapper_return] for a call that came back with RetOk k idx *)
Lemma link_Sampler_run_wrapper_return : forall (A : Type) (R : nat -> pub -> A) lg pubs k idx arg b,
  nth_error lg k = Some (arg, b) ->
  gen_Sampler_run A (fun _ => Ok (results R k arg, Z.of_nat idx)) pubs = wrapper_return R lg pubs (RetOk k idx)
  /\ gen_Estimator_run A (fun _ => Ok (results R k arg, Z.of_nat idx)) pubs = wrapper_return R lg pubs (RetOk k idx).
Proof.
  intros A R lg pubs k idx arg b H. unfold wrapper_return. rewrite H. split.
  - apply (proj1 (link_Sampler_run A _ pubs)). reflexivity.
  - apply (proj1 (link_Estimator_run A _ pubs)). reflexivity.
Qed.
Print Assumptions link_Sampler_run_wrapper_return.

(* _sample / _estimate hand the batch to the wrapped primitive unchanged *)
Lemma link_Sampler_sample : forall (J : Type) (prim_run : list pub -> J) pubs, gen_Sampler_sample J prim_run pubs = prim_run pubs.
Proof. reflexivity. Qed.
Print Assumptions link_Sampler_sample.

Lemma link_Estimator_estimate : forall (J : Type) (prim_run : list pub -> J) pubs, gen_Estimator_estimate J prim_run pubs = prim_run pubs.
Proof. reflexivity. Qed.
Print Assumptions link_Estimator_estimate.

(* ------------------------------------------------------------------ MutexSampler / MutexEstimator: the constructor stores the
   primitive and creates THE lock (Batch/Mutex.v has the lock as a field that exists from construction, initially free) *)
Lemma link_MutexSampler_init : forall (P : Type) (p : P), gen_MutexSampler_init P p = mkMutexWrap P p NewSerializableLock.
Proof. reflexivity. Qed.
Print Assumptions link_MutexSampler_init.

Lemma link_MutexEstimator_init : forall (P : Type) (p : P), gen_MutexEstimator_init P p = mkMutexWrap P p NewSerializableLock.
Proof. reflexivity. Qed.
Print Assumptions link_MutexEstimator_init.

(* ------------------------------------------------------------------ the solver constructor against Batch/Mutex.v [install] *)
Fixpoint erase (w : wprim) : prim :=
  match w with
  | WRaw => Raw
  | WMutex p => MutexW (erase p)
  | WBatching p _ => BatchingMutexW (erase p)
  | WTranspiling p _ => TranspilingW (erase p)
  end.

(* [install] with the constructor arguments of the wrappers *)
Definition winstall (mutually_exclusive : bool) (ex : executor_kind) (wd : option Q) (pm : option passman) (p : wprim) : wprim :=
  WTranspiling (if mutually_exclusive then match ex with ThreadPool => WBatching p wd | DaskClient => WMutex p end else p) pm.

Lemma erase_winstall : forall me ex wd pm p, erase (winstall me ex wd pm p) = install me ex (erase p).
Proof. intros [|] [|] wd pm p; reflexivity. Qed.

Definition final_pm (o : option passman) : option passman := match o with Some p => Some p | None => Some (PresetPM 0) end.
(* the float literal 0.1 *)
Definition wd01 : option Q := Some (3602879701896397 # 36028797018963968)%Q.

Lemma link_Solver_init : forall (cfg : solvercfg) (ss : solverstate),
  gen_Solver_init cfg ss
  = (tt, mkS cfg
           (winstall (c_mutex cfg) (c_exec cfg) wd01 (final_pm (s_pm ss)) (s_sampler ss))
           (match c_estimator cfg with
            | Some _ => winstall (c_mutex cfg) (c_exec cfg) wd01 (final_pm (s_pm ss)) (s_estimator ss)
            | None => s_estimator ss
            end)
           (final_pm (s_pm ss))).
Proof.
  intros [me ex est] [c0 sa es pm].
  destruct me, ex, est as [[]|], pm as [p|]; reflexivity.
Qed.
Print Assumptions link_Solver_init.

(* the statement of C07_installed is about [install]: what the constructor leaves in configured_sampler.sampler (and, when
   there is one, configured_estimator.estimator) is [install] of what it found there *)
Lemma link_Solver_init_install : forall (cfg : solvercfg) (ss : solverstate),
  erase (s_sampler (snd (gen_Solver_init cfg ss))) = install (c_mutex cfg) (c_exec cfg) (erase (s_sampler ss))
  /\ (c_estimator cfg <> None ->
      erase (s_estimator (snd (gen_Solver_init cfg ss))) = install (c_mutex cfg) (c_exec cfg) (erase (s_estimator ss))).
Proof.
  intros cfg ss. rewrite link_Solver_init. cbn [snd s_sampler s_estimator]. split.
  - apply erase_winstall.
  - intros H. destruct (c_estimator cfg); [apply erase_winstall|congruence].
Qed.
Print Assumptions link_Solver_init_install.

(* ================================================================== ORDER AND NESTING of the synchronisation operations
   (idiom sync-skeleton).  The generated list has one item per lock/condition call (receiver under its DESIGN.md name E V I X,
   method, arguments as written), per `with` enter/exit, per call of the wrapped primitive (f-begin / f-end), per control
   statement, and one item "block" per maximal run of other statements; tests are opaque ("?").  The expected list below is
   the pc table of DESIGN.md section 5/C06 (= the constructors of Batch/Monitor.v [pc], in source order) written next to the
   control structure of run().  What the link gives: no synchronisation operation was added, dropped, reordered, moved across
   a straight-line block or into another branch, and no timeout/blocking argument changed.  What it does NOT give: the
   meaning of the operations (Lock/Condition semantics: harness/vlib/coop.py vs free/wait_end/notify_one, compared per step). *)
Open Scope string_scope.
Definition run_skeleton_expected : list string :=
  [ "block";                                   (* acquired_both_locks = False *)
    "while ? {";
    "if E.acquire(blocking=True) {";           (* E0 *)
    "if V.acquire(blocking=False) {";          (* E1 *)
    "block";                                   (*    link_E1_enter *)
    "E.release()";                             (* E2 *)
    "V.release()";                             (* E3 *)
    "with X {";                                (* E4 *)
    "X.notify_all()";                          (* E5 *)
    "} exit X";                                (* E6 *)
    "} else {";
    "E.release()";                             (* F1 *)
    "}";
    "}";
    "if ? {";                                  (* not acquired_both_locks *)
    "with X {";                                (* F2 *)
    "X.wait(0.5)";                             (* F3 wait-begin (timed: ext_wait_timed), F4 wait-end *)
    "} exit X";                                (* F5 *)
    "}";
    "}";
    "if ? {";                                  (* batch_waiting_duration is not None: linger *)
    "sleep";                                   (* S0 *)
    "}";
    "V.acquire()";                             (* G0 *)
    "block";                                   (*    link_G0_count *)
    "if ? {";                                  (*    ... its test *)
    "E.acquire(blocking=True)";                (* X1 *)
    "block";                                   (*    link_X1_executor_flag *)
    "try {";
    "f-begin";                                 (* X2 *)
    "f-end";                                   (* X3      link_X3_ok *)
    "} except Exception {";
    "block";                                   (*    link_X3_fail *)
    "}";
    "V.release()";                             (* X4 *)
    "} else {";
    "block";                                   (*    link_N1_member_flag *)
    "V.release()";                             (* N1 *)
    "with I {";                                (* N2 *)
    "I.wait()";                                (* N3 wait-begin (untimed), N4 wait-end *)
    "} exit I";                                (* N5 *)
    "}";
    "with V {";                                (* H0 *)
    "block";                                   (*    link_H0_gather *)
    "with I {";                                (* H1 *)
    "I.notify()";                              (* H2 *)
    "} exit I";                                (* H3 *)
    "} exit V";                                (* H4 *)
    "if ? {";                                  (* executor *)
    "while ? {";                               (* R0      link_R0_loop_test *)
    "with I {";                                (* R1 *)
    "I.wait(0.5)";                             (* R2 wait-begin (timed), R3 wait-end *)
    "} exit I";                                (* R4 *)
    "with I {";                                (* R5 *)
    "I.notify()";                              (* R6 *)
    "} exit I";                                (* R7 *)
    "}";
    "with V {";                                (* C0 *)
    "block";                                   (*    link_C0_reset *)
    "} exit V";                                (* C1 *)
    "E.release()";                             (* C2 *)
    "with X {";                                (* C3 *)
    "X.notify_all()";                          (* C4 *)
    "} exit X";                                (* C5 *)
    "}";
    "if ? {";                                  (*    link_outcome *)
    "if ? {";
    "raise";
    "}";
    "raise";
    "}";
    "return" ].

Lemma link_run_skeleton : gen_run_skeleton = run_skeleton_expected.
Proof. reflexivity. Qed.
Print Assumptions link_run_skeleton.

(* the same fact against Batch/Monitor.v: the synchronisation operations of run(), in source order, are the operations of
   the program counters in the order of the constructors of [pc].  F4 N4 R3 (wait-end: the second half of wait()) and R0
   (the loop test, a data read) have no item of their own. *)
Definition pc_source_order : list pc :=
  [E0; E1; E2; E3; E4; E5; E6; F1; F2; F3; F4; F5; S0; G0; X1; X2; X3; X4; N1; N2; N3; N4; N5;
   H0; H1; H2; H3; H4; R0; R1; R2; R3; R4; R5; R6; R7; C0; C1; C2; C3; C4; C5].
Definition pc_op (p : pc) : list string :=
  match p with
  | E0 => ["E.acquire(blocking=True)"] | E1 => ["V.acquire(blocking=False)"] | E2 => ["E.release()"] | E3 => ["V.release()"]
  | E4 => ["with X {"] | E5 => ["X.notify_all()"] | E6 => ["} exit X"]
  | F1 => ["E.release()"] | F2 => ["with X {"] | F3 => ["X.wait(0.5)"] | F4 => [] | F5 => ["} exit X"]
  | S0 => ["sleep"] | G0 => ["V.acquire()"]
  | X1 => ["E.acquire(blocking=True)"] | X2 => ["f-begin"] | X3 => ["f-end"] | X4 => ["V.release()"]
  | N1 => ["V.release()"] | N2 => ["with I {"] | N3 => ["I.wait()"] | N4 => [] | N5 => ["} exit I"]
  | H0 => ["with V {"] | H1 => ["with I {"] | H2 => ["I.notify()"] | H3 => ["} exit I"] | H4 => ["} exit V"]
  | R0 => [] | R1 => ["with I {"] | R2 => ["I.wait(0.5)"] | R3 => [] | R4 => ["} exit I"]
  | R5 => ["with I {"] | R6 => ["I.notify()"] | R7 => ["} exit I"]
  | C0 => ["with V {"] | C1 => ["} exit V"] | C2 => ["E.release()"] | C3 => ["with X {"] | C4 => ["X.notify_all()"] | C5 => ["} exit X"]
  | Done => []
  end.
(* drop the control structure and the opaque blocks; an operation used as an if-test is the operation *)
Definition sync_op_of (item : string) : list string :=
  if String.eqb item "if E.acquire(blocking=True) {" then ["E.acquire(blocking=True)"]
  else if String.eqb item "if V.acquire(blocking=False) {" then ["V.acquire(blocking=False)"]
  else if existsb (String.eqb item) ["block"; "}"; "} else {"; "if ? {"; "while ? {"; "try {"; "} except Exception {"; "return"; "raise"] then []
  else [item].

Lemma link_run_skeleton_pcs : flat_map sync_op_of gen_run_skeleton = flat_map pc_op pc_source_order.
Proof. reflexivity. Qed.
Print Assumptions link_run_skeleton_pcs.

(* MutexSampler.run / MutexEstimator.run = the four program counters of Batch/Mutex.v:
   M0 acquire the lock, M1 the wrapped run() is entered, M2 it returned (its value is returned), M3 release *)
Definition mpc_item (p : mpc) : list string :=
  match p with M0 => ["with L {"] | M1 => ["primitive.run"] | M2 => ["return"] | M3 => ["} exit L"] | MDone => [] end.

Lemma link_MutexSampler_run_skeleton : gen_MutexSampler_run_skeleton = flat_map mpc_item [M0; M1; M2; M3].
Proof. reflexivity. Qed.
Print Assumptions link_MutexSampler_run_skeleton.

Lemma link_MutexEstimator_run_skeleton : gen_MutexEstimator_run_skeleton = flat_map mpc_item [M0; M1; M2; M3].
Proof. reflexivity. Qed.
Print Assumptions link_MutexEstimator_run_skeleton.
