(* C12 / C05 — link between the Gallina GENERATED from /repo's current
   queasars/minimum_eigensolvers/base/evolving_ansatz_minimum_eigensolver.py (build/gen*/QVGen/C12Gen.v, written by
   translator/py2gallina.py on every check) and the hand-written model coq/theories/Solver/Loop.v the C12 and C05
   theorems are about.  One lemma link_<function> per translated function, each followed by Print Assumptions.
   Compiled by harness/vlib/translate.py; NOT part of coq/theories because it depends on the generated module.

   Linked: the two callbacks handed to the operators (closures of _solve_by_evolution over its locals; the locals are
   the model's `state` record) and the three limit checks in front of every operator application.  The link lemmas
   have NO hypotheses: they hold for every state, configuration, result and oracle. *)
From QV Require Import Translate.PyPrelude Translate.PyPrelude_proofs.
From QV Require Import Solver.Loop.
From QVGen Require Import C12Gen.
Open Scope Z_scope.

(* the model returns the new state (result_callback: together with a ghost trace item); the generated functions return
   (None, new state) like every translated function with explicit state *)
Definition unit_state {S X : Type} (proj : X -> S) (r : result X) : result (unit * S) :=
  match r with Ok x => Ok (tt, proj x) | Err e => Err e end.

(* ------------------------------------------------------------------ n_circuit_evaluations[n_generations] += e *)
Lemma add_at_nth : forall (l : list Z) (n : nat) (e : Z),
  add_at n e l = match nth_error l n with
                 | Some x => Ok (py_set_nth l n (x + e))
                 | None => Err "IndexError"%string
                 end.
Proof.
  induction l as [|x xs IH]; intros n e; [destruct n; reflexivity|].
  destruct n as [|n]; [reflexivity|].
  cbn [add_at nth_error py_set_nth]. rewrite IH. destruct (nth_error xs n); reflexivity.
Qed.

Lemma py_index_nat : forall (l : list Z) (n : nat),
  py_index l (Z.of_nat n) = match nth_error l n with Some x => Ok x | None => Err "IndexError"%string end.
Proof.
  intros l n. unfold py_index, py_len. cbv zeta.
  assert (H0 : (Z.of_nat n <? 0) = false) by (apply Z.ltb_ge; lia). rewrite !H0. cbn [orb]. rewrite Nat2Z.id.
  destruct (Z.of_nat (List.length l) <=? Z.of_nat n) eqn:E; [|reflexivity].
  apply Z.leb_le in E. assert (L : (List.length l <= n)%nat) by lia.
  apply nth_error_None in L. rewrite L. reflexivity.
Qed.

Lemma py_list_set_nat : forall (l : list Z) (n : nat) (v : Z),
  py_list_set l (Z.of_nat n) v = match nth_error l n with Some _ => Ok (py_set_nth l n v) | None => Err "IndexError"%string end.
Proof.
  intros l n v. unfold py_list_set, py_len. cbv zeta.
  assert (H0 : (Z.of_nat n <? 0) = false) by (apply Z.ltb_ge; lia). rewrite !H0. cbn [orb]. rewrite Nat2Z.id.
  destruct (Z.of_nat (List.length l) <=? Z.of_nat n) eqn:E.
  - apply Z.leb_le in E. assert (L : (List.length l <= n)%nat) by lia.
    apply nth_error_None in L. rewrite L. reflexivity.
  - apply Z.leb_gt in E. assert (L : (n < List.length l)%nat) by lia.
    apply nth_error_Some in L. destruct (nth_error l n); [reflexivity|congruence].
Qed.

Lemma index_then_set : forall (l : list Z) (n : nat) (e : Z),
  (do it <- py_index l (Z.of_nat n); py_list_set l (Z.of_nat n) (it + e)) = add_at n e l.
Proof.
  intros l n e. rewrite add_at_nth, py_index_nat.
  destruct (nth_error l n) as [x|] eqn:E; cbn [bind]; [|reflexivity].
  rewrite py_list_set_nat, E. reflexivity.
Qed.

Lemma link_circuit_evaluation_callback : forall (Ind R : Type) (e : Z) (st : state Ind R),
  gen_circuit_evaluation_callback Ind R e st = unit_state (fun s => s) (circuit_evaluation_callback Ind R e st).
Proof.
  intros Ind R e [l n t bi bv h].
  unfold gen_circuit_evaluation_callback, circuit_evaluation_callback, unit_state, set_ledger,
    mk_state, s_ledger, s_ngen, s_term, s_best_ind, s_best_val, s_hist, py_len.
  cbn [st_ledger st_ngen st_term st_best_ind st_best_val st_hist].
  assert (C : (Z.of_nat (List.length l) <? Z.of_nat n + 1) = (List.length l <? n + 1)%nat).
  { destruct (List.length l <? n + 1)%nat eqn:E.
    - apply Nat.ltb_lt in E. apply Z.ltb_lt. lia.
    - apply Nat.ltb_ge in E. apply Z.ltb_ge. lia. }
  rewrite C. destruct (List.length l <? n + 1)%nat.
  - cbn [bind]. rewrite Nat2Z.id. reflexivity.
  - rewrite <- index_then_set.
    destruct (py_index l (Z.of_nat n)) as [it|x]; cbn [bind]; [|reflexivity].
    destruct (py_list_set l (Z.of_nat n) (it + e)) as [l'|x]; cbn [bind]; [|reflexivity].
    rewrite Nat2Z.id. reflexivity.
Qed.
Print Assumptions link_circuit_evaluation_callback.

(* ------------------------------------------------------------------ result_callback *)
Lemma to_nat_succ : forall n : nat, Z.to_nat (Z.of_nat n + 1) = S n.
Proof. intros n. lia. Qed.

(* exp_values (evaluation_result.expectation_values) is only read for the log lines: the equation holds for every
   reading of it.  Pop and Op only type the model's ghost trace item, which the adapter drops. *)
Lemma link_result_callback : forall (Ind R Pop Op Init AuxEv : Type) (best_value : R -> Q) (best_ind : R -> Ind)
    (exp_values : R -> list (option Q)) (cfg : config Ind R Op Init AuxEv) (r : R) (st : state Ind R),
  gen_result_callback Ind R Op Init AuxEv best_value best_ind exp_values cfg r st
  = unit_state fst (result_callback Ind R Pop Op Init AuxEv best_value best_ind cfg r st).
Proof.
  intros Ind R Pop Op Init AuxEv best_value best_ind exp_values [ops mg me crit ini aux] r [l n t bi bv h].
  unfold gen_result_callback, result_callback, unit_state, crit_answer,
    mk_state, s_ledger, s_ngen, s_term, s_best_ind, s_best_val, s_hist, c_criterion.
  cbn [st_ledger st_ngen st_term st_best_ind st_best_val st_hist cfg_criterion].
  rewrite removelast_last, to_nat_succ.
  change (PyPrelude.Qltb (best_value r)) with (Loop.Qltb (best_value r)).
  destruct bi as [i|]; destruct bv as [v|]; try destruct (Loop.Qltb (best_value r) v);
    destruct crit as [c|]; reflexivity.
Qed.
Print Assumptions link_result_callback.

(* ------------------------------------------------------------------ the three limit checks before every operator *)
(* the loop's locals n_circuit_evaluations / n_generations / terminate are the fields of the model's state; the
   operator's estimate is whatever the oracle `estimate` answers for this operator and population *)
Lemma link_limit_checks : forall (Ind R Op Init AuxEv Pop : Type) (cfg : config Ind R Op Init AuxEv)
    (estimate : Op -> Pop -> option Z) (st : state Ind R) (op : Op) (pop : Pop) (ctx : unit),
  gen_limit_checks Ind R Op Init AuxEv Pop cfg estimate
    (st_ledger _ _ st) (Z.of_nat (st_ngen _ _ st)) (st_term _ _ st) op pop ctx
  = limit_checks Ind R Op Init AuxEv cfg st (estimate op pop).
Proof.
  intros Ind R Op Init AuxEv Pop [ops mg me crit ini aux] estimate [l n t bi bv h] op pop ctx.
  unfold gen_limit_checks, limit_checks, c_max_evals, c_max_generations.
  cbn [st_ledger st_ngen st_term cfg_max_evals cfg_max_generations].
  rewrite py_sum_Z_sumZ.
  destruct me as [B|]; destruct (estimate op pop) as [e|]; destruct mg as [G|]; rewrite ?Z.geb_leb;
    repeat match goal with |- context [if ?c then _ else _] => destruct c end; reflexivity.
Qed.
Print Assumptions link_limit_checks.

(* ------------------------------------------------------------------ the initialisations at the top of _solve_by_evolution *)
Lemma link_initial_state : forall (Ind R : Type),
  gen_initial_state Ind R
  = (st_ledger _ _ (state0 Ind R), Z.of_nat (st_ngen _ _ (state0 Ind R)), st_term _ _ (state0 Ind R),
     st_best_ind _ _ (state0 Ind R), st_best_val _ _ (state0 Ind R), st_hist _ _ (state0 Ind R)).
Proof. intros Ind R. reflexivity. Qed.
Print Assumptions link_initial_state.

(* ------------------------------------------------------------------ the guard behind the main loop *)
(* The guard is the first thing `finish` decides once no exception is pending (an exception raised inside the loop
   propagates past it): whether a result is returned at all, and with which exception class otherwise. *)
Lemma link_final_guard : forall (Ind R Pop Op W Init Dist AuxEv AV : Type) (cfg : config Ind R Op Init AuxEv)
    (wd : world Ind R Pop Op W Init Dist AuxEv AV) (s : ls Ind R Pop Op W),
  match l_err _ _ _ _ _ s with
  | Some e => Err e
  | None => gen_final_guard Ind R (st_best_ind _ _ (l_st _ _ _ _ _ s)) (st_best_val _ _ (l_st _ _ _ _ _ s)) (st_hist _ _ (l_st _ _ _ _ _ s))
  end
  = match finish Ind R Pop Op W Init Dist AuxEv AV cfg wd s with Ok _ => Ok tt | Err e => Err e end.
Proof.
  intros Ind R Pop Op W Init Dist AuxEv AV cfg wd [[l n t bi bv h] pop w tr err].
  unfold finish, gen_final_guard, py_len.
  cbn [l_err l_st st_best_ind st_best_val st_hist].
  destruct err as [e|]; [reflexivity|].
  destruct bi as [i|]; [|reflexivity]. destruct bv as [v|]; [|reflexivity].
  destruct h as [|r h]; reflexivity.
Qed.
Print Assumptions link_final_guard.

(* ------------------------------------------------------------------ the configuration's guard
   EvolvingAnsatzMinimumEigensolverConfiguration.__post_init__ accepts a configuration exactly when at least one of the three
   limits the C12 theorems are about (cfg_max_generations, cfg_max_evals, cfg_criterion) is set, and raises ValueError
   otherwise: an accepted configuration always has a limit that the loop model's theorems can bind. *)
Definition config_has_limit {Ind R Op Init AuxEv} (cfg : config Ind R Op Init AuxEv) : bool :=
  match cfg_max_generations _ _ _ _ _ cfg, cfg_max_evals _ _ _ _ _ cfg, cfg_criterion _ _ _ _ _ cfg with
  | None, None, None => false
  | _, _, _ => true
  end.

Lemma link_Config_post_init : forall (Ind R Op Init AuxEv : Type) (cfg : config Ind R Op Init AuxEv),
  gen_Config_post_init Ind R Op Init AuxEv cfg = if config_has_limit cfg then Ok tt else Err "ValueError"%string.
Proof.
  intros. unfold gen_Config_post_init, config_has_limit, c_max_generations, c_max_evals, c_criterion.
  destruct (cfg_max_generations _ _ _ _ _ cfg), (cfg_max_evals _ _ _ _ _ cfg), (cfg_criterion _ _ _ _ _ cfg); reflexivity.
Qed.
Print Assumptions link_Config_post_init.

Lemma link_Config_post_init_accepts : forall (Ind R Op Init AuxEv : Type) (cfg : config Ind R Op Init AuxEv),
  gen_Config_post_init Ind R Op Init AuxEv cfg = Ok tt ->
  (exists G, cfg_max_generations _ _ _ _ _ cfg = Some G) \/ (exists B, cfg_max_evals _ _ _ _ _ cfg = Some B)
  \/ (exists c, cfg_criterion _ _ _ _ _ cfg = Some c).
Proof.
  intros Ind R Op Init AuxEv cfg. rewrite link_Config_post_init. unfold config_has_limit.
  destruct (cfg_max_generations _ _ _ _ _ cfg) as [G|]; [intros _; left; now exists G|].
  destruct (cfg_max_evals _ _ _ _ _ cfg) as [B|]; [intros _; right; left; now exists B|].
  destruct (cfg_criterion _ _ _ _ _ cfg) as [c|]; [intros _; right; right; now exists c|discriminate].
Qed.
Print Assumptions link_Config_post_init_accepts.
