(* C19 — link between the Gallina GENERATED from /repo's current queasars/job_shop_scheduling/problem_instances.py
   (build/gen*/QVGen/C19Gen.v, written by translator/py2gallina.py on every check) and the hand-written model
   (coq/theories/Jssp/{Instance,Valid,ResultObj}.v) the C19 theorems are about.
   One lemma link_<function> per translated function, each followed by Print Assumptions.  Compiled by
   harness/vlib/translate.py; NOT part of coq/theories because it depends on the generated module. *)
From QV Require Import Translate.PyPrelude Translate.PyPrelude_proofs.
From QV Require Import Jssp.Instance Jssp.Valid Jssp.Valid_proofs Jssp.ResultObj.
From QVGen Require Import C19Gen.
Open Scope Z_scope.
Open Scope list_scope.

Definition guard (b : bool) : result unit := if b then Ok tt else Err JSSPException.

(* ------------------------------------------------------------------ constructors *)
Lemma link_Machine_post_init : forall n, gen_Machine_post_init n = guard (machine_ok n).
Proof. intros n. unfold gen_Machine_post_init, guard, machine_ok, nonempty. destruct (String.eqb n ""); reflexivity. Qed.
Print Assumptions link_Machine_post_init.

Lemma link_Operation_identifier : forall o, gen_Operation_identifier o = op_identifier o.
Proof. intros o. unfold gen_Operation_identifier, op_identifier. apply string_app_assoc. Qed.
Print Assumptions link_Operation_identifier.

Lemma link_Operation_post_init : forall o, gen_Operation_post_init o = guard (operation_ok o).
Proof.
  intros o. unfold gen_Operation_post_init, guard, operation_ok, nonempty.
  destruct (String.eqb (op_name o) ""); [reflexivity|].
  destruct (String.eqb (op_job o) ""); [reflexivity|].
  rewrite Z.leb_antisym. destruct (0 <? op_dur o); reflexivity.
Qed.
Print Assumptions link_Operation_post_init.

Lemma link_Job_is_consistent_with_machines : forall j ms,
  gen_Job_is_consistent_with_machines j ms = forallb (fun o => mem_str (op_machine o) ms) (job_ops j).
Proof.
  intros j ms. unfold gen_Job_is_consistent_with_machines. rewrite not_existsb_forallb.
  apply forallb_ext. intros o. cbn [andb]. rewrite negb_involutive. reflexivity.
Qed.
Print Assumptions link_Job_is_consistent_with_machines.

(* the loop of Job.__post_init__ with its set of visited machines, for any set already visited *)
Lemma job_loop jn ops : forall visited,
  is_ok (py_foldM (fun visited o =>
           if negb (String.eqb (op_job o) jn) then Err JSSPException
           else if py_mem String.eqb (op_machine o) visited then Err JSSPException
           else Ok (op_machine o :: visited)) ops visited)
  = forallb (fun o => String.eqb (op_job o) jn) ops
    && nodup_str (map op_machine ops)
    && forallb (fun o => negb (mem_str (op_machine o) visited)) ops.
Proof.
  induction ops as [|o t IH]; intros visited; [reflexivity|].
  cbn [py_foldM forallb map nodup_str].
  destruct (String.eqb (op_job o) jn); cbn [negb andb]; [|reflexivity].
  change (py_mem String.eqb (op_machine o) visited) with (mem_str (op_machine o) visited).
  destruct (mem_str (op_machine o) visited) eqn:Ev; cbn [negb andb].
  - now rewrite !andb_false_r.
  - rewrite IH. clear IH.
    assert (E : forallb (fun o0 => negb (mem_str (op_machine o0) (op_machine o :: visited))) t
                = negb (mem_str (op_machine o) (map op_machine t)) && forallb (fun o0 => negb (mem_str (op_machine o0) visited)) t).
    { clear. induction t as [|a t IH]; [reflexivity|]. cbn [forallb map]. rewrite IH.
      assert (C : forall x y l, mem_str x (y :: l) = String.eqb x y || mem_str x l) by reflexivity.
      rewrite !C, (String.eqb_sym (op_machine a) (op_machine o)).
      generalize (forallb (fun o0 => negb (mem_str (op_machine o0) visited)) t). intros F.
      destruct (String.eqb (op_machine o) (op_machine a)), (mem_str (op_machine o) (map op_machine t)), (mem_str (op_machine a) visited), F; reflexivity. }
    rewrite E. cbn [forallb negb andb]. try rewrite Ev. cbn [negb andb].
    destruct (forallb (fun o0 => String.eqb (op_job o0) jn) t); destruct (nodup_str (map op_machine t));
      destruct (mem_str (op_machine o) (map op_machine t));
      destruct (forallb (fun o0 => negb (mem_str (op_machine o0) visited)) t); reflexivity.
Qed.

Lemma is_ok_guard (r : result unit) (b : bool) :
  is_ok r = b -> (forall e, r = Err e -> e = JSSPException) -> (do _u <- r; Ok tt) = guard b.
Proof. intros H He. destruct r as [[]|e]; simpl in *; subst b; [reflexivity|]. now rewrite (He e eq_refl). Qed.

Lemma job_loop_err jn ops : forall visited e,
  py_foldM (fun visited o =>
           if negb (String.eqb (op_job o) jn) then Err JSSPException
           else if py_mem String.eqb (op_machine o) visited then Err JSSPException
           else Ok (op_machine o :: visited)) ops visited = Err e -> e = JSSPException.
Proof.
  induction ops as [|o t IH]; intros visited e; cbn [py_foldM]; [discriminate|].
  destruct (negb _); [now intros [= <-]|]. destruct (py_mem _ _ _); [now intros [= <-]|]. apply IH.
Qed.

Lemma link_Job_post_init : forall j, gen_Job_post_init j = guard (job_ok j).
Proof.
  intros j. unfold gen_Job_post_init, job_ok, nonempty.
  destruct (String.eqb (job_name j) ""); [reflexivity|]. cbn [negb andb].
  rewrite py_len_eq0. destruct (Nat.eqb (List.length (job_ops j)) 0); [reflexivity|]. cbn [negb andb].
  cbv zeta. rewrite (map_ext _ _ link_Operation_identifier), py_set_len_map_nodup_str.
  destruct (nodup_str (map op_identifier (job_ops j))); [|reflexivity]. cbn [negb andb].
  change "JobShopSchedulingProblemException"%string with JSSPException.
  match goal with |- (do l <- ?r; Ok tt) = _ =>
    assert (H := job_loop (job_name j) (job_ops j) []); assert (He := job_loop_err (job_name j) (job_ops j) []);
    destruct r as [v|e] eqn:Er end.
  - cbn [bind]. simpl is_ok in H. unfold guard.
    replace (forallb (fun o => negb (mem_str (op_machine o) [])) (job_ops j)) with true in H
      by (clear; induction (job_ops j); [reflexivity | assumption]).
    rewrite andb_true_r in H. now rewrite <- H.
  - cbn [bind]. simpl is_ok in H. rewrite (He e eq_refl). unfold guard.
    replace (forallb (fun o => negb (mem_str (op_machine o) [])) (job_ops j)) with true in H
      by (clear; induction (job_ops j); [reflexivity | assumption]).
    rewrite andb_true_r in H. now rewrite <- H.
Qed.
Print Assumptions link_Job_post_init.

Lemma link_Instance_post_init : forall i, gen_Instance_post_init i = guard (instance_ok i).
Proof.
  intros i. unfold gen_Instance_post_init, instance_ok, nonempty, guard.
  destruct (String.eqb (inst_name i) ""); [reflexivity|]. cbn [negb andb].
  rewrite py_set_len_nodup_str. destruct (nodup_str (inst_machines i)); [|reflexivity]. cbn [negb andb].
  cbv zeta. rewrite py_set_len_map_nodup_str.
  change (map (fun x => job_name x) (inst_jobs i)) with (map job_name (inst_jobs i)).
  destruct (nodup_str (map job_name (inst_jobs i))); [|reflexivity]. cbn [negb andb].
  assert (E : forall l, existsb (fun job_ => negb (gen_Job_is_consistent_with_machines job_ (inst_machines i))) l
              = negb (forallb (fun j => forallb (fun o => mem_str (op_machine o) (inst_machines i)) (job_ops j)) l)).
  { induction l as [|j t IH]; [reflexivity|]. cbn [existsb forallb].
    rewrite IH, link_Job_is_consistent_with_machines, negb_andb. reflexivity. }
  rewrite E. destruct (forallb _ (inst_jobs i)); reflexivity.
Qed.
Print Assumptions link_Instance_post_init.

(* ------------------------------------------------------------------ scheduled operations *)
Lemma link_ScheduledOperation_end_time : forall p,
  gen_ScheduledOperation_end_time p
  = match snd p with Some t => Ok (end_of (fst p, t)) | None => Err "AttributeError"%string end.
Proof. intros [o [t|]]; reflexivity. Qed.
Print Assumptions link_ScheduledOperation_end_time.

Lemma link_ensure_all_operations_are_scheduled : forall s, gen_ensure_all_operations_are_scheduled s = all_scheduled s.
Proof.
  intros s. unfold gen_ensure_all_operations_are_scheduled, all_scheduled. rewrite not_existsb_forallb.
  apply forallb_ext. intros [j row]. cbn [snd].
  induction row as [|p t IH]; [reflexivity|]. cbn [existsb forallb]. rewrite negb_orb, negb_involutive. now rewrite IH.
Qed.
Print Assumptions link_ensure_all_operations_are_scheduled.

(* ------------------------------------------------------------------ JobShopSchedulingResult.__init__ *)
Lemma job_eqb_sym a b : job_eqb a b = job_eqb b a.
Proof.
  destruct (job_eqb a b) eqn:E1, (job_eqb b a) eqn:E2; try reflexivity.
  - apply job_eqb_eq in E1. subst. assert (job_eqb b b = true) by now apply job_eqb_eq. congruence.
  - apply job_eqb_eq in E2. subst. assert (job_eqb a a = true) by now apply job_eqb_eq. congruence.
Qed.

Lemma dict_get_lookup s j :
  py_dict_get job_eqb s j = match sched_lookup s j with Some row => Ok row | None => Err "KeyError"%string end.
Proof. unfold py_dict_get, sched_lookup. destruct (find _ s); reflexivity. Qed.

Lemma lookup_of_mem s j : job_mem j (map fst s) = true -> exists row, sched_lookup s j = Some row.
Proof.
  unfold job_mem, sched_lookup. induction s as [|kv t IH]; cbn [map existsb find]; [discriminate|].
  rewrite (job_eqb_sym j (fst kv)). destruct (job_eqb (fst kv) j); [eexists; reflexivity | exact IH].
Qed.

Lemma link_Result_init : forall i s,
  gen_Result_init i s = if result_ok i s then Ok cache0 else Err JSSPException.
Proof.
  intros i s. unfold gen_Result_init, result_ok, py_set_eqb, py_dict_keys.
  change (forallb (fun x => py_mem job_eqb x (map fst s)) (inst_jobs i)) with (forallb (fun j => job_mem j (map fst s)) (inst_jobs i)).
  destruct (forallb (fun j => job_mem j (map fst s)) (inst_jobs i)) eqn:Hall; [|reflexivity].
  replace (forallb (fun x => py_mem job_eqb x (inst_jobs i)) (map fst s)) with (forallb (fun kv => job_mem (fst kv) (inst_jobs i)) s)
    by (clear; induction s as [|kv t IH]; [reflexivity | cbn [map forallb]; now rewrite IH]).
  destruct (forallb (fun kv => job_mem (fst kv) (inst_jobs i)) s); [|reflexivity]. cbn [negb andb].
  rewrite (py_foldM_ext_in _ (fun (_ : unit) j =>
             if match sched_lookup s j with Some row => list_eqb op_eqb (job_ops j) (map fst row) | None => false end
             then Ok tt else Err JSSPException)).
  - rewrite py_foldM_unit_forallb. match goal with |- context[if ?b then Ok tt else _] => destruct b end; reflexivity.
  - intros [] j Hj. rewrite dict_get_lookup.
    assert (Hm : job_mem j (map fst s) = true) by (rewrite forallb_forall in Hall; now apply Hall).
    destruct (lookup_of_mem s j Hm) as [row ->]. cbn [bind].
    change (map (fun x => fst x) row) with (map fst row).
    destruct (list_eqb op_eqb (job_ops j) (map fst row)); reflexivity.
Qed.
Print Assumptions link_Result_init.

(* ------------------------------------------------------------------ _is_valid_solution *)
(* a scheduled entry of the schedule dict, seen from the model's stripped rows *)
Definition lift (q : sop) : psop := (fst q, Some (snd q)).
Definition o2l {A} (o : option A) : list A := match o with Some x => [x] | None => [] end.
Definition lastp (prev : option sop) (L : list sop) : option sop :=
  match last_opt L with Some x => Some x | None => prev end.

Lemma strip_lift L : strip (map lift L) = L.
Proof. induction L as [|[o t] L IH]; [reflexivity|]. change (strip (map lift ((o, t) :: L))) with ((o, t) :: strip (map lift L)). now rewrite IH. Qed.

Lemma lift_strip row : forallb is_sched row = true -> map lift (strip row) = row.
Proof.
  induction row as [|[o [t|]] row IH]; intros H; [reflexivity | | discriminate H].
  change (strip ((o, Some t) :: row)) with ((o, t) :: strip row). cbn [map]. rewrite IH; [reflexivity | exact H].
Qed.

(* the neighbour check both loops share *)
Definition chk (so : psop) (prev : option psop) : result (ctl bool (option psop)) :=
  match prev with
  | Some p => do a <- psop_start so; do b <- gen_ScheduledOperation_end_time p;
              if a <? b then Ok (Ret false) else Ok (Next (Some so))
  | None => Ok (Next (Some so))
  end.

Lemma lastp_cons prev x t : lastp prev (x :: t) = lastp (Some x) t.
Proof. unfold lastp. destruct t as [|y t]; [reflexivity|]. change (last_opt (x :: y :: t)) with (last_opt (y :: t)).
  destruct (last_opt (y :: t)) eqn:E; [reflexivity|]. exfalso. revert E. clear. revert y. induction t; intros; simpl in *; [discriminate|eauto]. Qed.

Lemma chk_loop L : forall prev,
  py_for (map lift L) chk (option_map lift prev)
  = if neighbours_ok (o2l prev ++ L) then Ok (Next (option_map lift (lastp prev L))) else Ok (Ret false).
Proof.
  induction L as [|x t IH]; intros prev.
  - cbn [map py_for]. rewrite app_nil_r. destruct prev; reflexivity.
  - cbn [map py_for]. rewrite lastp_cons. destruct prev as [p|]; cbn [option_map chk o2l app].
    + change (psop_start (lift x)) with (Ok (A:=Z) (start_of x)).
      change (gen_ScheduledOperation_end_time (lift p)) with (Ok (A:=Z) (end_of p)). cbn [bind].
      change (neighbours_ok (p :: x :: t)) with ((end_of p <=? start_of x) && neighbours_ok (x :: t)).
      rewrite Z.ltb_antisym. destruct (end_of p <=? start_of x); cbn [negb andb]; [|reflexivity].
      exact (IH (Some x)).
    + exact (IH (Some x)).
Qed.

(* machine_operation_mapping: one entry per machine, in the order of instance.machines *)
Definition mdict (ms : list string) (g : string -> list psop) : list (string * list psop) := map (fun m => (m, g m)) ms.

Lemma mdict_ext ms g1 g2 : (forall m, g1 m = g2 m) -> mdict ms g1 = mdict ms g2.
Proof. intros H. unfold mdict. apply map_ext. intros m. now rewrite H. Qed.

Lemma mdict_get ms g k : In k ms -> py_dict_get String.eqb (mdict ms g) k = Ok (g k).
Proof.
  unfold py_dict_get. induction ms as [|m t IH]; intros Hk; [contradiction|].
  cbn [mdict map find fst]. destruct (String.eqb m k) eqn:E.
  - apply String.eqb_eq in E. subst. reflexivity.
  - apply IH. destruct Hk as [->|Hk]; [|exact Hk]. rewrite String.eqb_refl in E. discriminate.
Qed.

Lemma mdict_set ms g k v : NoDup ms -> In k ms ->
  py_dict_set String.eqb (mdict ms g) k v = mdict ms (fun m => if String.eqb m k then v else g m).
Proof.
  induction ms as [|m t IH]; intros Hnd Hk; [contradiction|].
  inversion Hnd as [|? ? Hm Hnd']; subst. cbn [mdict map py_dict_set fst].
  destruct (String.eqb m k) eqn:E.
  - apply String.eqb_eq in E. subst. f_equal. apply map_ext_in. intros m' Hm'.
    destruct (String.eqb m' k) eqn:E'; [|reflexivity]. apply String.eqb_eq in E'. subst. contradiction.
  - f_equal. apply IH; [exact Hnd'|]. destruct Hk as [->|Hk]; [|exact Hk]. rewrite String.eqb_refl in E. discriminate.
Qed.

Lemma dict_set_fresh (d : list (string * list psop)) k v :
  (forall kv, In kv d -> fst kv <> k) -> py_dict_set String.eqb d k v = d ++ [(k, v)].
Proof.
  induction d as [|kv t IH]; intros H; [reflexivity|]. cbn [py_dict_set app].
  destruct (String.eqb (fst kv) k) eqn:E.
  - apply String.eqb_eq in E. exfalso. exact (H kv (or_introl eq_refl) E).
  - f_equal. apply IH. intros kv' Hkv'. apply H. now right.
Qed.

Lemma mdict_init l : forall acc, NoDup l -> (forall kv, In kv acc -> ~ In (fst kv) l) ->
  fold_left (fun d_ kv_ => py_dict_set String.eqb d_ (fst kv_) (snd kv_)) (map (fun m => (m, @nil psop)) l) acc
  = acc ++ mdict l (fun _ => []).
Proof.
  induction l as [|m t IH]; intros acc Hnd Hacc; [cbn; now rewrite app_nil_r|].
  inversion Hnd as [|? ? Hm Hnd']; subst. cbn [map fold_left fst snd].
  rewrite dict_set_fresh.
  - rewrite IH; [now rewrite <- app_assoc | exact Hnd' |].
    intros kv Hkv Hin. apply in_app_or in Hkv as [Hkv|[<-|[]]].
    + apply (Hacc kv Hkv). now right.
    + exact (Hm Hin).
  - intros kv Hkv E. apply (Hacc kv Hkv). left. now symmetry.
Qed.

(* the loop over one job's row *)
Definition opbody (so : psop) (st : list (string * list psop) * option psop) : result (ctl bool (list (string * list psop) * option psop)) :=
  let '(mom, prev) := st in
  do cur <- py_dict_get String.eqb mom (op_machine (fst so));
  let mom := py_dict_set String.eqb mom (op_machine (fst so)) (cur ++ [so])%list in
  match prev with
  | Some p => do a <- psop_start so; do b <- gen_ScheduledOperation_end_time p;
              if a <? b then Ok (Ret false) else Ok (Next (mom, Some so))
  | None => Ok (Next (mom, Some so))
  end.

Lemma on_machine_cons' m x t : on_machine m (x :: t) = if String.eqb (mach_of x) m then x :: on_machine m t else on_machine m t.
Proof. reflexivity. Qed.

Lemma op_loop ms : NoDup ms -> forall L g prev, (forall x, In x L -> In (mach_of x) ms) ->
  py_for (map lift L) opbody (mdict ms g, option_map lift prev)
  = if neighbours_ok (o2l prev ++ L)
    then Ok (Next (mdict ms (fun m => g m ++ map lift (on_machine m L)), option_map lift (lastp prev L)))
    else Ok (Ret false).
Proof.
  intros Hnd. induction L as [|x t IH]; intros g prev HL.
  - cbn [map py_for]. rewrite app_nil_r. replace (neighbours_ok (o2l prev)) with true by (destruct prev; reflexivity).
    replace (lastp prev []) with prev by (destruct prev; reflexivity).
    rewrite (mdict_ext ms (fun m => g m ++ map lift (on_machine m [])) g); [reflexivity|]. intros m. cbn. apply app_nil_r.
  - cbn [map py_for]. rewrite lastp_cons. unfold opbody at 1.
    change (op_machine (fst (lift x))) with (mach_of x).
    rewrite mdict_get by (apply HL; now left). cbn [bind].
    rewrite mdict_set by (try exact Hnd; apply HL; now left).
    assert (HG : forall P : _ -> Prop,
              P (mdict ms (fun m => (if String.eqb m (mach_of x) then g (mach_of x) ++ [lift x] else g m) ++ map lift (on_machine m t)))
              -> P (mdict ms (fun m => g m ++ map lift (on_machine m (x :: t))))).
    { intros P HP. erewrite mdict_ext; [exact HP|]. intros m. rewrite on_machine_cons', (String.eqb_sym (mach_of x) m).
      destruct (String.eqb m (mach_of x)) eqn:E; [|reflexivity]. apply String.eqb_eq in E. subst m.
      cbn [map]. now rewrite <- app_assoc. }
    assert (Ht : forall y, In y t -> In (mach_of y) ms) by (intros y Hy; apply HL; now right).
    destruct prev as [p|]; cbn [option_map o2l app].
    + change (psop_start (lift x)) with (Ok (A:=Z) (start_of x)).
      change (gen_ScheduledOperation_end_time (lift p)) with (Ok (A:=Z) (end_of p)). cbn [bind].
      change (neighbours_ok (p :: x :: t)) with ((end_of p <=? start_of x) && neighbours_ok (x :: t)).
      rewrite Z.ltb_antisym. destruct (end_of p <=? start_of x); cbn [negb andb]; [|reflexivity].
      rewrite (IH _ (Some x) Ht). cbn [o2l app]. destruct (neighbours_ok (x :: t)); [|reflexivity].
      apply HG. reflexivity.
    + rewrite (IH _ (Some x) Ht). cbn [o2l app]. destruct (neighbours_ok (x :: t)); [|reflexivity].
      apply HG. reflexivity.
Qed.

(* the loop over the jobs *)
Definition jobbody (s : schedule) (job_ : job) (mom : list (string * list psop)) : result (ctl bool (list (string * list psop))) :=
  do row <- py_dict_get job_eqb s job_;
  do l6 <- py_for row opbody (mom, (None : option psop));
  match l6 with
  | Ret r_ => Ok (Ret r_)
  | Next (mom, _) => Ok (Next mom)
  end.

Lemma job_loop_valid s ms : NoDup ms -> forall js rows g,
  lookup_rows s js = Some rows ->
  (forall row, In row rows -> forallb is_sched row = true) ->
  (forall row p, In row rows -> In p (strip row) -> In (mach_of p) ms) ->
  py_for js (jobbody s) (mdict ms g)
  = if forallb neighbours_ok (map strip rows)
    then Ok (Next (mdict ms (fun m => g m ++ map lift (on_machine m (concat (map strip rows))))))
    else Ok (Ret false).
Proof.
  intros Hnd. induction js as [|j js IH]; intros rows g Hrows Hsch Hm.
  - cbn in Hrows. injection Hrows as <-. cbn. f_equal. f_equal. apply mdict_ext. intros m. now rewrite app_nil_r.
  - cbn [lookup_rows] in Hrows. destruct (sched_lookup s j) as [r|] eqn:Er; [|discriminate].
    destruct (lookup_rows s js) as [rs|] eqn:Ers; [|discriminate]. injection Hrows as <-.
    cbn [py_for]. unfold jobbody at 1. rewrite dict_get_lookup, Er. cbn [bind].
    rewrite <- (lift_strip r) at 1 by (apply Hsch; now left).
    pose proof (op_loop ms Hnd (strip r) g None) as Hop. cbn [option_map] in Hop.
    rewrite Hop by (intros x Hx; apply (Hm r x); [now left | exact Hx]). clear Hop.
    cbn [o2l app map forallb concat]. destruct (neighbours_ok (strip r)); cbn [bind andb]; [|reflexivity].
    rewrite (IH rs) by (try reflexivity; intros; try apply Hsch; try eapply Hm; try (right; eassumption); eassumption).
    destruct (forallb neighbours_ok (map strip rs)); [|reflexivity].
    f_equal. f_equal. apply mdict_ext. intros m. unfold on_machine. rewrite filter_app, map_app, app_assoc. reflexivity.
Qed.

(* the loop over the machines' lists *)
Definition machbody (sos : list psop) (_ : unit) : result (ctl bool unit) :=
  do ks <- mapM (fun x => do t <- psop_start x; Ok t) sos;
  do l <- py_for (map snd (py_sorted_by Z.leb fst (combine ks sos))) chk (None : option psop);
  match l with
  | Ret r_ => Ok (Ret r_)
  | Next _ => Ok (Next tt)
  end.

Lemma keys_lift L : mapM (fun x => do t <- psop_start x; Ok t) (map lift L) = Ok (map start_of L).
Proof. induction L as [|x t IH]; [reflexivity|]. cbn [map mapM]. rewrite IH. reflexivity. Qed.

Definition keyed (q : sop) : Z * psop := (start_of q, lift q).

Lemma combine_keyed L : combine (map start_of L) (map lift L) = map keyed L.
Proof. induction L as [|x t IH]; [reflexivity|]. cbn [map combine]. now rewrite IH. Qed.

Lemma insert_keyed x l : py_insert_by Z.leb fst (keyed x) (map keyed l) = map keyed (insert_by_start x l).
Proof.
  induction l as [|y l IH]; [reflexivity|]. cbn [map py_insert_by insert_by_start fst keyed].
  destruct (start_of x <=? start_of y); [reflexivity|]. cbn [map]. f_equal. exact IH.
Qed.

Lemma sorted_keyed L : py_sorted_by Z.leb fst (map keyed L) = map keyed (sort_by_start L).
Proof.
  unfold py_sorted_by, sort_by_start. induction L as [|x t IH]; [reflexivity|].
  cbn [map fold_right]. rewrite IH. apply insert_keyed.
Qed.

Lemma mach_loop (Ls : list (list sop)) :
  py_for (map (map lift) Ls) machbody tt
  = if forallb (fun L => neighbours_ok (sort_by_start L)) Ls then Ok (Next tt) else Ok (Ret false).
Proof.
  induction Ls as [|L Ls IH]; [reflexivity|]. cbn [map py_for forallb]. unfold machbody at 1.
  rewrite keys_lift. cbn [bind]. rewrite combine_keyed, sorted_keyed, map_map. cbn [keyed snd].
  change (map (fun x => lift x) (sort_by_start L)) with (map lift (sort_by_start L)).
  pose proof (chk_loop (sort_by_start L) None) as Hc. cbn [option_map] in Hc. rewrite Hc. clear Hc. cbn [o2l app].
  destruct (neighbours_ok (sort_by_start L)); cbn [bind andb]; [exact IH | reflexivity].
Qed.

Lemma forallb_map_l {A B} (f : A -> B) (g : B -> bool) l : forallb g (map f l) = forallb (fun x => g (f x)) l.
Proof. induction l as [|x t IH]; [reflexivity|]. cbn [map forallb]. now rewrite IH. Qed.

(* Hypotheses: the instance passed its constructors (machines pairwise different, every operation's machine is one of
   them) and the result constructor accepted the schedule (every job has its row) — the hypotheses of the C19 theorems.
   Without them the Python code raises KeyError at another point than the model's up-front lookup_rows. *)
Lemma link_Result_is_valid_solution : forall i s,
  wf_instance i = true -> result_ok i s = true ->
  gen_Result_is_valid_solution i s = is_valid_impl i s.
Proof.
  intros i s Hwf Hres. unfold gen_Result_is_valid_solution, is_valid_impl.
  rewrite link_ensure_all_operations_are_scheduled. destruct (all_scheduled s) eqn:Hall; [|reflexivity]. cbn [negb].
  assert (Hnd : NoDup (inst_machines i)).
  { unfold wf_instance, instance_ok in Hwf. rewrite !andb_true_iff in Hwf. apply nodup_str_NoDup. tauto. }
  destruct (lookup_rows_exists s (inst_jobs i)) as [rows Hrows].
  { intros j Hj. apply result_ok_spec in Hres as [_ [_ H3]]. destruct (H3 j Hj) as [row [-> _]]. eexists; reflexivity. }
  rewrite Hrows. cbv zeta.
  rewrite (mdict_init (inst_machines i) [] Hnd) by (intros kv []). cbn [app].
  change (py_for (inst_jobs i) _ (mdict (inst_machines i) (fun _ => []))) with (py_for (inst_jobs i) (jobbody s) (mdict (inst_machines i) (fun _ => []))).
  assert (Hsch : forall row, In row rows -> forallb is_sched row = true).
  { intros row Hrow. destruct (Forall2_In_r _ _ _ _ (lookup_rows_Forall2 _ _ _ Hrows) Hrow) as [j [_ Hl]].
    unfold sched_lookup in Hl. destruct (find _ s) as [kv|] eqn:Ef; [|discriminate]. injection Hl as <-.
    apply find_some in Ef as [Hin _]. unfold all_scheduled in Hall. rewrite forallb_forall in Hall. exact (Hall kv Hin). }
  rewrite (job_loop_valid s (inst_machines i) Hnd (inst_jobs i) rows (fun _ => []) Hrows Hsch).
  - destruct (forallb neighbours_ok (map strip rows)); cbn [bind andb]; [|reflexivity].
    unfold py_dict_values, mdict. rewrite map_map. cbn [snd app].
    rewrite <- (map_map (fun m => on_machine m (concat (map strip rows))) (map lift)).
    change (py_for _ _ tt) with (py_for (map (map lift) (map (fun m => on_machine m (concat (map strip rows))) (inst_machines i))) machbody tt).
    rewrite mach_loop, forallb_map_l.
    destruct (forallb _ (inst_machines i)); reflexivity.
  - intros row p Hrow Hp. apply (flat_ops i s rows Hwf Hres Hrows p).
    apply in_concat. exists (strip row). split; [now apply in_map | exact Hp].
Qed.
Print Assumptions link_Result_is_valid_solution.

(* ------------------------------------------------------------------ the cached result object *)
Lemma link_Result_is_valid : forall i s c,
  wf_instance i = true -> result_ok i s = true ->
  gen_Result_is_valid i s c = q_is_valid i s c.
Proof.
  intros i s c Hwf Hres. unfold gen_Result_is_valid, q_is_valid. destruct (c_valid c); [reflexivity|].
  rewrite (link_Result_is_valid_solution i s Hwf Hres). reflexivity.
Qed.
Print Assumptions link_Result_is_valid.

(* valid_schedule returns the schedule itself or raises; q_accessor records only whether it raises *)
Lemma link_Result_valid_schedule : forall i s c,
  wf_instance i = true -> result_ok i s = true ->
  gen_Result_valid_schedule i s c = do rc <- q_accessor i s c; if fst rc then Err JSSPException else Ok (s, snd rc).
Proof.
  intros i s c Hwf Hres. unfold gen_Result_valid_schedule, q_accessor. rewrite (link_Result_is_valid i s c Hwf Hres).
  destruct (q_is_valid i s c) as [[b c']|e]; [|reflexivity]. destruct b; reflexivity.
Qed.
Print Assumptions link_Result_valid_schedule.

(* rows without unscheduled entries: the last entry's end time read through the psop accessors is the model's
   `last_opt (strip row)` *)
Lemma last_end_strip row : forallb is_sched row = true ->
  (do it <- py_index row (-1); do v <- gen_ScheduledOperation_end_time it; Ok v)
  = match last_opt (strip row) with Some p => Ok (end_of p) | None => Err "IndexError"%string end.
Proof.
  intros H. rewrite py_index_last. destruct row as [|p0 t0]; [reflexivity|].
  revert p0 H. induction t0 as [|q t IH]; intros p H.
  - destruct p as [o [st|]]; [reflexivity | discriminate].
  - cbn [forallb] in H. apply andb_true_iff in H as [Hp H].
    specialize (IH q H). destruct p as [o [st|]]; [|discriminate].
    cbn [List.length] in *. replace (S (S (List.length t)) - 1)%nat with (S (S (List.length t) - 1)) by lia.
    cbn [nth_error]. rewrite IH. clear IH.
    change (strip ((o, Some st) :: q :: t)) with ((o, st) :: strip (q :: t)).
    destruct (strip (q :: t)) eqn:E; [|reflexivity].
    exfalso. destruct q as [oq [sq|]]; [discriminate E | cbn [forallb is_sched snd] in H; discriminate H].
Qed.

Lemma is_valid_all_scheduled i s : is_valid_impl i s = Ok true -> all_scheduled s = true.
Proof. unfold is_valid_impl. destruct (all_scheduled s); [reflexivity | discriminate]. Qed.

Lemma fold_max_assoc l : forall b z, Z.max b (fold_left Z.max l z) = fold_left Z.max l (Z.max b z).
Proof. induction l as [|w l IH]; intros b z; cbn [fold_left]; [reflexivity|]. rewrite IH. now rewrite Z.max_assoc. Qed.

Lemma max_list_fold l : forall a, max_list (a :: l) = Some (fold_left Z.max l a).
Proof.
  induction l as [|y l IH]; intros a; [reflexivity|].
  change (max_list (a :: y :: l)) with (match max_list (y :: l) with None => Some a | Some m => Some (Z.max a m) end).
  rewrite IH. cbn [fold_left]. now rewrite fold_max_assoc.
Qed.

Lemma fold_pymax l : forall a, fold_left (fun cur it => if cur <? it then it else cur) l a = fold_left Z.max l a.
Proof. induction l as [|y l IH]; intros a; cbn [fold_left]; [reflexivity|]. rewrite IH. f_equal. destruct (Z.ltb_spec a y); lia. Qed.

(* Hypothesis: the cache is coherent (a cached verdict `true` is the computed one) — an invariant of every object
   state reachable from the constructor's cache0 (ResultObj_proofs.v). Without it the unguarded `.end_time` of an
   unscheduled entry (AttributeError) is not what q_makespan's `strip` does. *)
Lemma link_Result_makespan : forall i s c,
  wf_instance i = true -> result_ok i s = true ->
  (c_valid c = Some true -> is_valid_impl i s = Ok true) ->
  gen_Result_makespan i s c = q_makespan i s c.
Proof.
  intros i s c Hwf Hres Hc. unfold gen_Result_makespan, q_makespan. rewrite (link_Result_is_valid i s c Hwf Hres).
  assert (Hv : forall c', q_is_valid i s c = Ok (true, c') -> all_scheduled s = true /\ c_valid c' = Some true).
  { unfold q_is_valid. destruct (c_valid c) as [b|] eqn:Ec.
    - intros c' [= -> <-]. split; [apply (is_valid_all_scheduled i), Hc; reflexivity | assumption].
    - destruct (is_valid_impl i s) as [b|e] eqn:Ei; [|discriminate]. intros c' [= -> <-]. split; [now apply (is_valid_all_scheduled i) | reflexivity]. }
  destruct (q_is_valid i s c) as [[b c1]|e]; [|reflexivity]. cbn [bind fst snd].
  destruct b; [|reflexivity]. cbn [negb]. destruct (Hv c1 eq_refl) as [Hall Hc1].
  destruct (c_mk c1); [reflexivity|].
  rewrite (link_Result_valid_schedule i s c1 Hwf Hres). unfold q_accessor, q_is_valid. rewrite Hc1. cbn [bind fst snd negb].
  unfold py_dict_values. rewrite mapM_map.
  rewrite (mapM_ext_in _ (fun kv => match last_opt (strip (snd kv)) with Some p => Ok (end_of p) | None => Err "IndexError"%string end)).
  - destruct (mapM _ s) as [ends|e]; [|reflexivity]. cbn [bind].
    unfold py_max_Z. destruct ends as [|x t]; [reflexivity|]. cbn [bind].
    rewrite max_list_fold, fold_pymax. reflexivity.
  - intros [j row] Hin. cbn [snd]. apply last_end_strip.
    unfold all_scheduled in Hall. rewrite forallb_forall in Hall. exact (Hall (j, row) Hin).
Qed.
Print Assumptions link_Result_makespan.

(* ------------------------------------------------------------------ is_scheduled and the result object's read accessors
   Which class an entry of a schedule has is the data representation (snd p = None: UnscheduledOperation, Some t:
   ScheduledOperation); the two is_scheduled properties return the constant the model's is_sched computes from it.  The
   accessors problem_instance / schedule hand out what the constructor stored (link_Result_init: its two arguments). *)
Lemma link_Unscheduled_is_scheduled : forall p : psop, snd p = None -> gen_Unscheduled_is_scheduled p = is_sched p.
Proof. intros p H. unfold gen_Unscheduled_is_scheduled, is_sched. now rewrite H. Qed.
Print Assumptions link_Unscheduled_is_scheduled.

Lemma link_Scheduled_is_scheduled : forall (p : psop) t, snd p = Some t -> gen_Scheduled_is_scheduled p = is_sched p.
Proof. intros p t H. unfold gen_Scheduled_is_scheduled, is_sched. now rewrite H. Qed.
Print Assumptions link_Scheduled_is_scheduled.

Lemma link_Result_problem_instance : forall i s, gen_Result_problem_instance i s = i.
Proof. reflexivity. Qed.
Print Assumptions link_Result_problem_instance.

Lemma link_Result_schedule : forall i s, gen_Result_schedule i s = s.
Proof. reflexivity. Qed.
Print Assumptions link_Result_schedule.
