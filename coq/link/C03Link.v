(* C03 — link between the Gallina GENERATED from /repo's current queasars/circuit_evaluation/circuit_evaluation.py and
   transpiling_primitives.py (build/gen*/QVGen/C03Gen.v, written by translator/py2gallina.py on every check) and the
   hand-written model coq/theories/Eval/Pipeline.v the C03 theorems are about.  One lemma link_<function> per translated
   function, each followed by Print Assumptions.  Compiled by harness/vlib/translate.py; NOT part of coq/theories
   because it depends on the generated module. *)
From QV Require Import Translate.PyPrelude Translate.PyPrelude_proofs.
From QV Require Import Eval.Pipeline.
From QV Require Agg.Cvar.
From QVGen Require Import C03Gen.
Open Scope Z_scope.

(* ------------------------------------------------------------------ the Python-level primitives that stand for the model's *)
(* Qiskit's rule for shots: the pub's own shots, else the `shots` keyword of run(), else the primitive's default *)
Definition eff_shots (default : Z) (run_shots pub_shots : option Z) : Z :=
  match pub_shots with
  | Some k => k
  | None => match run_shots with Some k => k | None => default end
  end.
(* the BaseSamplerV2 object that behaves like the model's sampler s (default shots d) *)
Definition psampler_of {circ params wiring outcome : Type} (d : Z) (s : sprim circ params wiring outcome)
  : psampler circ params wiring outcome :=
  fun pubs run_shots => s (map (fun pub => (fst (fst pub), snd (fst pub), eff_shots d run_shots (snd pub))) pubs).

(* ------------------------------------------------------------------ small list facts *)
Lemma filter_all_true {A} (f : A -> bool) (l : list A) : (forall x, f x = true) -> filter f l = l.
Proof. intros H. induction l as [|x t IH]; simpl; [reflexivity | now rewrite H, IH]. Qed.

Lemma map_pair_id {A B} (l : list (A * B)) : map (fun '(a, b) => (a, b)) l = l.
Proof. induction l as [|[a b] t IH]; simpl; [reflexivity | now rewrite IH]. Qed.

Lemma mapM_Ok {A B} (f : A -> B) (l : list A) : mapM (fun x => Ok (f x)) l = Ok (map f l).
Proof. induction l as [|x t IH]; simpl; [reflexivity | now rewrite IH]. Qed.

Lemma bind_ret {A} (r : result A) : (do x <- r; Ok x) = r.
Proof. destruct r; reflexivity. Qed.

(* d[k] = v for a key that is not in d yet appends *)
Lemma py_dict_set_fresh {K V} (eqb : K -> K -> bool) (Heqb : forall a b, eqb a b = true <-> a = b)
      (d : list (K * V)) (k : K) (v : V) :
  ~ In k (map fst d) -> py_dict_set eqb d k v = d ++ [(k, v)].
Proof.
  induction d as [|[k' v'] t IH]; simpl; intros H; [reflexivity|].
  destruct (eqb k' k) eqn:E.
  - apply Heqb in E. exfalso. apply H. now left.
  - rewrite IH; [reflexivity|]. intros Hin. apply H. now right.
Qed.

(* {k: v for k, v in pairs} over pairwise different keys is the list of the pairs *)
Lemma dict_of_pairs_nodup {K V} (eqb : K -> K -> bool) (Heqb : forall a b, eqb a b = true <-> a = b)
      (l : list (K * V)) : forall acc,
  NoDup (map fst (acc ++ l)) ->
  fold_left (fun d_ kv_ => py_dict_set eqb d_ (fst kv_) (snd kv_)) l acc = acc ++ l.
Proof.
  induction l as [|[k v] t IH]; intros acc H; simpl; [now rewrite app_nil_r|].
  rewrite py_dict_set_fresh; [|exact Heqb|].
  - rewrite IH; [now rewrite <- app_assoc|]. now rewrite <- app_assoc.
  - rewrite map_app in H. simpl in H. apply NoDup_remove_2 in H.
    intros Hin. apply H. apply in_or_app. now left.
Qed.

(* ------------------------------------------------------------------ measure_quasi_distributions *)
(* one counts dict -> one quasi-distribution: {state: count / shots for state, count in count_dict.items()} *)
Lemma counts_to_quasi {outcome} (eqb : outcome -> outcome -> bool) (Heqb : forall a b, eqb a b = true <-> a = b)
      (shots : Z) (c : list (outcome * Z)) :
  NoDup (map fst c) ->
  (do xs <- mapM (fun '(state_, count) => (do q <- qdiv (inject_Z count) (inject_Z shots); Ok (state_, q))) c;
   Ok (fold_left (fun d_ kv_ => py_dict_set eqb d_ (fst kv_) (snd kv_)) xs ([] : list (outcome * Q))))
  = to_quasi shots c.
Proof.
  intros Hnd. unfold to_quasi.
  destruct c as [|x t]; [reflexivity|].
  destruct (shots =? 0) eqn:E.
  - apply Z.eqb_eq in E. subst shots. destruct x as [k n]. reflexivity.
  - assert (Hq : forall n, qdiv (inject_Z n) (inject_Z shots) = Ok (inject_Z n / inject_Z shots)%Q).
    { intros n. unfold qdiv. destruct (Qeq_bool (inject_Z shots) 0) eqn:E2; [|reflexivity].
      apply Qeq_bool_iff in E2. unfold Qeq, inject_Z in E2. simpl in E2. apply Z.eqb_neq in E. lia. }
    rewrite (mapM_ext _ (fun kc => Ok (fst kc, (inject_Z (snd kc) / inject_Z shots)%Q))).
    2:{ intros [k n]. rewrite Hq. reflexivity. }
    rewrite mapM_Ok. cbn [bind].
    rewrite (dict_of_pairs_nodup eqb Heqb).
    + reflexivity.
    + cbn [app]. rewrite map_map. exact Hnd.
Qed.

(* Hypotheses: eqb is the == of the outcome keys, and the sampler answers with dicts (pairwise different keys): both
   are invariants of Python dicts with str keys, not assumptions about the quantum semantics. *)
Lemma link_measure_quasi_distributions :
  forall (circ params wiring outcome : Type) (eqb : outcome -> outcome -> bool) (wid : circ -> wiring) (d : Z)
         (s : sprim circ params wiring outcome) (circuits : list circ) (pvals : list params) (shots : Z),
    (forall a b, eqb a b = true <-> a = b) ->
    (forall pubs cs, s pubs = Ok cs -> Forall (fun c => NoDup (map fst c)) cs) ->
    gen_measure_quasi_distributions circ params wiring outcome eqb wid circuits pvals (psampler_of d s) shots
    = measure_quasi_distributions wid s circuits pvals shots.
Proof.
  intros circ params wiring outcome eqb wid d s circuits pvals shots Heqb Hdict.
  unfold gen_measure_quasi_distributions, measure_quasi_distributions, sampler_run, psampler_of, py_measure_all.
  rewrite filter_all_true by (intros [? ?]; reflexivity).
  rewrite map_pair_id, map_map.
  cbn [pub_of_tuple fst snd eff_shots].
  change (map (fun x => measure_all wid x) circuits) with (map (measure_all wid) circuits).
  destruct (s _) as [cs|e] eqn:E; cbn [bind]; [|reflexivity].
  rewrite (mapM_ext _ (fun res => Ok ((fun x => x) res))) by (intros res; reflexivity).
  rewrite mapM_Ok, map_id. cbn [bind].
  rewrite bind_ret. apply mapM_ext_in. intros c Hc.
  apply counts_to_quasi; [exact Heqb|].
  specialize (Hdict _ _ E). rewrite Forall_forall in Hdict. now apply Hdict.
Qed.
Print Assumptions link_measure_quasi_distributions.

(* ------------------------------------------------------------------ the three evaluators *)
(* Python's `alpha <= 0 or 1 < alpha` is the negation of the model's alpha_ok *)
Lemma alpha_guard (alpha : Q) :
  (Qle_bool alpha (inject_Z 0) || Qltb (inject_Z 1) alpha) = negb (alpha_ok alpha).
Proof.
  unfold alpha_ok, Qltb. change (inject_Z 0) with 0%Q. change (inject_Z 1) with 1%Q.
  destruct (Qle_bool alpha 0), (Qle_bool alpha 1); reflexivity.
Qed.

(* is_spo: isinstance(operator, SparsePauliOp), an arbitrary oracle (the model's operators are all SparsePauliOps).
   the qubit-count guard of the constructors (the model has no qubit counts: cq / oq / bq are arbitrary oracles) *)
Definition init_fits {circ} (cq : circ -> Z) (n : Z) (init : option circ) : bool :=
  match init with Some c => cq c =? n | None => true end.

Lemma with_init_map {circ} (compose : circ -> circ -> circ) (init : option circ) (circuits : list circ) :
  match init with
  | Some a => map (fun c => py_compose compose a c (kw_False false eq_refl)) circuits
  | None => circuits
  end = map (with_init compose init) circuits.
Proof. destruct init; [reflexivity | now rewrite map_id]. Qed.

(* -- OperatorSamplerCircuitEvaluator *)
Lemma link_OpSampler_init :
  forall (circ params wiring outcome obs : Type) (cq : circ -> Z) (oq : obs -> Z) (is_spo : obs -> bool)
         (sampler : psampler circ params wiring outcome) (shots : Z) (ob : obs) (alpha : Q) (init : option circ),
    gen_OpSampler_init circ params wiring outcome obs cq oq is_spo sampler shots ob alpha init
    = if is_spo ob && alpha_ok alpha && init_fits cq (oq ob) init then Ok (mkOSEv sampler ob shots alpha init) else Err "ValueError"%string.
Proof.
  intros. unfold gen_OpSampler_init, init_fits. destruct (is_spo ob); cbn [negb andb]; [|reflexivity]. rewrite alpha_guard.
  destruct (alpha_ok alpha); cbn [negb andb]; [|reflexivity].
  destruct init as [c|]; [|reflexivity]. destruct (cq c =? oq ob); reflexivity.
Qed.
Print Assumptions link_OpSampler_init.

(* evaluate_circuits for ANY attribute values: compose the initial state in front, measure, aggregate with (ob, alpha) *)
Lemma link_OpSampler_evaluate :
  forall (circ params wiring outcome obs : Type) (eqb : outcome -> outcome -> bool) (wid : circ -> wiring)
         (compose : circ -> circ -> circ) (aggr : obs -> Q -> list (outcome * Q) -> result Q) (d : Z)
         (s : sprim circ params wiring outcome) (shots : Z) (ob : obs) (alpha : Q) (init : option circ)
         (circuits : list circ) (pvals : list params),
    (forall a b, eqb a b = true <-> a = b) ->
    (forall pubs cs, s pubs = Ok cs -> Forall (fun c => NoDup (map fst c)) cs) ->
    gen_OpSampler_evaluate circ params wiring outcome eqb wid obs compose aggr (psampler_of d s) shots ob alpha init circuits pvals
    = do qd <- measure_quasi_distributions wid s (map (with_init compose init) circuits) pvals shots; mapM (aggr ob alpha) qd.
Proof.
  intros. unfold gen_OpSampler_evaluate. cbv zeta. rewrite with_init_map.
  rewrite link_measure_quasi_distributions by assumption.
  destruct (measure_quasi_distributions _ _ _ _ _) as [qd|e]; cbn [bind]; [|reflexivity].
  rewrite bind_ret. apply mapM_ext. intros q. apply bind_ret.
Qed.
Print Assumptions link_OpSampler_evaluate.

(* the object the constructor accepts, evaluated through the attributes it stored, is the model's evaluator *)
Lemma link_OpSampler_evaluate_model :
  forall (circ params wiring outcome obs : Type) (eqb : outcome -> outcome -> bool) (wid : circ -> wiring)
         (compose : circ -> circ -> circ) (aggr : obs -> Q -> list (outcome * Q) -> result Q)
         (agg : obs -> Q -> list (outcome * Q) -> Q) (cq : circ -> Z) (oq : obs -> Z) (is_spo : obs -> bool) (d : Z)
         (s : sprim circ params wiring outcome) (shots : Z) (ob : obs) (alpha : Q) (init : option circ)
         (circuits : list circ) (pvals : list params) ev,
    (forall a b, eqb a b = true <-> a = b) ->
    (forall pubs cs, s pubs = Ok cs -> Forall (fun c => NoDup (map fst c)) cs) ->
    (alpha_ok alpha = true -> forall q, aggr ob alpha q = Ok (agg ob alpha q)) ->
    gen_OpSampler_init circ params wiring outcome obs cq oq is_spo (psampler_of d s) shots ob alpha init = Ok ev ->
    gen_OpSampler_evaluate circ params wiring outcome eqb wid obs compose aggr
                           (ose_sampler ev) (ose_shots ev) (ose_ob ev) (ose_alpha ev) (ose_init ev) circuits pvals
    = eval_operator_sampler compose wid agg s shots ob alpha init circuits pvals.
Proof.
  intros until ev. intros Heqb Hdict Hagg Hinit. rewrite link_OpSampler_init in Hinit.
  destruct (is_spo ob); cbn [andb] in Hinit; [|discriminate].
  destruct (alpha_ok alpha) eqn:Ha; cbn [andb] in Hinit; [|discriminate].
  destruct (init_fits cq (oq ob) init); [|discriminate]. injection Hinit as <-.
  cbn [ose_sampler ose_shots ose_ob ose_alpha ose_init].
  rewrite link_OpSampler_evaluate by assumption.
  unfold eval_operator_sampler. rewrite Ha. cbn [negb].
  destruct (measure_quasi_distributions _ _ _ _ _) as [qd|e]; cbn [bind]; [|reflexivity].
  rewrite (mapM_ext _ (fun q => Ok (agg ob alpha q))) by (intros q; apply Hagg; reflexivity).
  apply mapM_Ok.
Qed.
Print Assumptions link_OpSampler_evaluate_model.

Lemma link_OpSampler_n_qubits : forall (obs : Type) (oq : obs -> Z) (ob : obs), gen_OpSampler_n_qubits obs oq ob = oq ob.
Proof. reflexivity. Qed.
Print Assumptions link_OpSampler_n_qubits.

(* The aggregation callee get_expectation_with_operator is linked under C14 (coq/link/C14Link.v) to
   Agg.Cvar.expectation_with_operator.  With that function as the oracle (outcomes = integer basis states N, operators =
   diagonal term lists) the premise of link_OpSampler_evaluate_model holds: it never raises once the constructor has
   accepted alpha. *)
Definition agg_op_c14 (op : list Cvar.term) (alpha : Q) (q : list (N * Q)) : Q :=
  match Cvar.expectation_with_operator q op alpha with Ok v => v | Err _ => 0%Q end.

Lemma c14_operator_total (op : list Cvar.term) (alpha : Q) :
  alpha_ok alpha = true -> forall q, Cvar.expectation_with_operator q op alpha = Ok (agg_op_c14 op alpha q).
Proof.
  intros Ha q. unfold agg_op_c14, Cvar.expectation_with_operator, Cvar.get_expectation, Cvar.get_expectation_gen.
  unfold alpha_ok in Ha. apply andb_prop in Ha. destruct Ha as [H0 H1].
  assert (Hc : Cvar.alpha_ok alpha = true).
  { unfold Cvar.alpha_ok, Cvar.Qltb. rewrite H1. destruct (Qle_bool alpha 0); [discriminate | reflexivity]. }
  rewrite Hc. cbn [negb].
  assert (Hz : Qeq_bool alpha 0 = false).
  { destruct (Qeq_bool alpha 0) eqn:E; [|reflexivity]. apply Qeq_bool_iff in E.
    assert (Hle : Qle_bool alpha 0 = true) by (apply Qle_bool_iff; rewrite E; apply Qle_refl).
    rewrite Hle in H0. discriminate. }
  destruct (Cvar.isclose alpha 1); [reflexivity|]. rewrite Hz. reflexivity.
Qed.

Lemma link_OpSampler_evaluate_c14 :
  forall (circ params wiring : Type) (wid : circ -> wiring) (compose : circ -> circ -> circ) (cq : circ -> Z)
         (oq : list Cvar.term -> Z) (is_spo : list Cvar.term -> bool) (d : Z) (s : sprim circ params wiring N) (shots : Z) (ob : list Cvar.term) (alpha : Q)
         (init : option circ) (circuits : list circ) (pvals : list params) ev,
    (forall pubs cs, s pubs = Ok cs -> Forall (fun c => NoDup (map fst c)) cs) ->
    gen_OpSampler_init circ params wiring N (list Cvar.term) cq oq is_spo (psampler_of d s) shots ob alpha init = Ok ev ->
    gen_OpSampler_evaluate circ params wiring N N.eqb wid (list Cvar.term) compose (fun op a q => Cvar.expectation_with_operator q op a)
                           (ose_sampler ev) (ose_shots ev) (ose_ob ev) (ose_alpha ev) (ose_init ev) circuits pvals
    = eval_operator_sampler compose wid agg_op_c14 s shots ob alpha init circuits pvals.
Proof.
  intros until ev. intros Hdict Hinit.
  apply (link_OpSampler_evaluate_model circ params wiring N (list Cvar.term) N.eqb wid compose
           (fun op a q => Cvar.expectation_with_operator q op a) agg_op_c14 cq oq is_spo d s shots ob alpha init circuits pvals ev).
  - intros a b. apply N.eqb_eq.
  - exact Hdict.
  - intros Ha q. apply c14_operator_total. exact Ha.
  - exact Hinit.
Qed.
Print Assumptions link_OpSampler_evaluate_c14.

(* -- BitstringCircuitEvaluator *)
Lemma link_Bitstring_init :
  forall (circ params wiring outcome bitfun : Type) (cq : circ -> Z) (bq : bitfun -> Z)
         (sampler : psampler circ params wiring outcome) (shots : Z) (bf : bitfun) (alpha : Q) (init : option circ),
    gen_Bitstring_init circ params wiring outcome bitfun cq bq sampler shots bf alpha init
    = if alpha_ok alpha && init_fits cq (bq bf) init then Ok (mkBSEv sampler shots bf alpha init) else Err "ValueError"%string.
Proof.
  intros. unfold gen_Bitstring_init, init_fits. rewrite alpha_guard.
  destruct init as [c|]; [destruct (cq c =? bq bf)|]; cbn [negb bind]; destruct (alpha_ok alpha); reflexivity.
Qed.
Print Assumptions link_Bitstring_init.

Lemma link_Bitstring_evaluate :
  forall (circ params wiring outcome bitfun : Type) (eqb : outcome -> outcome -> bool) (wid : circ -> wiring)
         (compose : circ -> circ -> circ) (aggr : bitfun -> Q -> list (outcome * Q) -> result Q) (d : Z)
         (s : sprim circ params wiring outcome) (shots : Z) (bf : bitfun) (alpha : Q) (init : option circ)
         (circuits : list circ) (pvals : list params),
    (forall a b, eqb a b = true <-> a = b) ->
    (forall pubs cs, s pubs = Ok cs -> Forall (fun c => NoDup (map fst c)) cs) ->
    gen_Bitstring_evaluate circ params wiring outcome eqb wid bitfun compose aggr (psampler_of d s) shots bf alpha init circuits pvals
    = do qd <- measure_quasi_distributions wid s (map (with_init compose init) circuits) pvals shots; mapM (aggr bf alpha) qd.
Proof.
  intros. unfold gen_Bitstring_evaluate. cbv zeta. rewrite with_init_map.
  rewrite link_measure_quasi_distributions by assumption.
  destruct (measure_quasi_distributions _ _ _ _ _) as [qd|e]; cbn [bind]; [|reflexivity].
  rewrite bind_ret. apply mapM_ext. intros q. apply bind_ret.
Qed.
Print Assumptions link_Bitstring_evaluate.

Lemma link_Bitstring_evaluate_model :
  forall (circ params wiring outcome bitfun : Type) (eqb : outcome -> outcome -> bool) (wid : circ -> wiring)
         (compose : circ -> circ -> circ) (aggr : bitfun -> Q -> list (outcome * Q) -> result Q)
         (agg : bitfun -> Q -> list (outcome * Q) -> Q) (cq : circ -> Z) (bq : bitfun -> Z) (d : Z)
         (s : sprim circ params wiring outcome) (shots : Z) (bf : bitfun) (alpha : Q) (init : option circ)
         (circuits : list circ) (pvals : list params) ev,
    (forall a b, eqb a b = true <-> a = b) ->
    (forall pubs cs, s pubs = Ok cs -> Forall (fun c => NoDup (map fst c)) cs) ->
    (alpha_ok alpha = true -> forall q, aggr bf alpha q = Ok (agg bf alpha q)) ->
    gen_Bitstring_init circ params wiring outcome bitfun cq bq (psampler_of d s) shots bf alpha init = Ok ev ->
    gen_Bitstring_evaluate circ params wiring outcome eqb wid bitfun compose aggr
                           (bse_sampler ev) (bse_shots ev) (bse_bf ev) (bse_alpha ev) (bse_init ev) circuits pvals
    = eval_bitstring compose wid agg s shots bf alpha init circuits pvals.
Proof.
  intros until ev. intros Heqb Hdict Hagg Hinit. rewrite link_Bitstring_init in Hinit.
  destruct (alpha_ok alpha) eqn:Ha; cbn [andb] in Hinit; [|discriminate].
  destruct (init_fits cq (bq bf) init); [|discriminate]. injection Hinit as <-.
  cbn [bse_sampler bse_shots bse_bf bse_alpha bse_init].
  rewrite link_Bitstring_evaluate by assumption.
  unfold eval_bitstring. rewrite Ha. cbn [negb].
  destruct (measure_quasi_distributions _ _ _ _ _) as [qd|e]; cbn [bind]; [|reflexivity].
  rewrite (mapM_ext _ (fun q => Ok (agg bf alpha q))) by (intros q; apply Hagg; reflexivity).
  apply mapM_Ok.
Qed.
Print Assumptions link_Bitstring_evaluate_model.

Lemma link_Bitstring_n_qubits : forall (bitfun : Type) (bq : bitfun -> Z) (bf : bitfun), gen_Bitstring_n_qubits bitfun bq bf = bq bf.
Proof. reflexivity. Qed.
Print Assumptions link_Bitstring_n_qubits.

(* -- OperatorCircuitEvaluator *)
(* the BaseEstimatorV2 object that behaves like the model's estimator e (the model's estimators are exact: the precision
   of the pubs and of run() is not modelled) *)
Definition pestimator_of {circ obs params : Type} (e : eprim circ obs params) : pestimator circ obs params :=
  fun pubs _ => e (map fst pubs).

Lemma link_Estimator_init :
  forall (circ params obs : Type) (cq : circ -> Z) (oq : obs -> Z)
         (estimator : pestimator circ obs params) (precision : Q) (ob : obs) (init : option circ),
    gen_Estimator_init circ params obs cq oq estimator precision ob init
    = if init_fits cq (oq ob) init then Ok (mkESEv estimator precision ob init) else Err "ValueError"%string.
Proof.
  intros. unfold gen_Estimator_init, init_fits.
  destruct init as [c|]; [destruct (cq c =? oq ob)|]; reflexivity.
Qed.
Print Assumptions link_Estimator_init.

(* no hypotheses: for EVERY BaseEstimatorV2 object: what is handed to it is one pub (circuit behind the initial state,
   the operator, the parameter values, no precision of its own) per zipped pair, and the evaluator's precision *)
Lemma link_Estimator_evaluate :
  forall (circ params obs : Type) (compose : circ -> circ -> circ) (est : pestimator circ obs params) (precision : Q) (ob : obs)
         (init : option circ) (circuits : list circ) (pvals : list params),
    gen_Estimator_evaluate circ params obs compose est precision ob init circuits pvals
    = est (map (fun cp => (fst cp, ob, snd cp, None)) (combine (map (with_init compose init) circuits) pvals)) (Some precision).
Proof.
  intros. unfold gen_Estimator_evaluate, estimator_run. cbv zeta. rewrite with_init_map.
  rewrite filter_all_true by (intros [? ?]; reflexivity).
  rewrite !map_map. cbn [epub_of_tuple].
  rewrite (map_ext (fun x : circ * params => (let '(circ_, params_) := x in (circ_, ob, params_), @None Q)) (fun cp => (fst cp, ob, snd cp, None)))
    by (intros [? ?]; reflexivity).
  destruct (est _ _) as [r|x]; cbn [bind]; [|reflexivity]. now rewrite map_id.
Qed.
Print Assumptions link_Estimator_evaluate.

Lemma link_Estimator_evaluate_model :
  forall (circ params obs : Type) (compose : circ -> circ -> circ) (cq : circ -> Z) (oq : obs -> Z) (e : eprim circ obs params)
         (precision : Q) (ob : obs) (init : option circ) (circuits : list circ) (pvals : list params) ev,
    gen_Estimator_init circ params obs cq oq (pestimator_of e) precision ob init = Ok ev ->
    gen_Estimator_evaluate circ params obs compose (ese_estimator ev) (ese_precision ev) (ese_ob ev) (ese_init ev) circuits pvals
    = eval_estimator compose e ob init circuits pvals.
Proof.
  intros until ev. intros Hinit. rewrite link_Estimator_init in Hinit.
  destruct (init_fits cq (oq ob) init); [|discriminate]. injection Hinit as <-.
  cbn [ese_estimator ese_precision ese_ob ese_init]. rewrite link_Estimator_evaluate.
  unfold pestimator_of, eval_estimator. rewrite map_map. reflexivity.
Qed.
Print Assumptions link_Estimator_evaluate_model.

Lemma link_Estimator_n_qubits : forall (obs : Type) (oq : obs -> Z) (ob : obs), gen_Estimator_n_qubits obs oq ob = oq ob.
Proof. reflexivity. Qed.
Print Assumptions link_Estimator_n_qubits.

(* ------------------------------------------------------------------ transpiling_primitives.py *)
(* the PassManager object that stands for the model's pass manager T: every transpiled circuit carries its layout *)
Definition ppm_of {circ layout : Type} (T : passmgr circ layout) : ppm circ layout :=
  fun c => (pm_run T c, Some (pm_layout T c)).
(* a pub with its shots resolved (what psampler_of hands to the model's sampler) *)
Definition resolve {circ params wiring : Type} (d : Z) (run_shots : option Z) (pub : ppub circ params wiring) : spub circ params wiring :=
  (fst (fst pub), snd (fst pub), eff_shots d run_shots (snd pub)).

Lemma link_TSampler_init :
  forall (circ params layout wiring outcome : Type) (inner : psampler circ params wiring outcome) (T : ppm circ layout),
    gen_TSampler_init circ params layout wiring outcome inner T = mkTSampler inner T tt.
Proof. reflexivity. Qed.
Print Assumptions link_TSampler_init.

(* apply_pass_manager rebuilds the pub around the transpiled circuit and keeps parameter values and the pub's own shots *)
Lemma link_TSampler_apply :
  forall (circ params layout wiring : Type) (wmap : layout -> wiring -> wiring) (T : passmgr circ layout)
         (c : circ) (w : wiring) (p : params) (sh : option Z),
    gen_TSampler_apply circ params layout wiring wmap (ppm_of T) ((c, w), p, sh)
    = ((pm_run T c, wmap (pm_layout T c) w), p, sh).
Proof. reflexivity. Qed.
Print Assumptions link_TSampler_apply.

(* ... which is the model's tr_spub once the shots are resolved *)
Lemma link_TSampler_apply_model :
  forall (circ params layout wiring : Type) (wmap : layout -> wiring -> wiring) (T : passmgr circ layout) (d : Z) (rs : option Z)
         (pub : ppub circ params wiring),
    resolve d rs (gen_TSampler_apply circ params layout wiring wmap (ppm_of T) pub) = tr_spub wmap T (resolve d rs pub).
Proof. intros. destruct pub as [[[c w] p] sh]. reflexivity. Qed.
Print Assumptions link_TSampler_apply_model.

(* a pass manager that sets no layout leaves the measurement wiring alone *)
Lemma link_TSampler_apply_no_layout :
  forall (circ params layout wiring : Type) (wmap : layout -> wiring -> wiring) (run : circ -> circ)
         (c : circ) (w : wiring) (p : params) (sh : option Z),
    gen_TSampler_apply circ params layout wiring wmap (fun c => (run c, None)) ((c, w), p, sh) = ((run c, w), p, sh).
Proof. reflexivity. Qed.
Print Assumptions link_TSampler_apply_no_layout.

(* run, for EVERY inner sampler object and pass manager: every pub goes through apply_pass_manager, in order, and the
   `shots` keyword is passed on unchanged *)
Lemma link_TSampler_run :
  forall (circ params layout wiring outcome : Type) (wmap : layout -> wiring -> wiring) (T : ppm circ layout)
         (inner : psampler circ params wiring outcome) (pubs : list (ppub circ params wiring)) (rs : option Z),
    gen_TSampler_run circ params layout wiring wmap T outcome inner pubs rs
    = inner (map (gen_TSampler_apply circ params layout wiring wmap T) pubs) rs.
Proof. reflexivity. Qed.
Print Assumptions link_TSampler_run.

(* TranspilingSamplerV2(inner, T).run, with inner the object of the wrapper stack st around raw, IS the object of the stack
   STranspile T st *)
Lemma link_TSampler_run_model :
  forall (circ params layout wiring outcome : Type) (wmap : layout -> wiring -> wiring) (T : passmgr circ layout) (d : Z)
         (st : stack circ layout (spub circ params wiring)) (raw : sprim circ params wiring outcome)
         (pubs : list (ppub circ params wiring)) (rs : option Z),
    gen_TSampler_run circ params layout wiring wmap (ppm_of T) outcome (psampler_of d (wrap_sampler wmap st raw)) pubs rs
    = psampler_of d (wrap_sampler wmap (STranspile T st) raw) pubs rs.
Proof.
  intros. rewrite link_TSampler_run. unfold psampler_of, wrap_sampler. cbn [wrap]. rewrite !map_map.
  f_equal. apply map_ext. intros pub. exact (link_TSampler_apply_model circ params layout wiring wmap T d rs pub).
Qed.
Print Assumptions link_TSampler_run_model.

Lemma link_TEstimator_init :
  forall (circ obs params layout : Type) (inner : pestimator circ obs params) (T : ppm circ layout),
    gen_TEstimator_init circ obs params layout inner T = mkTEstimator inner T tt.
Proof. reflexivity. Qed.
Print Assumptions link_TEstimator_init.

(* the repaired wrapper: the observables are moved along the layout of the transpiled circuit *)
Lemma link_TEstimator_apply :
  forall (circ obs params layout : Type) (relabel : layout -> obs -> obs) (T : passmgr circ layout)
         (pub : epub circ obs params) (pr : option Q),
    gen_TEstimator_apply circ obs params layout relabel (ppm_of T) (pub, pr) = (tr_epub relabel false T pub, pr).
Proof. intros. destruct pub as [[c ob] p]. reflexivity. Qed.
Print Assumptions link_TEstimator_apply.

(* a transpiled circuit without layout: observables unchanged *)
Lemma link_TEstimator_apply_no_layout :
  forall (circ obs params layout : Type) (relabel : layout -> obs -> obs) (run : circ -> circ)
         (c : circ) (ob : obs) (p : params) (pr : option Q),
    gen_TEstimator_apply circ obs params layout relabel (fun c => (run c, None)) (c, ob, p, pr) = (run c, ob, p, pr).
Proof. reflexivity. Qed.
Print Assumptions link_TEstimator_apply_no_layout.

Lemma link_TEstimator_run :
  forall (circ obs params layout : Type) (relabel : layout -> obs -> obs) (T : ppm circ layout)
         (inner : pestimator circ obs params) (pubs : list (pepub circ obs params)) (prec : option Q),
    gen_TEstimator_run circ obs params layout relabel T inner pubs prec
    = inner (map (gen_TEstimator_apply circ obs params layout relabel T) pubs) prec.
Proof. reflexivity. Qed.
Print Assumptions link_TEstimator_run.

Lemma link_TEstimator_run_model :
  forall (circ obs params layout : Type) (relabel : layout -> obs -> obs) (T : passmgr circ layout)
         (st : stack circ layout (epub circ obs params)) (raw : eprim circ obs params)
         (pubs : list (pepub circ obs params)) (prec : option Q),
    gen_TEstimator_run circ obs params layout relabel (ppm_of T) (pestimator_of (wrap_estimator relabel false st raw)) pubs prec
    = pestimator_of (wrap_estimator relabel false (STranspile T st) raw) pubs prec.
Proof.
  intros. rewrite link_TEstimator_run. unfold pestimator_of, wrap_estimator. cbn [wrap]. rewrite !map_map.
  f_equal. apply map_ext. intros [pub pr]. rewrite link_TEstimator_apply. reflexivity.
Qed.
Print Assumptions link_TEstimator_run_model.
