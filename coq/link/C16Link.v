(* C16 — link between the Gallina GENERATED from /repo's current
   queasars/minimum_eigensolvers/evqe/evolutionary_algorithm/individual.py (build/gen*/QVGen/C16Gen.v, written by
   translator/py2gallina.py on every check) and the hand-written model coq/theories/Evqe/Genome.v the C16 theorems are
   about.  One lemma link_<function> per translated function, each followed by Print Assumptions.  Compiled by
   harness/vlib/translate.py; NOT part of coq/theories because it depends on the generated module.
   Every generated function takes the type V of the parameter values as its first argument. *)
From Coq Require Import Qround.
From QV Require Import Evqe.Genome Evqe.GenomeFacts Evqe.GenomeOps_proofs Translate.C16Aux.
From QV Require Import Translate.PyPrelude Translate.PyPrelude_proofs.
From QVGen Require Import C16Gen.
Open Scope Z_scope.

(* the two py_index (translator vocabulary / Genome.v) are the same definition *)
Lemma py_index_same {A} (l : list A) i : PyPrelude.py_index l i = Genome.py_index l i.
Proof. reflexivity. Qed.

Lemma bind_ret {A} (r : result A) : (do v <- r; Ok v) = r.
Proof. destruct r; reflexivity. Qed.

Lemma py_len_of_nat {A} (l : list A) : py_len l = Z.of_nat (length l).
Proof. reflexivity. Qed.

Lemma sum_n_params ls : py_sum_Z (map (fun l => layer_n_parameters l) ls) = n_params_of ls.
Proof. rewrite py_sum_Z_sumZ. reflexivity. Qed.

(* ------------------------------------------------------------------ is_valid *)
Lemma layer_wf_is_valid l : layer_wf l = true -> layer_is_valid l = Ok true.
Proof. unfold layer_wf. destruct (layer_is_valid l) as [[|]|]; simpl; congruence. Qed.

(* the loop of is_valid over layer objects *)
Lemma is_valid_loop n ls : forallb layer_wf ls = true ->
  py_for ls (fun l (_ : unit) =>
      do v <- layer_is_valid l;
      if negb v || negb (Z.eqb (l_qubits l) n) then Ok (Ret false) else Ok (Next tt)) tt
  = Ok (if forallb (fun l => layer_wf l && Z.eqb (l_qubits l) n) ls then Next tt else Ret false).
Proof.
  induction ls as [|l t IH]; intros W; [reflexivity|].
  cbn [forallb] in W. apply andb_true_iff in W as [Wl Wt].
  cbn [py_for forallb]. rewrite (layer_wf_is_valid l Wl), Wl. cbn [bind negb orb andb].
  destruct (Z.eqb (l_qubits l) n); cbn [negb]; [exact (IH Wt) | reflexivity].
Qed.

(* Hypothesis: every element of `layers` is a layer OBJECT, i.e. was accepted by EVQECircuitLayer's constructor
   (layer_wf; "a layer object exists only if its constructor accepted it", Genome.v).  On such layers
   `layer.is_valid()` returns True; on arbitrary records it could raise IndexError, which individual_is_valid
   (stated on layer objects) does not model. *)
Lemma link_Individual_is_valid : forall V (i : individual V),
  forallb layer_wf (i_layers i) = true ->
  gen_Individual_is_valid V i = Ok (individual_is_valid i).
Proof.
  intros V i W. unfold gen_Individual_is_valid, individual_is_valid.
  rewrite (is_valid_loop (i_qubits i) (i_layers i) W), sum_n_params, !py_len_of_nat.
  destruct (i_layers i) as [|l t] eqn:E; [reflexivity|].
  replace (Z.of_nat (length (l :: t)) <=? 0) with false by (symmetry; apply Z.leb_gt; cbn [length]; lia).
  cbn [length Nat.eqb negb andb bind]. clear W.
  destruct (forallb _ (l :: t)); [|reflexivity]. cbn [andb].
  destruct (Z.eqb _ _); reflexivity.
Qed.
Print Assumptions link_Individual_is_valid.

(* ------------------------------------------------------------------ change_parameter_values *)
Lemma link_change_parameter_values : forall V (i : individual V) vs,
  gen_change_parameter_values V i vs = change_parameter_values i vs.
Proof.
  intros V i vs. unfold gen_change_parameter_values, change_parameter_values.
  rewrite sum_n_params, bind_ret, py_len_of_nat.
  destruct (Z.eqb (Z.of_nat (length vs)) (n_params_of (i_layers i))) eqn:E; [reflexivity|]. cbn [negb].
  unfold make_individual, individual_is_valid. cbn [i_qubits i_layers i_values]. rewrite E, andb_false_r. reflexivity.
Qed.
Print Assumptions link_change_parameter_values.

(* ------------------------------------------------------------------ remove_layers *)
(* l[0:b] for b >= 0 *)
Lemma py_slice_prefix {A} (l : list A) b : 0 <= b -> py_slice l (Some 0) (Some b) = firstn (Z.to_nat b) l.
Proof.
  intros Hb. unfold py_slice, py_clamp. rewrite py_len_of_nat.
  replace (0 <? 0) with false by reflexivity. replace (b <? 0) with false by (symmetry; apply Z.ltb_ge; lia).
  replace (Z.min 0 (Z.of_nat (length l))) with 0 by lia. cbn [Z.to_nat skipn]. rewrite Z.sub_0_r.
  destruct (Z.le_ge_cases b (Z.of_nat (length l))).
  - rewrite Z.min_l by lia. reflexivity.
  - rewrite Z.min_r by lia. rewrite Nat2Z.id, !firstn_all2 by lia. reflexivity.
Qed.

Lemma link_remove_layers : forall V (i : individual V) n_layers,
  gen_remove_layers V i n_layers = remove_layers false i n_layers.
Proof.
  intros V i k. unfold gen_remove_layers, remove_layers. rewrite !py_len_of_nat. cbv zeta.
  destruct (0 <? k) eqn:E1; [|reflexivity]. cbn [negb].
  destruct (k <? Z.of_nat (length (i_layers i))) eqn:E2; [|reflexivity]. cbn [negb andb].
  apply Z.ltb_lt in E1, E2. rewrite bind_ret, sum_n_params.
  rewrite (py_slice_prefix (i_layers i)) by lia.
  rewrite (py_slice_prefix (i_values i)) by apply n_params_of_nonneg.
  reflexivity.
Qed.
Print Assumptions link_remove_layers.

(* ------------------------------------------------------------------ get_genetic_distance *)
(* ceil(0.5 * n) on an int n *)
Lemma ceil_half n : Qceiling ((1 # 2) * inject_Z n)%Q = (n + 1) / 2.
Proof.
  unfold Qceiling, Qfloor, Qopp, Qmult, inject_Z. cbn [Qnum Qden].
  replace (1 * n) with n by lia. change (Z.pos (2 * 1)) with 2.
  pose proof (Z.div_mod (- n) 2 ltac:(lia)). pose proof (Z.mod_pos_bound (- n) 2 ltac:(lia)).
  pose proof (Z.div_mod (n + 1) 2 ltac:(lia)). pose proof (Z.mod_pos_bound (n + 1) 2 ltac:(lia)). lia.
Qed.

Lemma skipn_nth_cons {A} (l : list A) s x : nth_error l s = Some x -> skipn s l = x :: skipn (S s) l.
Proof.
  revert s. induction l as [|y t IH]; intros [|s] H; simpl in H; try discriminate.
  - inversion H; reflexivity.
  - exact (IH s H).
Qed.

Lemma shared_layers_firstn a b : forall m, (length a <= m \/ length b <= m)%nat ->
  shared_layers (firstn m a) (firstn m b) = shared_layers a b.
Proof.
  revert b. induction a as [|x xs IH]; intros b m H.
  - rewrite firstn_nil. reflexivity.
  - destruct b as [|y ys]; [rewrite firstn_nil; destruct (firstn m (x :: xs)); reflexivity|].
    destruct m as [|m]; [cbn [length] in H; lia|]. cbn [firstn shared_layers]. rewrite IH; [reflexivity|].
    cbn [length] in H. lia.
Qed.

(* the counting loop over positions s, s+1, ..., s+m-1 that exist in both tuples *)
Lemma shared_loop (a b : list layer) : forall m s acc, (s + m <= length a)%nat -> (s + m <= length b)%nat ->
  py_foldM (fun n_shared (k : Z) =>
      do x <- PyPrelude.py_index a k; do y <- PyPrelude.py_index b k;
      Ok (if layer_eqb x y then n_shared + 1 else n_shared))
    (map (fun k => 0 + Z.of_nat k) (seq s m)) acc
  = Ok (acc + shared_layers (firstn m (skipn s a)) (firstn m (skipn s b))).
Proof.
  induction m as [|m IH]; intros s acc Ha Hb; [cbn; f_equal; lia|].
  cbn [seq map py_foldM]. rewrite Z.add_0_l, !py_index_same, !py_index_nat.
  destruct (nth_error a s) as [x|] eqn:Ea; [|apply nth_error_None in Ea; lia].
  destruct (nth_error b s) as [y|] eqn:Eb; [|apply nth_error_None in Eb; lia].
  cbn [bind]. rewrite (IH (S s)) by lia.
  rewrite (skipn_nth_cons a s x Ea), (skipn_nth_cons b s y Eb). cbn [firstn shared_layers].
  f_equal. destruct (layer_eqb x y); lia.
Qed.

Lemma link_get_genetic_distance : forall V (a b : individual V),
  gen_get_genetic_distance V a b = Ok (genetic_distance a b).
Proof.
  intros V a b. unfold gen_get_genetic_distance, genetic_distance. cbv zeta.
  rewrite ceil_half, !py_len_of_nat. unfold py_range, py_min2_Z.
  set (m := Z.to_nat ((if Z.of_nat (length (i_layers b)) <? Z.of_nat (length (i_layers a))
                       then Z.of_nat (length (i_layers b)) else Z.of_nat (length (i_layers a))) - 0)).
  assert (Hm : m = Nat.min (length (i_layers a)) (length (i_layers b))).
  { unfold m. destruct (Z.ltb_spec (Z.of_nat (length (i_layers b))) (Z.of_nat (length (i_layers a)))); lia. }
  match goal with |- (do l <- py_foldM ?f _ _; _) = _ =>
    change f with (fun n_shared (k : Z) =>
      do x <- PyPrelude.py_index (i_layers a) k; do y <- PyPrelude.py_index (i_layers b) k;
      Ok (if layer_eqb x y then n_shared + 1 else n_shared)) end.
  rewrite (shared_loop (i_layers a) (i_layers b) m 0 0) by lia.
  cbn [bind skipn]. rewrite shared_layers_firstn by lia. reflexivity.
Qed.
Print Assumptions link_get_genetic_distance.
