(* C16 — link between the Gallina GENERATED from /repo's current
   queasars/minimum_eigensolvers/evqe/evolutionary_algorithm/individual.py (build/gen*/QVGen/C16Gen.v, written by
   translator/py2gallina.py on every check) and the hand-written model coq/theories/Evqe/Genome.v the C16 theorems are
   about.  One lemma link_<function> per translated function, each followed by Print Assumptions.  Compiled by
   harness/vlib/translate.py; NOT part of coq/theories because it depends on the generated module.
   Every generated function takes the type V of the parameter values as its first argument. *)
From Coq Require Import Qround.
From QV Require Import Evqe.Genome Evqe.GenomeFacts Evqe.GenomeOps_proofs Translate.C16Aux Translate.C20Aux.
From QV Require Import Translate.PyPrelude Translate.PyPrelude_proofs.
From QVGen Require Import C16Gen.
Open Scope Z_scope.

(* the two py_index (translator vocabulary / Genome.v) are the same definition *)
Lemma py_index_same {A} (l : list A) i : PyPrelude.py_index l i = Genome.py_index l i.
Proof. reflexivity. Qed.

Lemma bind_ret {A} (r : result A) : (do v <- r; Ok v) = r.
Proof. destruct r; reflexivity. Qed.

Lemma py_len_of_nat {A} (l : list A) : py_len l = Z.of_nat (length l).
Proof. reflexivity. Qed.

Lemma sum_n_params ls : py_sum_Z (map (fun l => layer_n_parameters l) ls) = n_params_of ls.
Proof. rewrite py_sum_Z_sumZ. reflexivity. Qed.


(* ================================================================== gates and layers (quantum_gate.py, circuit_layer.py) *)
(* every gate class's static n_parameters(): the class is the constructor *)
Lemma link_IdentityGate_n_parameters : forall q, gen_IdentityGate_n_parameters = gate_n_parameters (GId q).
Proof. reflexivity. Qed.
Print Assumptions link_IdentityGate_n_parameters.
Lemma link_RotationGate_n_parameters : forall q, gen_RotationGate_n_parameters = gate_n_parameters (GRot q).
Proof. reflexivity. Qed.
Print Assumptions link_RotationGate_n_parameters.
Lemma link_ControlGate_n_parameters : forall q t, gen_ControlGate_n_parameters = gate_n_parameters (GCtrl q t).
Proof. reflexivity. Qed.
Print Assumptions link_ControlGate_n_parameters.
Lemma link_ControlledRotationGate_n_parameters : forall q c, gen_ControlledRotationGate_n_parameters = gate_n_parameters (GCRot q c).
Proof. reflexivity. Qed.
Print Assumptions link_ControlledRotationGate_n_parameters.

(* every gate class's static gate_type(): the member of EVQEGateType that C20Aux's gate_type_of (the reading of
   `gate.gate_type()` in specs/c20.py) assigns to the constructor representing the class *)
Lemma link_IdentityGate_gate_type : forall q, gen_IdentityGate_gate_type = gate_type_of (GId q).
Proof. reflexivity. Qed.
Print Assumptions link_IdentityGate_gate_type.
Lemma link_RotationGate_gate_type : forall q, gen_RotationGate_gate_type = gate_type_of (GRot q).
Proof. reflexivity. Qed.
Print Assumptions link_RotationGate_gate_type.
Lemma link_ControlGate_gate_type : forall q t, gen_ControlGate_gate_type = gate_type_of (GCtrl q t).
Proof. reflexivity. Qed.
Print Assumptions link_ControlGate_gate_type.
Lemma link_ControlledRotationGate_gate_type : forall q c, gen_ControlledRotationGate_gate_type = gate_type_of (GCRot q c).
Proof. reflexivity. Qed.
Print Assumptions link_ControlledRotationGate_gate_type.

(* gate.n_parameters() on an EVQEGate (dispatch-by-constructor over the four translated methods) *)
Lemma gate_n_parameters_dispatch g :
  match g with GId _ => gen_IdentityGate_n_parameters | GRot _ => gen_RotationGate_n_parameters
             | GCtrl _ _ => gen_ControlGate_n_parameters | GCRot _ _ => gen_ControlledRotationGate_n_parameters end
  = gate_n_parameters g.
Proof. destruct g; reflexivity. Qed.

(* EVQECircuitLayer.is_valid — no hypothesis: the IndexError of self.gates[...] is part of the model *)
Lemma link_Layer_is_valid : forall l, gen_Layer_is_valid l = layer_is_valid l.
Proof.
  intros l. unfold gen_Layer_is_valid, layer_is_valid. rewrite py_len_of_nat.
  destruct (negb (Z.of_nat (length (l_gates l)) =? l_qubits l)); [reflexivity|]. unfold py_enumerate.
  rewrite (layer_valid_loop (l_gates l)).
  - change (Z.of_nat 0) with 0. destruct (gates_valid_from (l_gates l) 0 (l_gates l)) as [[|]|e]; reflexivity.
  - intros idx g. unfold gate_valid_at. change (@PyPrelude.py_index gate) with (@Genome.py_index gate).
    destruct (negb (idx =? gate_qubit g)); [reflexivity|].
    destruct g as [q|q|q t|q c]; cbn [is_controlled is_control gate_control_qubit_index gate_controlled_qubit_index bind ctl_of_valid];
      try reflexivity.
    + destruct (Genome.py_index (l_gates l) t) as [[q'|q'|q' t'|q' c']|e]; cbn [bind is_controlled gate_control_qubit_index negb ctl_of_valid]; try reflexivity.
      destruct (c' =? idx); reflexivity.
    + destruct (Genome.py_index (l_gates l) c) as [[q'|q'|q' t'|q' c']|e]; cbn [bind is_control gate_controlled_qubit_index negb ctl_of_valid]; try reflexivity.
      destruct (t' =? idx); reflexivity.
Qed.
Print Assumptions link_Layer_is_valid.

(* EVQECircuitLayer.__post_init__: raises exactly when the model's constructor make_layer does, and stores the model's
   parameter count and controlled-gate count — this is what justifies the spec's reading of the private attributes
   _n_parameters / _n_controlled_gates *)
Lemma link_Layer_post_init : forall l,
  gen_Layer_post_init l
  = do v <- layer_is_valid l;
    if v then Ok (mkLayerCache (layer_n_parameters l) (layer_n_controlled l)) else Err LayerException.
Proof.
  intros l. unfold gen_Layer_post_init. rewrite link_Layer_is_valid. cbv zeta.
  destruct (layer_is_valid l) as [[|]|e]; cbn [bind negb]; try reflexivity.
  f_equal. f_equal.
  - rewrite py_sum_Z_sumZ. unfold layer_n_parameters. apply (f_equal sumZ). apply map_ext. exact gate_n_parameters_dispatch.
  - rewrite (sum_ones (filter _ (l_gates l))). reflexivity.
Qed.
Print Assumptions link_Layer_post_init.

(* EVQECircuitLayer(n_qubits=, gates=) in the model (make_layer) is the translated __post_init__ on the record *)
Lemma link_Layer_post_init_make_layer : forall n gs,
  make_layer n gs = do _ <- gen_Layer_post_init (mkLayer n gs); Ok (mkLayer n gs).
Proof.
  intros n gs. rewrite link_Layer_post_init. unfold make_layer.
  destruct (layer_is_valid (mkLayer n gs)) as [[|]|e]; reflexivity.
Qed.
Print Assumptions link_Layer_post_init_make_layer.

(* the two properties return the private attributes *)
Lemma link_Layer_n_parameters : forall l, gen_Layer_n_parameters l = layer_n_parameters l.
Proof. reflexivity. Qed.
Print Assumptions link_Layer_n_parameters.
Lemma link_Layer_n_controlled_gates : forall l, gen_Layer_n_controlled_gates l = layer_n_controlled l.
Proof. reflexivity. Qed.
Print Assumptions link_Layer_n_controlled_gates.

(* ------------------------------------------------------------------ is_valid *)
Lemma layer_wf_is_valid l : layer_wf l = true -> layer_is_valid l = Ok true.
Proof. unfold layer_wf. destruct (layer_is_valid l) as [[|]|]; simpl; congruence. Qed.

(* the loop of is_valid over layer objects *)
Lemma is_valid_loop n ls : forallb layer_wf ls = true ->
  py_for ls (fun l (_ : unit) =>
      do v <- gen_Layer_is_valid l;
      if negb v || negb (Z.eqb (l_qubits l) n) then Ok (Ret false) else Ok (Next tt)) tt
  = Ok (if forallb (fun l => layer_wf l && Z.eqb (l_qubits l) n) ls then Next tt else Ret false).
Proof.
  induction ls as [|l t IH]; intros W; [reflexivity|].
  cbn [forallb] in W. apply andb_true_iff in W as [Wl Wt].
  cbn [py_for forallb]. rewrite link_Layer_is_valid, (layer_wf_is_valid l Wl), Wl. cbn [bind negb orb andb].
  destruct (Z.eqb (l_qubits l) n); cbn [negb]; [exact (IH Wt) | reflexivity].
Qed.

(* Hypothesis: every element of `layers` is a layer OBJECT, i.e. was accepted by EVQECircuitLayer's constructor
   (layer_wf; "a layer object exists only if its constructor accepted it", Genome.v).  On such layers
   `layer.is_valid()` returns True; on arbitrary records it could raise IndexError, which individual_is_valid
   (stated on layer objects) does not model. *)
Lemma link_Individual_is_valid : forall V (i : individual V),
  forallb layer_wf (i_layers i) = true ->
  gen_Individual_is_valid V i = Ok (individual_is_valid i).
Proof.
  intros V i W. unfold gen_Individual_is_valid, individual_is_valid.
  rewrite (is_valid_loop (i_qubits i) (i_layers i) W), sum_n_params, !py_len_of_nat.
  destruct (i_layers i) as [|l t] eqn:E; [reflexivity|].
  replace (Z.of_nat (length (l :: t)) <=? 0) with false by (symmetry; apply Z.leb_gt; cbn [length]; lia).
  cbn [length Nat.eqb negb andb bind]. clear W.
  destruct (forallb _ (l :: t)); [|reflexivity]. cbn [andb].
  destruct (Z.eqb _ _); reflexivity.
Qed.
Print Assumptions link_Individual_is_valid.

(* ------------------------------------------------------------------ __post_init__ *)
Lemma dict_set_fresh {B} (d : list (Z * B)) k v : (forall kv, In kv d -> fst kv <> k) -> py_dict_set Z.eqb d k v = (d ++ [(k, v)])%list.
Proof.
  induction d as [|kv t IH]; intros H; [reflexivity|]. cbn [py_dict_set app].
  replace (fst kv =? k) with false by (symmetry; apply Z.eqb_neq; apply H; left; reflexivity).
  rewrite IH; [reflexivity|]. intros kv' Hin. apply H. right. exact Hin.
Qed.

(* the loop of __post_init__ from position s on: it appends the entries lpi_from names (all keys so far are < s) *)
Lemma post_init_loop (t : list layer) : forall s (d : list (Z * list Z)) off,
  (forall kv, In kv d -> fst kv < Z.of_nat s) ->
  fold_left (fun '((d, off) : list (Z * list Z) * Z) '((k, l) : Z * layer) =>
      (py_dict_set Z.eqb d k (py_range off (off + layer_n_parameters l)), off + layer_n_parameters l))
    (combine (map Z.of_nat (seq s (length t))) t) (d, off)
  = ((d ++ lpi_from (Z.of_nat s) off t)%list, off + n_params_of t).
Proof.
  induction t as [|l t IH]; intros s d off H.
  - cbn. rewrite app_nil_r. f_equal. unfold n_params_of. cbn. lia.
  - cbn [length seq map combine fold_left lpi_from].
    rewrite dict_set_fresh by (intros kv Hin; apply H in Hin; lia).
    rewrite IH.
    + rewrite <- app_assoc, n_params_of_cons. cbn [app]. replace (Z.of_nat (S s)) with (Z.of_nat s + 1) by lia.
      f_equal. lia.
    + intros kv Hin. apply in_app_or in Hin as [Hin|[<-|[]]]; [apply H in Hin; lia | cbn [fst]; lia].
Qed.

(* Hypothesis as for link_Individual_is_valid: the layers are layer objects.  The constructor raises exactly for an
   invalid record (= make_individual) and otherwise stores lpi_of as _layer_parameter_indices: this is what justifies
   the spec's reading of that attribute. *)
Lemma link_Individual_post_init : forall V (i : individual V),
  forallb layer_wf (i_layers i) = true ->
  gen_Individual_post_init V i
  = if individual_is_valid i then Ok (mkIndCache (lpi_of (i_layers i))) else Err IndividualException.
Proof.
  intros V i W. unfold gen_Individual_post_init. rewrite (link_Individual_is_valid V i W). cbn [bind].
  destruct (individual_is_valid i); [|reflexivity]. cbn [negb]. cbv zeta. unfold py_enumerate.
  match goal with |- context[fold_left ?f _ _] =>
    change f with (fun '((d, off) : list (Z * list Z) * Z) '((k, l) : Z * layer) =>
      (py_dict_set Z.eqb d k (py_range off (off + layer_n_parameters l)), off + layer_n_parameters l)) end.
  rewrite (post_init_loop (i_layers i) 0 [] 0) by (intros kv []). reflexivity.
Qed.
Print Assumptions link_Individual_post_init.

(* ------------------------------------------------------------------ layer_parameter_indices, get_layer_parameter_values *)
(* the property returns the private attribute, whose representation is lpi_of (what the translated __post_init__
   stores: link_Individual_post_init) *)
Lemma link_layer_parameter_indices : forall V (i : individual V), gen_layer_parameter_indices V i = lpi_of (i_layers i).
Proof. reflexivity. Qed.
Print Assumptions link_layer_parameter_indices.

(* layer_id % len(layers) *)
Lemma wrap_mod {V} (i : individual V) layer_id : i_layers i <> [] ->
  py_mod layer_id (py_len (i_layers i)) = Ok (Z.of_nat (wrap_layer_id i layer_id))
  /\ (wrap_layer_id i layer_id < length (i_layers i))%nat.
Proof.
  intros NE. pose proof (wrap_in_range i layer_id NE) as R. split; [|exact R].
  unfold py_mod, wrap_layer_id in *. rewrite py_len_of_nat.
  assert (0 < Z.of_nat (length (i_layers i))) by (destruct (i_layers i); [congruence | cbn [length]; lia]).
  replace (Z.of_nat (length (i_layers i)) =? 0) with false by (symmetry; apply Z.eqb_neq; lia).
  pose proof (Z.mod_pos_bound layer_id (Z.of_nat (length (i_layers i))) H). rewrite Z2Nat.id by lia. reflexivity.
Qed.

(* no hypothesis: an individual without layers (which the constructor rejects) makes the modulo raise *)
Lemma link_get_layer_parameter_values : forall V (i : individual V) layer_id,
  gen_get_layer_parameter_values V i layer_id
  = if Nat.eqb (length (i_layers i)) 0 then Err "ZeroDivisionError"%string else Ok (get_layer_parameter_values i layer_id).
Proof.
  intros V i lid. unfold gen_get_layer_parameter_values.
  destruct (i_layers i) as [|l0 t0] eqn:E; [reflexivity|].
  assert (NE : i_layers i <> []) by (rewrite E; discriminate). rewrite <- E.
  destruct (wrap_mod i lid NE) as [-> R]. rewrite E at 1. cbn [length Nat.eqb bind].
  unfold gen_layer_parameter_indices. rewrite (lpi_get _ _ R).
  rewrite (py_filterM_total _ (fun p : Z * V => let '(k, _) := p in
             py_mem Z.eqb k (PyPrelude.py_range (Z.of_nat (layer_offset (i_layers i) (wrap_layer_id i lid)))
                                (Z.of_nat (layer_offset (i_layers i) (wrap_layer_id i lid)) + Z.of_nat (layer_count (i_layers i) (wrap_layer_id i lid))))))
    by (intros [k v]; reflexivity).
  cbn [bind]. rewrite enumerate_window. reflexivity.
Qed.
Print Assumptions link_get_layer_parameter_values.

(* ------------------------------------------------------------------ small accessors *)
Lemma link_get_parameter_values : forall V (i : individual V), gen_get_parameter_values V i = i_values i.
Proof. reflexivity. Qed.
Print Assumptions link_get_parameter_values.

(* = n_controlled of Evqe/Selection.v *)
Lemma link_get_n_controlled_gates : forall V (i : individual V),
  gen_get_n_controlled_gates V i = sumZ (map layer_n_controlled (i_layers i)).
Proof. intros V i. unfold gen_get_n_controlled_gates. apply py_sum_Z_sumZ. Qed.
Print Assumptions link_get_n_controlled_gates.

(* ------------------------------------------------------------------ change_parameter_values *)
Lemma link_change_parameter_values : forall V (i : individual V) vs,
  gen_change_parameter_values V i vs = change_parameter_values i vs.
Proof.
  intros V i vs. unfold gen_change_parameter_values, change_parameter_values.
  rewrite sum_n_params, bind_ret, py_len_of_nat.
  destruct (Z.eqb (Z.of_nat (length vs)) (n_params_of (i_layers i))) eqn:E; [reflexivity|]. cbn [negb].
  unfold make_individual, individual_is_valid. cbn [i_qubits i_layers i_values]. rewrite E, andb_false_r. reflexivity.
Qed.
Print Assumptions link_change_parameter_values.

(* ------------------------------------------------------------------ change_layer_parameter_values *)
Lemma of_nat_eqb a b : Z.eqb (Z.of_nat a) (Z.of_nat b) = Nat.eqb a b.
Proof. destruct (Nat.eqb_spec a b); [apply Z.eqb_eq | apply Z.eqb_neq]; lia. Qed.

(* the loop that collects the value tuples of the layers at positions s, s+1, ...: layer k gets the new values, every
   other layer the slice of the flat tuple that layer_parameter_indices names (inside the tuple for an individual
   whose value count matches) *)
Lemma change_loop {V} (i : individual V) (k : nat) (vs : list V) :
  Z.of_nat (length (i_values i)) = n_params_of (i_layers i) ->
  forall (t : list layer) s acc, (s + length t <= length (i_layers i))%nat ->
  py_foldM (fun (acc : list (list V)) (p : Z * layer) => let '(index, _) := p in
      do j <- (if negb (Z.eqb index (Z.of_nat k))
               then do dv <- py_dict_get Z.eqb (lpi_of (i_layers i)) index;
                    do xs <- mapM (fun i_ => do it <- PyPrelude.py_index (i_values i) i_; Ok it) dv;
                    Ok (acc ++ [xs])%list
               else Ok (acc ++ [vs])%list);
      Ok j) (combine (map Z.of_nat (seq s (length t))) t) acc
  = Ok (acc ++ map (fun j => if Nat.eqb j k then vs else layer_values i j) (seq s (length t))).
Proof.
  intros HL. induction t as [|l t IH]; intros s acc Hs; [cbn; rewrite app_nil_r; reflexivity|].
  cbn [length] in Hs. cbn [length seq map combine py_foldM]. rewrite of_nat_eqb.
  destruct (Nat.eqb s k); cbn [negb bind].
  - rewrite IH by lia. rewrite <- app_assoc. reflexivity.
  - rewrite lpi_get by lia. cbn [bind]. rewrite py_range_nat, mapM_index_range.
    + cbn [bind]. rewrite IH by lia. rewrite <- app_assoc. reflexivity.
    + pose proof (offset_count_total (i_layers i) s). lia.
Qed.

(* Hypothesis: `individual` is an EVQEIndividual OBJECT, i.e. it passed the validity check of its constructor.  It is
   used twice: the individual has layers (else `% len(layers)` raises ZeroDivisionError) and as many values as its
   layers have parameters (else `parameter_values[i]` raises IndexError; the model slices with firstn/skipn, which
   cannot fail). *)
Lemma link_change_layer_parameter_values : forall V (i : individual V) layer_id vs,
  individual_is_valid i = true ->
  gen_change_layer_parameter_values V i layer_id vs = change_layer_parameter_values i layer_id vs.
Proof.
  intros V i lid vs Val. apply valid_parts in Val as [NE [_ HL]].
  unfold gen_change_layer_parameter_values, change_layer_parameter_values. cbv zeta.
  destruct (wrap_mod i lid NE) as [-> R]. set (k := wrap_layer_id i lid) in *. cbn [bind].
  unfold gen_layer_parameter_indices. rewrite (lpi_get _ _ R). cbn [bind].
  rewrite py_len_range_nat, py_len_of_nat, of_nat_eqb.
  destruct (Nat.eqb (length vs) (layer_count (i_layers i) k)); [|reflexivity]. cbn [negb].
  unfold py_enumerate.
  match goal with |- (do l <- py_foldM ?f _ _; _) = _ =>
    change f with (fun (acc : list (list V)) (p : Z * layer) => let '(index, _) := p in
      do j <- (if negb (Z.eqb index (Z.of_nat k))
               then do dv <- py_dict_get Z.eqb (lpi_of (i_layers i)) index;
                    do xs <- mapM (fun i_ => do it <- PyPrelude.py_index (i_values i) i_; Ok it) dv;
                    Ok (acc ++ [xs])%list
               else Ok (acc ++ [vs])%list);
      Ok j) end.
  rewrite (change_loop i k vs HL (i_layers i) 0 []) by lia. cbn [bind app]. rewrite bind_ret.
  f_equal. rewrite flat_map_concat_map, map_id.
  set (L := length (i_layers i)) in *. set (piece := fun j => if Nat.eqb j k then vs else layer_values i j).
  replace L with (k + (1 + (L - S k)))%nat at 1 by lia.
  rewrite !seq_app, !map_app, !concat_app. cbn [seq map concat Nat.add]. rewrite app_nil_r.
  replace (piece k) with vs by (unfold piece; rewrite Nat.eqb_refl; reflexivity).
  rewrite (map_ext_in piece (layer_values i) (seq 0 k))
    by (intros j Hj; apply in_seq in Hj; unfold piece; destruct (Nat.eqb_spec j k); [lia | reflexivity]).
  replace (k + 1)%nat with (S k) by lia.
  rewrite (map_ext_in piece (layer_values i) (seq (S k) (L - S k)))
    by (intros j Hj; apply in_seq in Hj; unfold piece; destruct (Nat.eqb_spec j k); [lia | reflexivity]).
  rewrite !slices_concat by (fold L; lia).
  replace (S k + (L - S k))%nat with L by lia.
  assert (O0 : layer_offset (i_layers i) 0 = 0%nat) by reflexivity.
  assert (OL : layer_offset (i_layers i) L = length (i_values i)).
  { unfold layer_offset, L. rewrite firstn_all. lia. }
  rewrite O0, OL, (layer_offset_S _ k R), Nat.sub_0_r. cbn [skipn Nat.add].
  f_equal. f_equal. apply firstn_all2. rewrite skipn_length. lia.
Qed.
Print Assumptions link_change_layer_parameter_values.

(* ------------------------------------------------------------------ remove_layers *)
(* l[0:b] for b >= 0 *)
Lemma py_slice_prefix {A} (l : list A) b : 0 <= b -> py_slice l (Some 0) (Some b) = firstn (Z.to_nat b) l.
Proof.
  intros Hb. unfold py_slice, py_clamp. rewrite py_len_of_nat.
  replace (0 <? 0) with false by reflexivity. replace (b <? 0) with false by (symmetry; apply Z.ltb_ge; lia).
  replace (Z.min 0 (Z.of_nat (length l))) with 0 by lia. cbn [Z.to_nat skipn]. rewrite Z.sub_0_r.
  destruct (Z.le_ge_cases b (Z.of_nat (length l))).
  - rewrite Z.min_l by lia. reflexivity.
  - rewrite Z.min_r by lia. rewrite Nat2Z.id, !firstn_all2 by lia. reflexivity.
Qed.

Lemma link_remove_layers : forall V (i : individual V) n_layers,
  gen_remove_layers V i n_layers = remove_layers false i n_layers.
Proof.
  intros V i k. unfold gen_remove_layers, remove_layers. rewrite !py_len_of_nat. cbv zeta.
  destruct (0 <? k) eqn:E1; [|reflexivity]. cbn [negb].
  destruct (k <? Z.of_nat (length (i_layers i))) eqn:E2; [|reflexivity]. cbn [negb andb].
  apply Z.ltb_lt in E1, E2. rewrite bind_ret, sum_n_params.
  rewrite (py_slice_prefix (i_layers i)) by lia.
  rewrite (py_slice_prefix (i_values i)) by apply n_params_of_nonneg.
  reflexivity.
Qed.
Print Assumptions link_remove_layers.

(* ------------------------------------------------------------------ get_genetic_distance *)
(* ceil(0.5 * n) on an int n *)
Lemma ceil_half n : Qceiling ((1 # 2) * inject_Z n)%Q = (n + 1) / 2.
Proof.
  unfold Qceiling, Qfloor, Qopp, Qmult, inject_Z. cbn [Qnum Qden].
  replace (1 * n) with n by lia. change (Z.pos (2 * 1)) with 2.
  pose proof (Z.div_mod (- n) 2 ltac:(lia)). pose proof (Z.mod_pos_bound (- n) 2 ltac:(lia)).
  pose proof (Z.div_mod (n + 1) 2 ltac:(lia)). pose proof (Z.mod_pos_bound (n + 1) 2 ltac:(lia)). lia.
Qed.

Lemma skipn_nth_cons {A} (l : list A) s x : nth_error l s = Some x -> skipn s l = x :: skipn (S s) l.
Proof.
  revert s. induction l as [|y t IH]; intros [|s] H; simpl in H; try discriminate.
  - inversion H; reflexivity.
  - exact (IH s H).
Qed.

Lemma shared_layers_firstn a b : forall m, (length a <= m \/ length b <= m)%nat ->
  shared_layers (firstn m a) (firstn m b) = shared_layers a b.
Proof.
  revert b. induction a as [|x xs IH]; intros b m H.
  - rewrite firstn_nil. reflexivity.
  - destruct b as [|y ys]; [rewrite firstn_nil; destruct (firstn m (x :: xs)); reflexivity|].
    destruct m as [|m]; [cbn [length] in H; lia|]. cbn [firstn shared_layers]. rewrite IH; [reflexivity|].
    cbn [length] in H. lia.
Qed.

(* the counting loop over positions s, s+1, ..., s+m-1 that exist in both tuples *)
Lemma shared_loop (a b : list layer) : forall m s acc, (s + m <= length a)%nat -> (s + m <= length b)%nat ->
  py_foldM (fun n_shared (k : Z) =>
      do x <- PyPrelude.py_index a k; do y <- PyPrelude.py_index b k;
      Ok (if layer_eqb x y then n_shared + 1 else n_shared))
    (map (fun k => 0 + Z.of_nat k) (seq s m)) acc
  = Ok (acc + shared_layers (firstn m (skipn s a)) (firstn m (skipn s b))).
Proof.
  induction m as [|m IH]; intros s acc Ha Hb; [cbn; f_equal; lia|].
  cbn [seq map py_foldM]. rewrite Z.add_0_l, !py_index_same, !py_index_nat.
  destruct (nth_error a s) as [x|] eqn:Ea; [|apply nth_error_None in Ea; lia].
  destruct (nth_error b s) as [y|] eqn:Eb; [|apply nth_error_None in Eb; lia].
  cbn [bind]. rewrite (IH (S s)) by lia.
  rewrite (skipn_nth_cons a s x Ea), (skipn_nth_cons b s y Eb). cbn [firstn shared_layers].
  f_equal. destruct (layer_eqb x y); lia.
Qed.

Lemma link_get_genetic_distance : forall V (a b : individual V),
  gen_get_genetic_distance V a b = Ok (genetic_distance a b).
Proof.
  intros V a b. unfold gen_get_genetic_distance, genetic_distance. cbv zeta.
  rewrite ceil_half, !py_len_of_nat. unfold py_range, py_min2_Z.
  set (m := Z.to_nat ((if Z.of_nat (length (i_layers b)) <? Z.of_nat (length (i_layers a))
                       then Z.of_nat (length (i_layers b)) else Z.of_nat (length (i_layers a))) - 0)).
  assert (Hm : m = Nat.min (length (i_layers a)) (length (i_layers b))).
  { unfold m. destruct (Z.ltb_spec (Z.of_nat (length (i_layers b))) (Z.of_nat (length (i_layers a)))); lia. }
  match goal with |- (do l <- py_foldM ?f _ _; _) = _ =>
    change f with (fun n_shared (k : Z) =>
      do x <- PyPrelude.py_index (i_layers a) k; do y <- PyPrelude.py_index (i_layers b) k;
      Ok (if layer_eqb x y then n_shared + 1 else n_shared)) end.
  rewrite (shared_loop (i_layers a) (i_layers b) m 0 0) by lia.
  cbn [bind skipn]. rewrite shared_layers_firstn by lia. reflexivity.
Qed.
Print Assumptions link_get_genetic_distance.
