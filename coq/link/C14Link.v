(* C14 — link between the Gallina GENERATED from /repo's current queasars/circuit_evaluation/expectation_calculation.py and
   bitstring_evaluation.py (build/gen*/QVGen/C14Gen.v, written by translator/py2gallina.py on every check) and the
   hand-written model coq/theories/Agg/Cvar.v the C14 theorems are about.
   One lemma link_<function> per translated function, each followed by Print Assumptions.  Compiled by
   harness/vlib/translate.py; NOT part of coq/theories because it depends on the generated module.

   The Python tuples are (state, probability, value); the model's [entry] is (probability, value).  The generated
   definitions keep the state (an arbitrary type St for _get_expectation, N on the operator path, list bool on the
   bitstring path); the link goes through [drop_state] : St * Q * Q -> entry, and the lemmas below show that the
   stable sort by x[2] and the accumulation loop commute with dropping the state. *)
From QV Require Import Translate.PyPrelude Translate.PyPrelude_proofs.
From QV Require Import Agg.Cvar Agg.Cvar_proofs.
From Coq Require Import NArith.
From QVGen Require Import C14Gen.
Open Scope Q_scope.

Definition drop_state {St : Type} (t : St * Q * Q) : entry := (snd (fst t), snd t).

(* ------------------------------------------------------------------ sorted(state_list, key=lambda x: x[2]) *)
Lemma drop_insert {St : Type} (x : St * Q * Q) (l : list (St * Q * Q)) :
  map drop_state (py_insert_by Qle_bool (fun x => snd x) x l) = insert_by_value (drop_state x) (map drop_state l).
Proof.
  induction l as [|y ys IH]; [reflexivity|].
  cbn [py_insert_by map insert_by_value]. change (snd (drop_state x)) with (snd x). change (snd (drop_state y)) with (snd y).
  destruct (Qle_bool (snd x) (snd y)); cbn [map]; [reflexivity | now rewrite IH].
Qed.

Lemma drop_sorted {St : Type} (l : list (St * Q * Q)) :
  map drop_state (py_sorted_by Qle_bool (fun x => snd x) l) = sort_by_value (map drop_state l).
Proof.
  unfold py_sorted_by, sort_by_value. induction l as [|x t IH]; cbn [fold_right map]; [reflexivity|].
  now rewrite drop_insert, IH.
Qed.

(* ------------------------------------------------------------------ the accumulation loop with its break *)
(* the loop body as the translator emits it: loop state (expectation, gathered), flag = "break taken" *)
Definition loop_body {St : Type} (alpha : Q) : St * Q * Q -> Q * Q -> Q * Q * bool :=
  fun '(_, probability, value) '(expectation, gathered) =>
    let probability := py_min2_Q (alpha - gathered) probability in
    let expectation := expectation + probability * value in
    let gathered := gathered + probability in
    if isclose_tol 0 gathered alpha then ((expectation, gathered), true) else ((expectation, gathered), false).

Lemma loop_accumulate {St : Type} (alpha : Q) (l : list (St * Q * Q)) : forall e g,
  fst (py_for_break l (loop_body alpha) (e, g)) = accumulate alpha (map drop_state l) g e.
Proof.
  unfold accumulate.
  induction l as [|[[s p] v] t IH]; intros e g; [reflexivity|].
  cbn [py_for_break map drop_state fst snd accumulate_gen break_test loop_body].
  change (py_min2_Q (alpha - g) p) with (py_min2 (alpha - g) p).
  rewrite isclose_tol_0.
  destruct (isclose_rel (g + py_min2 (alpha - g) p) alpha); [reflexivity | apply IH].
Qed.

Lemma link_get_expectation : forall (St : Type) (l : list (St * Q * Q)) (alpha : Q),
  gen_get_expectation St l alpha = get_expectation (map drop_state l) alpha.
Proof.
  intros St l alpha. unfold gen_get_expectation, get_expectation, get_expectation_gen.
  change (inject_Z 1) with 1. change (inject_Z 0) with 0.
  change (isclose_tol atol alpha 1) with (isclose alpha 1).
  change (accumulate_gen false) with accumulate.
  set (l' := if negb (isclose alpha 1) then _ else _).
  assert (El : map drop_state l' = if isclose alpha 1 then map drop_state l else sort_by_value (map drop_state l)).
  { subst l'. destruct (isclose alpha 1); cbn [negb]; [reflexivity | apply drop_sorted]. }
  rewrite <- El.
  change (py_for_break l' _ (0, 0)) with (py_for_break l' (loop_body alpha) (0, 0)).
  rewrite <- (loop_accumulate alpha l' 0 0).
  destruct (py_for_break l' (loop_body alpha) (0, 0)) as [e g]. cbn [fst].
  unfold qdiv. destruct (Qeq_bool alpha 0); reflexivity.
Qed.
Print Assumptions link_get_expectation.

(* ------------------------------------------------------------------ BitstringEvaluator *)
(* the constructor stores its two arguments *)
Lemma link_Evaluator_init : forall n f, gen_Evaluator_init n f = mkEvaluator n f.
Proof. reflexivity. Qed.
Print Assumptions link_Evaluator_init.

(* representable keys contain only '0' / '1': the character guard never fires *)
Lemma link_check_bitstring : forall ev key,
  gen_check_bitstring ev key = if Z.eqb (py_len key) (ev_len ev) then Ok tt else Err "BitstringEvaluatorException"%string.
Proof.
  intros ev key. unfold gen_check_bitstring. destruct (Z.eqb (py_len key) (ev_len ev)); cbn [negb]; [|reflexivity].
  replace (existsb _ key) with false; [reflexivity|].
  symmetry. induction key as [|c t IH]; [reflexivity|]. cbn [existsb]. rewrite IH. destruct c; reflexivity.
Qed.
Print Assumptions link_check_bitstring.

Lemma link_evaluate_bitstring : forall ev key,
  gen_evaluate_bitstring ev key = if Z.eqb (py_len key) (ev_len ev) then ev_fun ev key else Err "BitstringEvaluatorException"%string.
Proof.
  intros ev key. unfold gen_evaluate_bitstring. rewrite link_check_bitstring.
  destruct (Z.eqb (py_len key) (ev_len ev)); cbn [bind]; [|reflexivity]. destruct (ev_fun ev key); reflexivity.
Qed.
Print Assumptions link_evaluate_bitstring.

Lemma link_input_length : forall ev, gen_input_length ev = ev_len ev.
Proof. reflexivity. Qed.
Print Assumptions link_input_length.

(* the evaluator of the model: input length len, function = diagonal of op read off the key *)
Definition model_evaluator (len : nat) (op : list term) : evaluator :=
  mkEvaluator (Z.of_nat len) (fun key => Ok (eval_diag op (state_of_bits key))).

Lemma link_evaluate_bitstring_model : forall len op key,
  gen_evaluate_bitstring (model_evaluator len op) key = evaluate_bitstring len op key.
Proof.
  intros len op key. rewrite link_evaluate_bitstring. unfold evaluate_bitstring, model_evaluator, py_len. cbn [ev_len ev_fun].
  destruct (Nat.eqb_spec (length key) len) as [E|E].
  - rewrite E, Z.eqb_refl. reflexivity.
  - replace (Z.of_nat (length key) =? Z.of_nat len)%Z with false; [reflexivity|]. symmetry. apply Z.eqb_neq. lia.
Qed.
Print Assumptions link_evaluate_bitstring_model.

(* ------------------------------------------------------------------ the two public functions *)
Lemma alpha_guard alpha : (Qle_bool alpha (inject_Z 0) || PyPrelude.Qltb (inject_Z 1) alpha)%bool = negb (alpha_ok alpha).
Proof. unfold alpha_ok. rewrite negb_involutive. reflexivity. Qed.

(* qiskit's sampled_expectation_value divides by the total mass of the distribution, the hand-written model's plain_expectation does
   not (found by translator/conformance.py, families callee-qiskit-sampled-expectation-value-...).  The spec maps the callee to what it
   really computes (specs/c14.py preamble: sampled_expectation_value; mass 0 = nan / inf = Err "NonFinite"); [expectation_with_operator_real] is
   get_expectation_with_operator with THAT callee: the generated definition equals it for every distribution, and it equals the model's
   expectation_with_operator whenever the total mass is 1 (is_dist, the hypothesis of every C14 theorem; count/shots distributions). *)
Definition expectation_with_operator_real (d : dist) (op : list term) (alpha : Q) : result Q :=
  if negb (alpha_ok alpha) then Err "ValueError"
  else if isclose alpha 1 then sampled_expectation_value d op
  else get_expectation (sort_by_value (map (fun sp => (snd sp, eval_diag op (fst sp))) d)) alpha.

Lemma link_expectation_with_operator_real : forall d op alpha,
  gen_expectation_with_operator d op alpha = expectation_with_operator_real d op alpha.
Proof.
  intros d op alpha. unfold gen_expectation_with_operator, expectation_with_operator_real.
  change (Qle_bool alpha (inject_Z 0) || _)%bool with (Qle_bool alpha (inject_Z 0) || PyPrelude.Qltb (inject_Z 1) alpha)%bool.
  rewrite alpha_guard. destruct (negb (alpha_ok alpha)); [reflexivity|].
  change (inject_Z 1) with 1.
  change (isclose_tol atol alpha 1) with (isclose alpha 1).
  destruct (isclose alpha 1); [destruct (sampled_expectation_value d op); reflexivity|].
  rewrite link_get_expectation, drop_sorted, map_map.
  assert (E : forall (l : list (N * Q)),
             map (fun x => drop_state (let '(state, probability) := x in (state, probability, eval_diag op state))) l
             = map (fun sp => (snd sp, eval_diag op (fst sp))) l).
  { intros l. apply map_ext. intros [s p]. reflexivity. }
  rewrite E. destruct (get_expectation _ alpha); reflexivity.
Qed.
Print Assumptions link_expectation_with_operator_real.

(* total mass 1: the real callee IS the model's plain_expectation *)
Lemma sampled_expectation_value_mass1 d op :
  Qeq_bool (dist_mass d) 1 = true ->
  sampled_expectation_value d op = Ok (plain_expectation (map (fun sp => (snd sp, eval_diag op (fst sp))) d)).
Proof. intros H. unfold sampled_expectation_value. cbv zeta. rewrite H. reflexivity. Qed.

(* every non-zero total mass: the value is the quotient (the case split on mass 1 in the spec is only a presentation) *)
Lemma sampled_expectation_value_quotient d op :
  Qeq_bool (dist_mass d) 0 = false ->
  exists v, sampled_expectation_value d op = Ok v
            /\ v == plain_expectation (map (fun sp => (snd sp, eval_diag op (fst sp))) d) / dist_mass d.
Proof.
  intros H0. unfold sampled_expectation_value. cbv zeta.
  destruct (Qeq_bool (dist_mass d) 1) eqn:H1.
  - eexists. split; [reflexivity|]. apply Qeq_bool_eq in H1. rewrite H1. unfold Qdiv. change (/ 1) with 1. ring.
  - rewrite H0. eexists. split; reflexivity.
Qed.

(* total mass 0: nan / inf (Err "NonFinite"), never a value *)
Lemma sampled_expectation_value_mass0 d op :
  Qeq_bool (dist_mass d) 0 = true -> exists e, sampled_expectation_value d op = Err e.
Proof.
  intros H0. unfold sampled_expectation_value. cbv zeta.
  destruct (Qeq_bool (dist_mass d) 1) eqn:H1.
  - apply Qeq_bool_eq in H0. apply Qeq_bool_eq in H1. rewrite H0 in H1. discriminate H1.
  - rewrite H0. eexists. reflexivity.
Qed.

Lemma expectation_with_operator_real_mass1 d op alpha :
  Qeq_bool (dist_mass d) 1 = true -> expectation_with_operator_real d op alpha = expectation_with_operator d op alpha.
Proof.
  intros H. unfold expectation_with_operator_real, expectation_with_operator.
  rewrite (sampled_expectation_value_mass1 d op H). reflexivity.
Qed.

(* Hypothesis: the distribution has total mass 1. *)
Lemma link_expectation_with_operator : forall d op alpha,
  Qeq_bool (dist_mass d) 1 = true ->
  gen_expectation_with_operator d op alpha = expectation_with_operator d op alpha.
Proof.
  intros d op alpha Hmass. rewrite link_expectation_with_operator_real. apply expectation_with_operator_real_mass1. exact Hmass.
Qed.
Print Assumptions link_expectation_with_operator.

Lemma mapM_drop {A St : Type} (f : A -> result (St * Q * Q)) (g : A -> result entry) (l : list A) :
  (forall x, g x = match f x with Ok t => Ok (drop_state t) | Err e => Err e end) ->
  mapM g l = match mapM f l with Ok ts => Ok (map drop_state ts) | Err e => Err e end.
Proof.
  intros H. induction l as [|x t IH]; [reflexivity|]. cbn [mapM]. rewrite H, IH.
  destruct (f x); cbn [bind]; [|reflexivity]. destruct (mapM f t); reflexivity.
Qed.

Lemma link_expectation_with_bitstring : forall num_bits d len op alpha,
  gen_expectation_with_bitstring num_bits d (model_evaluator len op) alpha = expectation_with_bitstring num_bits d len op alpha.
Proof.
  intros num_bits d len op alpha. unfold gen_expectation_with_bitstring, expectation_with_bitstring.
  change (Qle_bool alpha (inject_Z 0) || _)%bool with (Qle_bool alpha (inject_Z 0) || PyPrelude.Qltb (inject_Z 1) alpha)%bool.
  rewrite alpha_guard. destruct (negb (alpha_ok alpha)); [reflexivity|].
  unfold binary_probabilities. rewrite mapM_map.
  rewrite (mapM_drop
             (fun x : N * Q => let '(state, probability) := (bitstring_of num_bits (fst x), snd x) in
                               do v1_ <- gen_evaluate_bitstring (model_evaluator len op) state; Ok (state, probability, v1_))
             (fun sp => do v <- evaluate_bitstring len op (bitstring_of num_bits (fst sp)); Ok (snd sp, v))).
  - destruct (mapM _ d) as [ts|e]; cbn [bind]; [|reflexivity].
    rewrite link_get_expectation. destruct (get_expectation _ alpha); reflexivity.
  - intros [s p]. cbn [fst snd]. rewrite link_evaluate_bitstring_model.
    destruct (evaluate_bitstring len op (bitstring_of num_bits s)); reflexivity.
Qed.
Print Assumptions link_expectation_with_bitstring.
