(* C18 — link between the Gallina GENERATED from /repo's current serialization modules
     queasars/job_shop_scheduling/serialization.py
     queasars/minimum_eigensolvers/evqe/quantum_circuit/serialization.py
     queasars/minimum_eigensolvers/evqe/serialization.py
     queasars/minimum_eigensolvers/base/serialization.py
   (build/gen*/QVGen/C18Gen.v, written by translator/py2gallina.py on every check) and the hand-written model
   coq/theories/Json/{PyVal,JsspCodec,EvqeCodec,ResultCodec}.v the C18 theorems are about.
   One lemma link_<function> per translated function, each followed by Print Assumptions.  Compiled by
   harness/vlib/translate.py; NOT part of coq/theories because it depends on the generated module.

   Recursive methods (`default` calling `self.default` on the children): the generated definition takes the function
   standing for `self.default` as a parameter (spec idiom open-recursion).  link_<x>_default instantiates it with the
   model's Fixpoint: the model is a fixed point of the functional generated from the Python text;
   link_<x>_default_unique: it is the only one (induction over the finite value). *)
From QV Require Import Translate.PyPrelude Translate.PyPrelude_proofs.
From QV Require Import Json.JsspCodec Json.ResultCodec Json.Protocol_proofs Json.Result_proofs.
From QVGen Require Import C18Gen.
Open Scope Z_scope.
Open Scope list_scope.

(* ------------------------------------------------------------------ the translator's dict vocabulary on str-keyed dicts *)
Lemma mem_keys (k : string) (d : sdict) : py_mem String.eqb k (py_dict_keys d) = has k d.
Proof.
  unfold py_mem, py_dict_keys, has. induction d as [|[k' v] t IH]; [reflexivity|].
  cbn [map existsb fst]. rewrite IH, (String.eqb_sym k k'). reflexivity.
Qed.

Lemma get_dget (k : string) (d : sdict) : py_dict_get String.eqb d k = dget k d.
Proof.
  unfold py_dict_get. induction d as [|[k' v] t IH]; [reflexivity|].
  cbn [find fst snd dget]. destruct (String.eqb k' k); [reflexivity|exact IH].
Qed.

Lemma len1_eq (d : sdict) : Z.eqb (py_len d) 1 = len1 d.
Proof. unfold py_len, len1. destruct d as [|a [|b t]]; try reflexivity. cbn [List.length Nat.eqb]. apply Z.eqb_neq. intros H. apply (Nat2Z.inj _ 1%nat) in H. discriminate H. Qed.

Lemma bind_ok {A} (r : result A) : (do v <- r; Ok v) = r.
Proof. destruct r; reflexivity. Qed.

(* ... or abstract them altogether (the proofs below do not depend on what the keys are) *)
Ltac gen_keys d :=
  repeat match goal with
         | |- context [has (String ?a ?s) d] => generalize (String a s); intro
         | |- context [dget (String ?a ?s) d] => generalize (String a s); intro
         end.
Ltac dict_norm := rewrite ?mem_keys, ?get_dget, ?len1_eq, ?bind_ok.
(* name the string literals first: rewriting under them is slow *)
Ltac abs_keys d :=
  repeat match goal with
         | |- context [has (String ?a ?s) d] => let k := fresh "k" in set (k := String a s)
         | |- context [dget (String ?a ?s) d] => let k := fresh "k" in set (k := String a s)
         end.

(* ------------------------------------------------------------------ induction over values, two levels deep *)
(* the encoders recurse into the items of a field value (for gate in o.gates): the induction hypothesis is needed for the
   children of the children of an object *)
Definition kids (P : pyval -> Prop) (o : pyval) : Prop :=
  match o with
  | PTuple l | PList l => Forall P l
  | PDict kvs | PObj CQuasiDist (PDict kvs :: _) => Forall (fun kv => P (fst kv) /\ P (snd kv)) kvs   (* .items() *)
  | _ => True
  end.

Lemma pyval_ind2 (P : pyval -> Prop) :
  (forall o, match o with
             | PTuple l | PList l => Forall P l
             | PDict kvs => Forall (fun kv => P (fst kv) /\ P (snd kv)) kvs
             | PObj _ l => Forall (fun x => P x /\ kids P x) l
             | _ => True
             end -> P o) ->
  forall o, P o.
Proof.
  intros H. assert (S : forall o, P o /\ kids P o); [|intros o; apply S].
  induction o as [| | | |l IH|l IH|kvs IH| | |c l IH] using pyval_ind'; try (split; [apply H|]; exact I).
  - assert (F : Forall P l) by (eapply Forall_impl; [|exact IH]; intros x [Hx _]; exact Hx). split; [apply H|]; exact F.
  - assert (F : Forall P l) by (eapply Forall_impl; [|exact IH]; intros x [Hx _]; exact Hx). split; [apply H|]; exact F.
  - assert (F : Forall (fun kv => P (fst kv) /\ P (snd kv)) kvs)
      by (eapply Forall_impl; [|exact IH]; intros kv [[Hk _] [Hv _]]; split; assumption).
    split; [apply H|]; exact F.
  - split; [apply H; exact IH|].
    destruct c; try exact I. destruct l as [|x l]; [exact I|]. destruct x; try exact I.
    inversion_clear IH as [|? ? [_ K] _]. exact K.
Qed.

(* ------------------------------------------------------------------ JSSPJSONEncoder.default *)
Lemma jssp_default_items kvs :
  jssp_default (items_value kvs)
  = PList (map (fun kv => let '(k, v) := kv in PDict [(PStr "tuple", PList [jssp_default k; jssp_default v])]) kvs).
Proof. unfold items_value. cbn. rewrite map_map. f_equal. apply map_ext. intros [k v]. reflexivity. Qed.

(* isinstance(o, dict) on a dict or on a QuasiDistribution (dict subclass) *)
Lemma link_jssp_default_dict_like o kvs : view_dict o = Some kvs -> view_tuple o = None -> view_list o = None ->
  jssp_default o = PDict [(PStr "dict", jssp_default (items_value kvs))] ->
  gen_jssp_default jssp_default o = jssp_default o.
Proof. intros Hd Ht Hl E. unfold gen_jssp_default. rewrite Ht, Hl, Hd. symmetry. exact E. Qed.
Print Assumptions link_jssp_default_dict_like.

Lemma link_jssp_default : forall o, gen_jssp_default jssp_default o = jssp_default o.
Proof.
  intros o. destruct o as [| | | |l|l|kvs| | |c l]; try reflexivity.
  - apply (link_jssp_default_dict_like _ kvs); try reflexivity. rewrite jssp_default_items. reflexivity.
  - destruct c; try reflexivity; destruct l as [|x1 [|x2 [|x3 [|x4 [|x5 l]]]]]; try reflexivity.
    all: destruct x1; try reflexivity.
    all: match goal with |- context [PDict ?kvs] => apply (link_jssp_default_dict_like _ kvs); try reflexivity end.
    all: rewrite jssp_default_items; reflexivity.
Qed.
Print Assumptions link_jssp_default.

(* the model is the ONLY fixed point: any function that satisfies the recursive equation generated from the Python text
   agrees with jssp_default on every (finite) value *)
Lemma link_jssp_default_unique : forall f : pyval -> pyval,
  (forall o, f o = gen_jssp_default f o) -> forall o, f o = jssp_default o.
Proof.
  intros f Hf.
  assert (Hitems : forall kvs,
            Forall (fun kv => f (fst kv) = jssp_default (fst kv) /\ f (snd kv) = jssp_default (snd kv)) kvs ->
            f (items_value kvs) = jssp_default (items_value kvs)).
  { intros kvs H. rewrite jssp_default_items. unfold items_value. rewrite Hf. unfold gen_jssp_default. cbn [view_tuple view_list].
    f_equal. rewrite map_map. apply map_ext_in. intros [k v] Hin. rewrite Forall_forall in H. destruct (H _ Hin) as [H1 H2].
    cbn [fst snd] in *. rewrite Hf. unfold gen_jssp_default. cbn [view_tuple map]. rewrite H1, H2. reflexivity. }
  assert (Hdict : forall kvs, jssp_default (PDict kvs) = PDict [(PStr "dict", jssp_default (items_value kvs))])
    by (intros; rewrite jssp_default_items; reflexivity).
  induction o as [| | | |l IH|l IH|kvs IH| | |c l IH] using pyval_ind'; rewrite Hf; try reflexivity.
  - unfold gen_jssp_default. cbn [view_tuple].
    replace (map (fun entry => f entry) l) with (map jssp_default l); [reflexivity|].
    apply map_ext_in. rewrite Forall_forall in IH. intros x Hx. symmetry. exact (IH x Hx).
  - unfold gen_jssp_default. cbn [view_tuple view_list].
    replace (map (fun entry => f entry) l) with (map jssp_default l); [reflexivity|].
    apply map_ext_in. rewrite Forall_forall in IH. intros x Hx. symmetry. exact (IH x Hx).
  - unfold gen_jssp_default. cbn [view_tuple view_list view_dict]. rewrite (Hitems kvs IH), Hdict. reflexivity.
  - destruct c; try reflexivity; destruct l as [|x1 [|x2 [|x3 [|x4 [|x5 l]]]]]; try reflexivity;
      repeat match goal with H : Forall _ (_ :: _) |- _ => inversion_clear H end;
      unfold gen_jssp_default; cbn [view_tuple view_list view_dict view_obj1 view_obj2 view_obj3 view_obj4 cls_eqb fst snd];
      repeat match goal with H : f ?x = jssp_default ?x |- _ => rewrite ?H; revert H end; intros; try reflexivity.
    (* a QuasiDistribution is a dict *)
    all: destruct x1; try reflexivity.
    all: match goal with H : _ (PDict _) = jssp_default _ |- _ =>
           rewrite Hf, Hdict in H; unfold gen_jssp_default in H; cbn [view_tuple view_list view_dict] in H; injection H as H end.
    all: cbn [view_tuple view_list view_dict]; rewrite H.
    all: match goal with |- context [PList (map jssp_default (map ?g ?kvs))] =>
           change (PList (map jssp_default (map g kvs))) with (jssp_default (items_value kvs)) end.
    all: rewrite jssp_default_items; reflexivity.
Qed.
Print Assumptions link_jssp_default_unique.

(* ------------------------------------------------------------------ JSSPJSONDecoder *)
Lemma link_jssp_parse_tuple : forall d, gen_jssp_parse_tuple d = jssp_parse_tuple d.
Proof. intros d. unfold gen_jssp_parse_tuple, jssp_parse_tuple. dict_norm. destruct (dget _ d); cbn [bind]; dict_norm; reflexivity. Qed.
Print Assumptions link_jssp_parse_tuple.

(* parse_list is not called by object_hook (no "list" marker is ever written); the model has no counterpart: d["list"] *)
Lemma link_jssp_parse_list : forall d, gen_jssp_parse_list d = dget "list" d.
Proof. intros d. unfold gen_jssp_parse_list. dict_norm. reflexivity. Qed.
Print Assumptions link_jssp_parse_list.

(* one step through two sequences of binds that start with the same computation *)
Ltac bind_step :=
  match goal with |- bind ?M _ = bind ?M _ => let x := fresh "x" in destruct M as [x|]; cbn [bind]; [|reflexivity] end.

Ltac parse_link f g :=
  intros d; unfold f, g; gen_keys d; dict_norm; repeat (bind_step; dict_norm); try reflexivity.

Lemma link_jssp_parse_dict : forall d, gen_jssp_parse_dict d = jssp_parse_dict d.
Proof. parse_link gen_jssp_parse_dict jssp_parse_dict. Qed.
Print Assumptions link_jssp_parse_dict.

Lemma link_jssp_parse_machine : forall d, gen_jssp_parse_machine d = jssp_parse_machine d.
Proof. parse_link gen_jssp_parse_machine jssp_parse_machine. Qed.
Print Assumptions link_jssp_parse_machine.

Lemma link_jssp_parse_operation : forall d, gen_jssp_parse_operation d = jssp_parse_operation d.
Proof. parse_link gen_jssp_parse_operation jssp_parse_operation. Qed.
Print Assumptions link_jssp_parse_operation.

Lemma link_jssp_parse_job : forall d, gen_jssp_parse_job d = jssp_parse_job d.
Proof. parse_link gen_jssp_parse_job jssp_parse_job. Qed.
Print Assumptions link_jssp_parse_job.

Lemma link_jssp_parse_instance : forall d, gen_jssp_parse_instance d = jssp_parse_instance d.
Proof. parse_link gen_jssp_parse_instance jssp_parse_instance. Qed.
Print Assumptions link_jssp_parse_instance.

Lemma link_jssp_parse_unscheduled : forall d, gen_jssp_parse_unscheduled d = jssp_parse_unscheduled d.
Proof. parse_link gen_jssp_parse_unscheduled jssp_parse_unscheduled. Qed.
Print Assumptions link_jssp_parse_unscheduled.

Lemma link_jssp_parse_scheduled : forall d, gen_jssp_parse_scheduled d = jssp_parse_scheduled d.
Proof. parse_link gen_jssp_parse_scheduled jssp_parse_scheduled. Qed.
Print Assumptions link_jssp_parse_scheduled.

Lemma link_jssp_parse_result : forall d, gen_jssp_parse_result d = jssp_parse_result d.
Proof. parse_link gen_jssp_parse_result jssp_parse_result. Qed.
Print Assumptions link_jssp_parse_result.

Lemma link_jssp_hook : forall d, gen_jssp_hook d = jssp_hook d.
Proof.
  intros d. unfold gen_jssp_hook, jssp_hook. gen_keys d. dict_norm.
  rewrite link_jssp_parse_tuple, link_jssp_parse_dict, link_jssp_parse_machine, link_jssp_parse_operation, link_jssp_parse_job,
    link_jssp_parse_instance, link_jssp_parse_unscheduled, link_jssp_parse_scheduled, link_jssp_parse_result.
  reflexivity.
Qed.
Print Assumptions link_jssp_hook.

(* ------------------------------------------------------------------ comprehensions over partial functions *)
(* [self.default(x) for x in l] *)
Lemma mapM_eta {A B} (f : A -> result B) l : mapM (fun x => do v <- f x; Ok v) l = mapR f l.
Proof. rewrite mapR_mapM. apply mapM_ext. intros x. apply bind_ok. Qed.

(* [[g(k), v] for k, v in items]: the list of lists the translator builds, embedded item-wise, is the model's list of PList *)
Lemma mapM_fmap {A B C D} (g : A -> result B) (h : B -> C) l : forall (k : list C -> result D),
  (do xs <- mapM g l; k (map h xs)) = (do r <- mapR (fun x => do y <- g x; Ok (h y)) l; k r).
Proof.
  induction l as [|a t IH]; intros k; [reflexivity|]. cbn [mapM mapR].
  destruct (g a) as [b|e]; [|reflexivity]. cbn [bind].
  specialize (IH (fun r => k (h b :: r))). cbn beta in IH.
  destruct (mapM g t); destruct (mapR _ t); cbn [bind map] in *; try exact IH; try discriminate IH.
Qed.

Lemma any_key_eq keys (d : sdict) : existsb (fun key => py_mem String.eqb key keys) (py_dict_keys d) = any_key_in keys d.
Proof. unfold py_dict_keys, any_key_in. induction d as [|kv t IH]; [reflexivity|]. cbn [map existsb]. rewrite IH. reflexivity. Qed.

(* ------------------------------------------------------------------ EVQECircuitLayerEncoder *)
(* serializable_types() is only used as `any(isinstance(o, t) for t in serializable_types())` *)
Lemma link_layer_serializable_types : forall o, existsb (fun t => is_instance o t) gen_layer_serializable_types = is_layer_type o.
Proof. intros o. destruct o as [| | | | | | | | |c l]; try reflexivity. destruct c; reflexivity. Qed.
Print Assumptions link_layer_serializable_types.

Lemma link_layer_default_layer_case n gates :
  gen_layer_default layer_default (PObj CLayer [n; gates]) = layer_default (PObj CLayer [n; gates]).
Proof.
  unfold gen_layer_default. cbn [view_obj2 cls_eqb snd fst].
  destruct gates; try reflexivity; cbn [EvqeCodec.iter bind]; rewrite mapM_eta; reflexivity.
Qed.
Print Assumptions link_layer_default_layer_case.

Lemma link_layer_default : forall o, gen_layer_default layer_default o = layer_default o.
Proof.
  intros o. destruct o as [| | | | | | | | |c l]; try reflexivity.
  destruct c; try reflexivity; destruct l as [|x1 [|x2 [|x3 l]]]; try reflexivity.
  apply link_layer_default_layer_case.
Qed.
Print Assumptions link_layer_default.

Lemma mapR_Forall (f g : pyval -> result pyval) l : Forall (fun x => f x = g x) l -> mapR f l = mapR g l.
Proof. intros H. apply mapR_ext. apply Forall_forall. exact H. Qed.

Lemma link_layer_default_unique : forall f : pyval -> result pyval,
  (forall o, f o = gen_layer_default f o) -> forall o, f o = layer_default o.
Proof.
  intros f Hf. apply pyval_ind2. intros o IH. rewrite Hf.
  destruct o as [| | | | | | | | |c l]; try reflexivity.
  destruct c; try reflexivity; destruct l as [|n [|gates [|x l]]]; try reflexivity.
  rewrite <- link_layer_default_layer_case. unfold gen_layer_default. cbn [view_obj2 cls_eqb snd fst].
  inversion_clear IH as [|? ? _ IH']. inversion_clear IH' as [|? ? [_ Hk] _].
  destruct gates; try reflexivity; cbn [EvqeCodec.iter bind kids] in *; rewrite !mapM_eta, (mapR_Forall _ _ _ Hk); reflexivity.
Qed.
Print Assumptions link_layer_default_unique.

(* ------------------------------------------------------------------ EVQECircuitLayerDecoder *)
Lemma link_layer_identifying_keys : gen_layer_identifying_keys = layer_identifying_keys.
Proof. reflexivity. Qed.
Print Assumptions link_layer_identifying_keys.

Lemma link_parse_circuit_layer : forall d, gen_parse_circuit_layer d = parse_circuit_layer d.
Proof. parse_link gen_parse_circuit_layer parse_circuit_layer. Qed.
Print Assumptions link_parse_circuit_layer.

Lemma link_parse_evqe_gate : forall d, gen_parse_evqe_gate d = parse_evqe_gate d.
Proof.
  intros d. unfold gen_parse_evqe_gate, parse_evqe_gate. abs_keys d. dict_norm.
  destruct (dget k d) as [t|]; cbn [bind]; [|reflexivity]. cbv zeta.
  repeat (match goal with |- context [if ?c then _ else _] => destruct c end; [reflexivity|]). reflexivity.
Qed.
Print Assumptions link_parse_evqe_gate.

Lemma link_layer_hook : forall d, gen_layer_hook d = layer_hook d.
Proof.
  intros d. unfold gen_layer_hook, layer_hook. gen_keys d. dict_norm.
  rewrite link_parse_circuit_layer, link_parse_evqe_gate. reflexivity.
Qed.
Print Assumptions link_layer_hook.

(* ------------------------------------------------------------------ EVQEPopulationJSONEncoder *)
Lemma link_evqe_serializable_types : forall o, existsb (fun t => is_instance o t) gen_evqe_serializable_types = is_evqe_type o.
Proof. intros o. destruct o as [| | | | | | | | |c l]; try reflexivity. destruct c; reflexivity. Qed.
Print Assumptions link_evqe_serializable_types.

(* the pieces of the encoders' bodies that iterate over a field value, as generated and as the model writes them *)
Lemma seq_eq (f : pyval -> result pyval) (i : pyval) {B} (k : list pyval -> result B) :
  (do it <- EvqeCodec.iter i; do xs <- mapM (fun x => do v <- f x; Ok v) it; k xs)
  = (do xs <- match i with PTuple l | PList l => mapR f l | _ => Err ModelScope end; k xs).
Proof. destruct i; try reflexivity; cbn [EvqeCodec.iter bind]; rewrite mapM_eta; reflexivity. Qed.

Lemma opt_seq_eq (f : pyval -> result pyval) (r : pyval) :
  (if is_none r then Ok PNone else do it <- EvqeCodec.iter r; do xs <- mapM (fun x => do v <- f x; Ok v) it; Ok (PList xs))
  = match r with PNone => Ok PNone | PTuple l | PList l => do x <- mapR f l; Ok (PList x) | _ => Err ModelScope end.
Proof. destruct r; try reflexivity; cbn [is_none EvqeCodec.iter bind]; rewrite mapM_eta; reflexivity. Qed.

Lemma opt_keys_eq (f : pyval -> result pyval) (m : pyval) :
  (if is_none m then Ok PNone
   else do kvs <- pv_items m; do xs <- mapM (fun '(a, b) => do v <- f a; Ok [v; b]) kvs; Ok (PList (map PList xs)))
  = match m with
    | PNone => Ok PNone
    | PDict kvs | PObj CQuasiDist (PDict kvs :: _) =>
        do r <- mapR (fun kv : pyval * pyval => let '(k, v) := kv in do y <- f k; Ok (PList [y; v])) kvs; Ok (PList r)
    | _ => Err ModelScope
    end.
Proof.
  destruct m as [| | | | | |kvs| | |c l]; try reflexivity;
    [|destruct c; try reflexivity; destruct l as [|x l]; try reflexivity; destruct x as [| | | | | |kvs| | |]; try reflexivity].
  all: cbn [is_none pv_items view_dict bind].
  all: rewrite (mapM_fmap _ PList _ (fun r => Ok (PList r))).
  all: rewrite (mapR_ext _ (fun kv : pyval * pyval => let '(k, v) := kv in do y <- f k; Ok (PList [y; v]))); [reflexivity|].
  all: intros [a b] _; destruct (f a); reflexivity.
Qed.

Lemma opt_vals_eq (f : pyval -> result pyval) (m : pyval) :
  (if is_none m then Ok PNone
   else do kvs <- pv_items m; do xs <- mapM (fun '(a, b) => do v <- f b; Ok [a; v]) kvs; Ok (PList (map PList xs)))
  = match m with
    | PNone => Ok PNone
    | PDict kvs | PObj CQuasiDist (PDict kvs :: _) =>
        do r <- mapR (fun kv : pyval * pyval => let '(k, v) := kv in do y <- f v; Ok (PList [k; y])) kvs; Ok (PList r)
    | _ => Err ModelScope
    end.
Proof.
  destruct m as [| | | | | |kvs| | |c l]; try reflexivity;
    [|destruct c; try reflexivity; destruct l as [|x l]; try reflexivity; destruct x as [| | | | | |kvs| | |]; try reflexivity].
  all: cbn [is_none pv_items view_dict bind].
  all: rewrite (mapM_fmap _ PList _ (fun r => Ok (PList r))).
  all: rewrite (mapR_ext _ (fun kv : pyval * pyval => let '(k, v) := kv in do y <- f v; Ok (PList [k; y]))); [reflexivity|].
  all: intros [a b] _; destruct (f b); reflexivity.
Qed.

(* the model's clauses, unfolded once (the model is a Fixpoint; these are its defining equations) *)
Lemma evqe_default_individual n layers values :
  evqe_default (PObj CIndividual [n; layers; values])
  = do ls <- match layers with PTuple l | PList l => mapR evqe_default l | _ => Err ModelScope end;
    do vs <- py_list values;
    Ok (PDict [(PStr "evqe_individual_n_qubits", n); (PStr "evqe_individual_layers", PList ls);
               (PStr "evqe_individual_parameter_values", vs)]).
Proof. reflexivity. Qed.

Lemma evqe_default_population individuals representatives members membership :
  evqe_default (PObj CPopulation [individuals; representatives; members; membership])
  = do reps <- match representatives with
               | PNone => Ok PNone
               | PTuple l | PList l => do r <- mapR evqe_default l; Ok (PList r)
               | _ => Err ModelScope
               end;
    do mem <- match members with
              | PNone => Ok PNone
              | PDict kvs | PObj CQuasiDist (PDict kvs :: _) =>
                  do r <- mapR (fun kv : pyval * pyval => let '(k, v) := kv in do y <- evqe_default k; Ok (PList [y; v])) kvs; Ok (PList r)
              | _ => Err ModelScope
              end;
    do mship <- match membership with
                | PNone => Ok PNone
                | PDict kvs | PObj CQuasiDist (PDict kvs :: _) =>
                    do r <- mapR (fun kv : pyval * pyval => let '(k, v) := kv in do y <- evqe_default v; Ok (PList [k; y])) kvs; Ok (PList r)
                | _ => Err ModelScope
                end;
    do inds <- match individuals with PTuple l | PList l => mapR evqe_default l | _ => Err ModelScope end;
    Ok (PDict [(PStr "evqe_population_individuals", PList inds);
               (PStr "evqe_population_species_representatives", reps);
               (PStr "evqe_population_species_members", mem);
               (PStr "evqe_population_species_membership", mship)]).
Proof. reflexivity. Qed.

Lemma link_evqe_default_layer_type o : is_layer_type o = true -> gen_evqe_default layer_default evqe_default o = evqe_default o.
Proof.
  intros H. unfold gen_evqe_default. rewrite link_layer_serializable_types, H, bind_ok, link_layer_default.
  destruct o as [| | | | | | | | |c l]; try discriminate H. destruct c; try discriminate H; reflexivity.
Qed.
Print Assumptions link_evqe_default_layer_type.

Lemma link_evqe_default_individual_case n layers values :
  gen_evqe_default layer_default evqe_default (PObj CIndividual [n; layers; values]) = evqe_default (PObj CIndividual [n; layers; values]).
Proof.
  unfold gen_evqe_default.
  cbn [existsb gen_layer_serializable_types is_instance orb view_obj3 view_obj4 cls_eqb snd fst].
  rewrite seq_eq, evqe_default_individual. reflexivity.
Qed.
Print Assumptions link_evqe_default_individual_case.

Lemma link_evqe_default_population_case i r m ms :
  gen_evqe_default layer_default evqe_default (PObj CPopulation [i; r; m; ms]) = evqe_default (PObj CPopulation [i; r; m; ms]).
Proof.
  unfold gen_evqe_default.
  cbn [existsb gen_layer_serializable_types is_instance orb view_obj3 view_obj4 cls_eqb snd fst]. cbv zeta.
  rewrite evqe_default_population.
  rewrite opt_seq_eq. bind_step. rewrite opt_keys_eq. bind_step. rewrite opt_vals_eq. bind_step.
  rewrite seq_eq. reflexivity.
Qed.
Print Assumptions link_evqe_default_population_case.

Lemma link_evqe_default : forall o, gen_evqe_default layer_default evqe_default o = evqe_default o.
Proof.
  intros o. destruct o as [| | | | | | | | |c l]; try reflexivity.
  destruct c.
  1-7: reflexivity.
  1-5: apply link_evqe_default_layer_type; reflexivity.
  3-5: reflexivity.
  - destruct l as [|x1 [|x2 [|x3 [|x4 l]]]]; try reflexivity. apply link_evqe_default_individual_case.
  - destruct l as [|x1 [|x2 [|x3 [|x4 [|x5 l]]]]]; try reflexivity. apply link_evqe_default_population_case.
Qed.
Print Assumptions link_evqe_default.

(* congruence of the iterating pieces in the function that stands for self.default *)
Lemma seq_cong (f g : pyval -> result pyval) (i : pyval) {B} (k : list pyval -> result B) : kids (fun x => f x = g x) i ->
  (do it <- EvqeCodec.iter i; do xs <- mapM (fun x => do v <- f x; Ok v) it; k xs)
  = (do it <- EvqeCodec.iter i; do xs <- mapM (fun x => do v <- g x; Ok v) it; k xs).
Proof. intros H. destruct i; try reflexivity; cbn [EvqeCodec.iter bind kids] in *; rewrite !mapM_eta, (mapR_Forall _ _ _ H); reflexivity. Qed.

Lemma opt_seq_cong (f g : pyval -> result pyval) (r : pyval) : kids (fun x => f x = g x) r ->
  (if is_none r then Ok PNone else do it <- EvqeCodec.iter r; do xs <- mapM (fun x => do v <- f x; Ok v) it; Ok (PList xs))
  = (if is_none r then Ok PNone else do it <- EvqeCodec.iter r; do xs <- mapM (fun x => do v <- g x; Ok v) it; Ok (PList xs)).
Proof. intros H. destruct r; try reflexivity; cbn [is_none]; apply seq_cong; exact H. Qed.

Lemma opt_keys_cong (f g : pyval -> result pyval) (m : pyval) : kids (fun x => f x = g x) m ->
  (if is_none m then Ok PNone
   else do kvs <- pv_items m; do xs <- mapM (fun '(a, b) => do v <- f a; Ok [v; b]) kvs; Ok (PList (map PList xs)))
  = (if is_none m then Ok PNone
     else do kvs <- pv_items m; do xs <- mapM (fun '(a, b) => do v <- g a; Ok [v; b]) kvs; Ok (PList (map PList xs))).
Proof.
  intros H. destruct m as [| | | | | |kvs| | |c l]; try reflexivity;
    [|destruct c; try reflexivity; destruct l as [|x l]; try reflexivity; destruct x as [| | | | | |kvs| | |]; try reflexivity].
  all: cbn [is_none pv_items view_dict bind kids] in *.
  all: rewrite (mapM_ext_in _ (fun '(a, b) => do v <- g a; Ok [v; b])); [reflexivity|].
  all: intros [a b] Hin; rewrite Forall_forall in H; destruct (H _ Hin) as [Ha _]; cbn [fst] in Ha; rewrite Ha; reflexivity.
Qed.

Lemma opt_vals_cong (f g : pyval -> result pyval) (m : pyval) : kids (fun x => f x = g x) m ->
  (if is_none m then Ok PNone
   else do kvs <- pv_items m; do xs <- mapM (fun '(a, b) => do v <- f b; Ok [a; v]) kvs; Ok (PList (map PList xs)))
  = (if is_none m then Ok PNone
     else do kvs <- pv_items m; do xs <- mapM (fun '(a, b) => do v <- g b; Ok [a; v]) kvs; Ok (PList (map PList xs))).
Proof.
  intros H. destruct m as [| | | | | |kvs| | |c l]; try reflexivity;
    [|destruct c; try reflexivity; destruct l as [|x l]; try reflexivity; destruct x as [| | | | | |kvs| | |]; try reflexivity].
  all: cbn [is_none pv_items view_dict bind kids] in *.
  all: rewrite (mapM_ext_in _ (fun '(a, b) => do v <- g b; Ok [a; v])); [reflexivity|].
  all: intros [a b] Hin; rewrite Forall_forall in H; destruct (H _ Hin) as [_ Hb]; cbn [snd] in Hb; rewrite Hb; reflexivity.
Qed.

(* the layer encoder's part is fixed (layer_default, itself unique): uniqueness in the function standing for the population encoder's self.default *)
Lemma link_evqe_default_unique : forall f : pyval -> result pyval,
  (forall o, f o = gen_evqe_default layer_default f o) -> forall o, f o = evqe_default o.
Proof.
  intros f Hf. apply pyval_ind2. intros o IH. rewrite Hf.
  destruct o as [| | | | | | | | |c l]; try reflexivity.
  destruct c.
  1-7: reflexivity.
  1-5: rewrite <- link_evqe_default; reflexivity.
  3-5: reflexivity.
  - destruct l as [|n [|layers [|values [|x4 l]]]]; try reflexivity.
    rewrite <- link_evqe_default_individual_case. unfold gen_evqe_default.
    cbn [existsb gen_layer_serializable_types is_instance orb view_obj3 view_obj4 cls_eqb snd fst].
    inversion_clear IH as [|? ? _ IH']. inversion_clear IH' as [|? ? [_ Hk] _].
    apply seq_cong. exact Hk.
  - destruct l as [|i [|r [|m [|ms [|x5 l]]]]]; try reflexivity.
    rewrite <- link_evqe_default_population_case. unfold gen_evqe_default.
    cbn [existsb gen_layer_serializable_types is_instance orb view_obj3 view_obj4 cls_eqb snd fst]. cbv zeta.
    inversion_clear IH as [|? ? [_ Hi] IH1]. inversion_clear IH1 as [|? ? [_ Hr] IH2].
    inversion_clear IH2 as [|? ? [_ Hm] IH3]. inversion_clear IH3 as [|? ? [_ Hms] _].
    rewrite (opt_seq_cong f evqe_default r Hr). bind_step.
    rewrite (opt_keys_cong f evqe_default m Hm). bind_step.
    rewrite (opt_vals_cong f evqe_default ms Hms). bind_step.
    apply seq_cong. exact Hi.
Qed.
Print Assumptions link_evqe_default_unique.

(* ------------------------------------------------------------------ EVQEPopulationJSONDecoder *)
Lemma link_evqe_identifying_keys : gen_evqe_identifying_keys = evqe_identifying_keys.
Proof. reflexivity. Qed.
Print Assumptions link_evqe_identifying_keys.

Lemma link_parse_individual : forall d, gen_parse_individual d = parse_individual d.
Proof. parse_link gen_parse_individual parse_individual. Qed.
Print Assumptions link_parse_individual.

Lemma members_conv m :
  (if negb (is_none m) then do v5 <- py_tuple m; do v6 <- py_dict v5; Ok v6 else Ok m)
  = match m with PNone => Ok PNone | _ => do t <- py_tuple m; py_dict t end.
Proof. destruct m; cbn [is_none negb py_tuple bind]; rewrite ?bind_ok; reflexivity. Qed.

Lemma membership_conv m :
  (if negb (is_none m) then do v <- py_dict m; Ok v else Ok m) = match m with PNone => Ok PNone | _ => py_dict m end.
Proof. destruct m; cbn [is_none negb]; rewrite ?bind_ok; reflexivity. Qed.

Lemma link_parse_population : forall d, gen_parse_population d = parse_population d.
Proof.
  intros d. unfold gen_parse_population, parse_population. abs_keys d. dict_norm. cbv zeta.
  do 4 bind_step. rewrite members_conv. do 2 bind_step. rewrite membership_conv. bind_step. reflexivity.
Qed.
Print Assumptions link_parse_population.

Lemma link_evqe_hook : forall d, gen_evqe_hook d = evqe_hook d.
Proof.
  intros d. unfold gen_evqe_hook, evqe_hook. gen_keys d. dict_norm.
  rewrite any_key_eq, link_layer_hook, link_parse_individual, link_parse_population. reflexivity.
Qed.
Print Assumptions link_evqe_hook.

(* ------------------------------------------------------------------ EvolvingAnsatzMinimumEigensolverResultJSONEncoder.default *)
(* Python's isinstance(x, dict) holds for a QuasiDistribution (a dict subclass): the generated code reads it through
   view_dict / is_dict / pv_items, and the model's clauses for the auxiliary values (result_default, unwrap_aux) and for the
   species maps (.items()) match `PDict kvs | PObj CQuasiDist (PDict kvs :: _)` alike.  (A QuasiDistribution as
   aux_operators_evaluated is outside the documented type; found while linking, the model now follows the code:
   the encoder writes {"type": "dict", ...}, the decoder raises KeyError for d["type"].) *)

(* [[key, value] for key, value in d.items()] *)
Lemma pairs_value (data : list (pyval * pyval)) :
  PList (map PList (map (fun '(key, value_) => [key; value_]) data)) = PList (map (fun kv => PList [fst kv; snd kv]) data).
Proof. rewrite map_map. f_equal. apply map_ext. intros [k v]. reflexivity. Qed.

Lemma ev_eq (f : pyval -> result pyval) (ev : pyval) :
  (if is_complex ev then do v <- f ev; Ok v else Ok ev) = match ev with PComplex _ _ => f ev | _ => Ok ev end.
Proof. destruct ev; cbn [is_complex view_complex]; rewrite ?bind_ok; reflexivity. Qed.

Lemma aux_eq (a : pyval) :
  (if is_list a
   then do v <- py_list a; Ok (PDict [(PStr "type", PStr "list"); (PStr "values", v)])
   else do j <- (if is_dict a
                 then do kvs <- pv_items a;
                      Ok (PDict [(PStr "type", PStr "dict"); (PStr "values", PList (map PList (map (fun '(key, value_) => [key; value_]) kvs)))])
                 else Ok PNone);
        Ok j)
  = match a with
    | PList l => Ok (PDict [(PStr "type", PStr "list"); (PStr "values", PList l)])
    | PDict kvs | PObj CQuasiDist (PDict kvs :: _) =>
        Ok (PDict [(PStr "type", PStr "dict"); (PStr "values", PList (map (fun kv => PList [fst kv; snd kv]) kvs))])
    | _ => Ok PNone
    end.
Proof.
  destruct a as [| | | | | |kvs| | |c l]; try reflexivity.
  - cbn. rewrite pairs_value. reflexivity.
  - destruct c; try reflexivity. destruct l as [|x l]; [reflexivity|]. destruct x; try reflexivity.
    cbn. rewrite pairs_value. reflexivity.
Qed.

Lemma hist_eq (f : pyval -> result pyval) (h : pyval) :
  (if is_list h then do it <- EvqeCodec.iter h; do xs <- mapM (fun x => do v <- f x; Ok v) it; Ok (PList xs) else Ok PNone)
  = match h with PList l => do hs <- mapR f l; Ok (PList hs) | _ => Ok PNone end.
Proof. destruct h; try reflexivity. cbn [is_list view_list EvqeCodec.iter bind]. rewrite mapM_eta. reflexivity. Qed.

(* the model's clause for a solver result at head_flags, unfolded once *)
Lemma result_default_solver eigenvalue aux eigenstate best evaluations generations history circuit :
  result_default head_flags (PObj CSolverResult [eigenvalue; aux; eigenstate; best; evaluations; generations; history; circuit])
  = do ev <- match eigenvalue with PComplex _ _ => result_default head_flags eigenvalue | _ => Ok eigenvalue end;
    do av <- match aux with
             | PList l => Ok (PDict [(PStr "type", PStr "list"); (PStr "values", PList l)])
             | PDict kvs | PObj CQuasiDist (PDict kvs :: _) =>
                 Ok (PDict [(PStr "type", PStr "dict"); (PStr "values", PList (map (fun kv => PList [fst kv; snd kv]) kvs))])
             | _ => Ok PNone
             end;
    do hist <- match history with PList l => do hs <- mapR (result_default head_flags) l; Ok (PList hs) | _ => Ok PNone end;
    do es <- result_default head_flags eigenstate;
    do bi <- result_default head_flags best;
    do ic <- result_default head_flags circuit;
    Ok (PDict [(PStr "evolving_ansatz_result_eigenvalue", ev);
               (PStr "evolving_ansatz_result_aux_operators_evaluated", av);
               (PStr "evolving_ansatz_result_eigenstate", es);
               (PStr "evolving_ansatz_result_best_individual", bi);
               (PStr "evolving_ansatz_result_circuit_evaluations", evaluations);
               (PStr "evolving_ansatz_result_generations", generations);
               (PStr "evolving_ansatz_population_evaluation_results", hist);
               (PStr "evolving_ansatz_population_initial_state_circuit", ic)]).
Proof. reflexivity. Qed.

Lemma link_result_default_evqe o : is_evqe_type o = true ->
  gen_result_default layer_default evqe_default (result_default head_flags) o = evqe_default o.
Proof. intros H. unfold gen_result_default. rewrite link_evqe_serializable_types, H, bind_ok. apply link_evqe_default. Qed.
Print Assumptions link_result_default_evqe.

Lemma link_result_default_quasi data shots bound width :
  gen_result_default layer_default evqe_default (result_default head_flags) (PObj CQuasiDist [PDict data; shots; bound; width])
  = result_default head_flags (PObj CQuasiDist [PDict data; shots; bound; width]).
Proof.
  unfold gen_result_default.
  cbn [existsb gen_evqe_serializable_types is_instance cls_eqb orb is_none view_complex view_quasi fst snd].
  cbn [result_default is_evqe_serializable is_evqe_type legacy_width head_flags].
  unfold quasi_bp. cbn [fst snd]. rewrite pairs_value.
  destruct (as_int width) as [w|]; cbn [bind]; [|reflexivity].
  destruct (quasi_binary_keys data w) as [[|b l]|]; cbn [bind]; reflexivity.
Qed.
Print Assumptions link_result_default_quasi.

Lemma link_result_default_solver_case x1 x2 x3 x4 x5 x6 x7 x8 :
  gen_result_default layer_default evqe_default (result_default head_flags) (PObj CSolverResult [x1; x2; x3; x4; x5; x6; x7; x8])
  = result_default head_flags (PObj CSolverResult [x1; x2; x3; x4; x5; x6; x7; x8]).
Proof.
  unfold gen_result_default.
  cbn [existsb gen_evqe_serializable_types is_instance orb is_none view_complex view_quasi view_circuit view_obj4 view_obj8 cls_eqb fst snd].
  cbv zeta. rewrite result_default_solver.
  rewrite ev_eq. bind_step. rewrite aux_eq. bind_step. rewrite hist_eq. bind_step. reflexivity.
Qed.
Print Assumptions link_result_default_solver_case.

Lemma link_result_default : forall o,
  gen_result_default layer_default evqe_default (result_default head_flags) o = result_default head_flags o.
Proof.
  intros o. destruct o as [| | | | | | | | |c l]; try reflexivity.
  destruct c.
  1-12: reflexivity.
  - (* EVQEIndividual *) rewrite link_result_default_evqe by reflexivity. reflexivity.
  - (* EVQEPopulation *) rewrite link_result_default_evqe by reflexivity. reflexivity.
  - (* QuasiDistribution *)
    destruct l as [|x1 [|x2 [|x3 [|x4 [|x5 l]]]]]; try reflexivity; destruct x1; try reflexivity.
    apply link_result_default_quasi.
  - (* BasePopulationEvaluationResult *)
    destruct l as [|x1 [|x2 [|x3 [|x4 [|x5 l]]]]]; reflexivity.
  - (* EvolvingAnsatzMinimumEigensolverResult *)
    destruct l as [|x1 [|x2 [|x3 [|x4 [|x5 [|x6 [|x7 [|x8 [|x9 l]]]]]]]]].
    1-8: reflexivity. 2: reflexivity.
    apply link_result_default_solver_case.
Qed.
Print Assumptions link_result_default.

(* congruence of the two composite clauses in the function standing for self.default *)
Lemma result_popeval_cong (f g : pyval -> result pyval) x1 x2 x3 x4 : f x1 = g x1 -> f x3 = g x3 ->
  gen_result_default layer_default evqe_default f (PObj CPopEval [x1; x2; x3; x4])
  = gen_result_default layer_default evqe_default g (PObj CPopEval [x1; x2; x3; x4]).
Proof.
  intros E1 E3. unfold gen_result_default.
  cbn [existsb gen_evqe_serializable_types is_instance orb is_none view_complex view_quasi view_circuit view_obj4 cls_eqb fst snd].
  rewrite E1, E3. reflexivity.
Qed.

Lemma result_solver_cong (f g : pyval -> result pyval) x1 x2 x3 x4 x5 x6 x7 x8 :
  f x1 = g x1 -> f x3 = g x3 -> f x4 = g x4 -> f x8 = g x8 -> (forall l, x7 = PList l -> Forall (fun x => f x = g x) l) ->
  gen_result_default layer_default evqe_default f (PObj CSolverResult [x1; x2; x3; x4; x5; x6; x7; x8])
  = gen_result_default layer_default evqe_default g (PObj CSolverResult [x1; x2; x3; x4; x5; x6; x7; x8]).
Proof.
  intros E1 E3 E4 E8 K7. unfold gen_result_default.
  cbn [existsb gen_evqe_serializable_types is_instance orb is_none view_complex view_quasi view_circuit view_obj4 view_obj8 cls_eqb fst snd].
  cbv zeta. rewrite E1, E3, E4, E8. bind_step. bind_step.
  assert (E : (if is_list x7
               then do it <- EvqeCodec.iter x7; do xs <- mapM (fun res => do v <- f res; Ok v) it; Ok (PList xs)
               else Ok PNone)
              = (if is_list x7
                 then do it <- EvqeCodec.iter x7; do xs <- mapM (fun res => do v <- g res; Ok v) it; Ok (PList xs)
                 else Ok PNone)).
  { destruct x7; try reflexivity. cbn [is_list view_list EvqeCodec.iter bind].
    rewrite !mapM_eta, (mapR_Forall _ _ _ (K7 _ eq_refl)). reflexivity. }
  rewrite E. reflexivity.
Qed.

Lemma link_result_default_unique : forall f : pyval -> result pyval,
  (forall o, f o = gen_result_default layer_default evqe_default f o) ->
  forall o, f o = result_default head_flags o.
Proof.
  intros f Hf. apply pyval_ind2. intros o IH. rewrite Hf.
  destruct o as [| | | | | | | | |c l]; try reflexivity.
  destruct c.
  1-12: reflexivity.
  1-3: rewrite <- link_result_default; reflexivity.
  - (* BasePopulationEvaluationResult *)
    destruct l as [|x1 [|x2 [|x3 [|x4 [|x5 l]]]]]; try reflexivity.
    inversion_clear IH as [|? ? [Q1 _] IH1]. inversion_clear IH1 as [|? ? _ IH2]. inversion_clear IH2 as [|? ? [Q3 _] _].
    rewrite <- link_result_default. apply result_popeval_cong; assumption.
  - (* EvolvingAnsatzMinimumEigensolverResult *)
    destruct l as [|x1 [|x2 [|x3 [|x4 [|x5 [|x6 [|x7 [|x8 [|x9 l]]]]]]]]].
    1-8: reflexivity. 2: reflexivity.
    inversion_clear IH as [|? ? [Q1 _] IH1]. inversion_clear IH1 as [|? ? _ IH2]. inversion_clear IH2 as [|? ? [Q3 _] IH3].
    inversion_clear IH3 as [|? ? [Q4 _] IH4]. inversion_clear IH4 as [|? ? _ IH5]. inversion_clear IH5 as [|? ? _ IH6].
    inversion_clear IH6 as [|? ? [_ K7] IH7]. inversion_clear IH7 as [|? ? [Q8 _] _].
    rewrite <- link_result_default.
    apply result_solver_cong; try assumption.
    intros l' ->. cbn [kids] in K7. exact K7.
Qed.
Print Assumptions link_result_default_unique.

(* ------------------------------------------------------------------ EvolvingAnsatzMinimumEigensolverResultJSONDecoder *)
Lemma link_parse_complex_number : forall d, gen_parse_complex_number d = parse_complex_number d.
Proof. parse_link gen_parse_complex_number parse_complex_number. Qed.
Print Assumptions link_parse_complex_number.

(* ------------------------------------------------------------------ parse_quasidistribution (format(key, f"0{num_bits}b"), idiom format-bin-zfill) *)
(* the translator's rendering against the model's (ResultCodec.v: pos_bin / bin_str / zeros / zfill), for the non-negative ints
   the views as_nonneg_int (spec) and key_nat (model) let through *)
Lemma bin_digits_pos_eq p : py_bin_digits_pos p = pos_bin p.
Proof. induction p as [p IH|p IH|]; cbn [py_bin_digits_pos pos_bin]; rewrite ?IH; reflexivity. Qed.

Lemma zeros_eq n : py_zeros n = zeros n.
Proof. induction n as [|n IH]; cbn [py_zeros zeros]; rewrite ?IH; reflexivity. Qed.

Lemma bin_str_digits k : 0 <= k -> bin_str k = Ok (py_bin_digits k).
Proof. intros Hk. destruct k as [|p|p]; [reflexivity|cbn [bin_str py_bin_digits]; f_equal; symmetry; apply bin_digits_pos_eq|lia]. Qed.

Lemma bstr_digits k : 0 <= k -> bstr k = py_bin_digits k.
Proof. intros Hk. unfold bstr. now rewrite (bin_str_digits k Hk). Qed.

(* 0 <= k: the view's guard; the width may be anything here (zfill pads only when it is larger than the digits) *)
Lemma format_bin_zfill_model k n : 0 <= k -> py_format_bin_zfill k n = zfill n (py_bin_digits k).
Proof. intros Hk. rewrite (py_format_bin_zfill_nonneg k n Hk). unfold zfill, slen, py_str_len. now rewrite zeros_eq. Qed.

(* one item of the comprehension: the generated element function against the model's *)
Definition gen_item (w : Z) (kv : pyval * pyval) : result (string * pyval) :=
  let '(key_, value_) := kv in
  do z4_ <- as_nonneg_int key_; do z5_ <- as_nonneg_int (PNum (NInt w)); do s6_ <- py_format_bin_fspec z4_ z5_; Ok (s6_, value_).

Lemma gen_item_spec w kv p : 0 <= w -> gen_item w kv = Ok p ->
  exists z, fst kv = PNum (NInt z) /\ 0 <= z /\ p = (zfill w (bstr z), snd kv).
Proof.
  intros Hw. destruct kv as [k v]. unfold gen_item, as_nonneg_int.
  replace (w <? 0) with false by (symmetry; apply Z.ltb_ge; exact Hw).
  destruct k as [| |[z|m e]| | | | | | |]; try discriminate. destruct (Z.ltb_spec z 0) as [Hz|Hz]; [discriminate|].
  cbn [bind]. rewrite (py_format_bin_fspec_nonneg z w Hw). cbn [bind]. intros E. injection E as <-.
  exists z. rewrite (format_bin_zfill_model z w Hz), (bstr_digits z Hz). repeat split; [exact Hz].
Qed.

Lemma gen_item_model w kv : 0 <= w ->
  (do k <- key_nat kv; do b <- bin_str k; Ok (PStr (zfill w b), snd kv)) = do p <- gen_item w kv; Ok (PStr (fst p), snd p).
Proof.
  intros Hw. destruct kv as [k v]. unfold gen_item, key_nat, as_nonneg_int. cbn [fst snd].
  replace (w <? 0) with false by (symmetry; apply Z.ltb_ge; exact Hw).
  destruct k as [| |[z|m e]| | | | | | |]; try reflexivity. destruct (Z.ltb_spec z 0) as [Hz|Hz]; [reflexivity|].
  cbn [bind]. rewrite (py_format_bin_fspec_nonneg z w Hw), (bin_str_digits z Hz), (format_bin_zfill_model z w Hz). reflexivity.
Qed.

Lemma mapM_items_model w kvs : 0 <= w ->
  mapM (fun kv : pyval * pyval => do k <- key_nat kv; do b <- bin_str k; Ok (PStr (zfill w b), snd kv)) kvs
  = do xs <- mapM (gen_item w) kvs; Ok (map (fun p => (PStr (fst p), snd p)) xs).
Proof.
  intros Hw. induction kvs as [|kv r IH]; [reflexivity|]. cbn [mapM]. rewrite (gen_item_model w kv Hw), IH.
  destruct (gen_item w kv) as [p|]; cbn [bind]; [|reflexivity]. destruct (mapM (gen_item w) r); reflexivity.
Qed.

(* different non-negative ints have different renderings of the same width (they parse back: Result_proofs.parse_zfill), so
   the comprehension {format(key, ...): value ...} merges nothing when the keys of `data` are pairwise different *)
Lemma gen_item_inj w kv kv' p p' : 0 <= w -> gen_item w kv = Ok p -> gen_item w kv' = Ok p' ->
  py_eqb (fst kv) (fst kv') = false -> String.eqb (fst p) (fst p') = false.
Proof.
  intros Hw E E' Hne. destruct (gen_item_spec w kv p Hw E) as (z & Hk & Hz & ->). destruct (gen_item_spec w kv' p' Hw E') as (z' & Hk' & Hz' & ->).
  rewrite Hk, Hk' in Hne. cbn [py_eqb num_pyeq] in Hne. cbn [fst]. apply String.eqb_neq. intros Heq.
  assert (P : parse_bits (zfill w (bstr z)) = parse_bits (zfill w (bstr z'))) by now rewrite Heq.
  rewrite !parse_zfill in P by (apply Z.leb_le; assumption). injection P as ->. now rewrite Z.eqb_refl in Hne.
Qed.

Lemma mapM_items_distinct w kvs : 0 <= w -> forall xs, mapM (gen_item w) kvs = Ok xs ->
  keys_distinct (map fst kvs) = true -> py_keys_distinct String.eqb (map fst xs).
Proof.
  intros Hw. induction kvs as [|kv r IH]; intros xs E Hd.
  - injection E as <-. exact I.
  - cbn [mapM] in E. destruct (gen_item w kv) as [p|] eqn:Ep; cbn [bind] in E; [|discriminate].
    destruct (mapM (gen_item w) r) as [ps|] eqn:Er; cbn [bind] in E; [|discriminate]. injection E as <-.
    cbn [map keys_distinct] in Hd. apply andb_true_iff in Hd as [Hh Hr]. cbn [map py_keys_distinct]. split; [|exact (IH ps eq_refl Hr)].
    clear IH Hr. revert ps Er Hh. induction r as [|kv' r IH]; intros ps Er Hh k' Hin.
    + injection Er as <-. destruct Hin.
    + cbn [mapM] in Er. destruct (gen_item w kv') as [p'|] eqn:Ep'; cbn [bind] in Er; [|discriminate].
      destruct (mapM (gen_item w) r) as [ps'|] eqn:Er'; cbn [bind] in Er; [|discriminate]. injection Er as <-.
      cbn [map forallb] in Hh. apply andb_true_iff in Hh as [H1 H2]. apply negb_true_iff in H1.
      destruct Hin as [<-|Hin]; [exact (gen_item_inj w kv kv' p p' Hw Ep Ep' H1)|exact (IH ps' eq_refl H2 k' Hin)].
Qed.

(* the stored width is None or a non-negative int: what the encoder writes (len(bitstrings[0]) / None) *)
Definition width_in_scope (v : pyval) : bool :=
  match v with PNone => true | PNum (NInt w) => 0 <=? w | _ => false end.

(* the `if num_bits is not None:` branch against the model's format_keys *)
Lemma format_keys_eq nb kvs : is_none nb = false -> keys_distinct (map fst kvs) = true -> (kvs = [] -> width_in_scope nb = true) ->
  (do v3_ <- pv_items (PDict kvs);
   do xs7_ <- mapM (fun '(key_, value_) => do z4_ <- as_nonneg_int key_; do z5_ <- as_nonneg_int nb; do s6_ <- py_format_bin_fspec z4_ z5_; Ok (s6_, value_)) v3_;
   Ok (sdict_to_py (fold_left (fun d_ kv_ => py_dict_set String.eqb d_ (fst kv_) (snd kv_)) xs7_ ([] : list (string * pyval)))))
  = format_keys nb (PDict kvs).
Proof.
  intros Hn Hd He. cbn [pv_items view_dict bind].
  assert (Bad : as_nonneg_int nb = Err ModelScope -> format_keys nb (PDict kvs) = Err ModelScope ->
          (do xs7_ <- mapM (fun '(key_, value_) => do z4_ <- as_nonneg_int key_; do z5_ <- as_nonneg_int nb; do s6_ <- py_format_bin_fspec z4_ z5_; Ok (s6_, value_)) kvs;
           Ok (sdict_to_py (fold_left (fun d_ kv_ => py_dict_set String.eqb d_ (fst kv_) (snd kv_)) xs7_ ([] : list (string * pyval)))))
          = format_keys nb (PDict kvs) \/ (kvs = [] /\ width_in_scope nb = false)).
  { intros E1 E2. destruct kvs as [|[k v] r]; [right; split; [reflexivity|]|left].
    - destruct nb as [| |[z|m e]| | | | | | |]; try reflexivity; [discriminate Hn|].
      unfold as_nonneg_int in E1. cbn [width_in_scope]. destruct (Z.ltb_spec z 0); [apply Z.leb_gt; assumption|discriminate].
    - rewrite E2. cbn [mapM]. rewrite E1. unfold as_nonneg_int at 1. destruct k as [| |[z|m e]| | | | | | |]; try reflexivity. destruct (z <? 0); reflexivity. }
  destruct nb as [| |[w|m e]| | | | | | |]; try discriminate Hn;
    try (destruct Bad as [B|[-> B]]; [reflexivity|reflexivity|exact B|rewrite (He eq_refl) in B; discriminate B]).
  destruct (Z.ltb_spec w 0) as [Hw|Hw].
  - destruct Bad as [B|[-> B]]; [unfold as_nonneg_int; now replace (w <? 0) with true by (symmetry; apply Z.ltb_lt; exact Hw)
                                |cbn [format_keys]; now replace (w <? 0) with true by (symmetry; apply Z.ltb_lt; exact Hw)
                                |exact B|rewrite (He eq_refl) in B; discriminate B].
  - clear Bad He. cbn [format_keys]. replace (w <? 0) with false by (symmetry; apply Z.ltb_ge; exact Hw).
    rewrite (mapM_items_model w kvs Hw).
    change (mapM (fun '(key_, value_) => do z4_ <- as_nonneg_int key_; do z5_ <- as_nonneg_int (PNum (NInt w)); do s6_ <- py_format_bin_fspec z4_ z5_; Ok (s6_, value_)) kvs)
      with (mapM (gen_item w) kvs).
    destruct (mapM (gen_item w) kvs) as [xs|] eqn:Ex; cbn [bind]; [|reflexivity].
    rewrite (py_dict_fold_distinct String.eqb xs []); [reflexivity|]. cbn [map app]. exact (mapM_items_distinct w kvs Hw xs Ex Hd).
Qed.

(* dict(x) answers a dict whose keys are pairwise different: for a list / tuple of pairs (what the encoder writes) dict() itself
   establishes it, a dict value is returned as it is *)
Lemma py_dict_is_dict x data : py_dict x = Ok data -> exists kvs, data = PDict kvs.
Proof.
  destruct x; cbn [py_dict]; try discriminate.
  1-2: destruct (pdict_of_items [] l) as [kvs|]; cbn [bind]; [|discriminate]; intros E; injection E as <-; now exists kvs.
  intros E; injection E as <-. now exists kvs.
Qed.

Lemma pdict_set_keys_forallb (P : pyval -> bool) r k v :
  forallb P (map fst r) = true -> P k = true -> forallb P (map fst (pdict_set r k v)) = true.
Proof.
  intros Hr Hk. induction r as [|[k' v'] r IH]; cbn [pdict_set map fst forallb]; [now rewrite Hk|].
  cbn [map fst forallb] in Hr. apply andb_true_iff in Hr as [H1 H2].
  destruct (py_eqb k' k); cbn [map fst forallb]; rewrite H1; [exact H2|exact (IH H2)].
Qed.

Lemma pdict_set_keys_distinct acc k v : keys_distinct (map fst acc) = true -> keys_distinct (map fst (pdict_set acc k v)) = true.
Proof.
  induction acc as [|[k' v'] r IH]; intros H; [reflexivity|]. cbn [pdict_set].
  destruct (py_eqb k' k) eqn:E; [exact H|]. cbn [map fst keys_distinct] in *. apply andb_true_iff in H as [H1 H2].
  rewrite (IH H2), andb_true_r. apply pdict_set_keys_forallb; [exact H1|now rewrite E].
Qed.

Lemma pdict_of_items_keys_distinct l : forall acc d,
  keys_distinct (map fst acc) = true -> pdict_of_items acc l = Ok d -> keys_distinct (map fst d) = true.
Proof.
  induction l as [|it r IH]; intros acc d Ha E; [injection E as <-; exact Ha|]. cbn [pdict_of_items] in E.
  destruct it as [| | | |l0|l0| | | |]; try discriminate.
  all: destruct l0 as [|k [|v [|? ?]]]; try discriminate.
  all: destruct (hashable k); [|discriminate]; exact (IH _ _ (pdict_set_keys_distinct acc k v Ha) E).
Qed.

Lemma py_dict_keys_distinct x kvs :
  (forall kvs0, x = PDict kvs0 -> keys_distinct (map fst kvs0) = true) -> py_dict x = Ok (PDict kvs) -> keys_distinct (map fst kvs) = true.
Proof.
  intros Hx. destruct x; cbn [py_dict]; try discriminate.
  1-2: destruct (pdict_of_items [] l) as [kvs0|] eqn:E; cbn [bind]; [|discriminate]; intros E'; injection E' as <-;
       exact (pdict_of_items_keys_distinct l [] kvs0 eq_refl E).
  intros E; injection E as <-. exact (Hx kvs0 eq_refl).
Qed.

(* HYPOTHESES of the link.
   quasi_data_wf: a DICT value stored under "quasidistribution_data" has pairwise different keys — the invariant of every Python
     dict (PyVal.v, PDict); for a list / tuple of pairs (what the encoder writes) nothing is assumed: dict(...) establishes it
     (py_dict_keys_distinct).  Needed because /repo's comprehension builds a dict (a repeated rendering would be merged), while the
     model's format_keys maps over the items.
   quasi_width_in_scope: for EMPTY data the stored width is None or a non-negative int.  A difference between model and code found
     by the link: /repo's comprehension formats nothing for empty data, so ANY stored width is accepted there, while the model's
     format_keys looks at the width first (ModelScope unless a non-negative int).  The encoder writes None for empty data. *)
Definition quasi_data_wf (d : sdict) : Prop :=
  forall kvs, dget "quasidistribution_data" d = Ok (PDict kvs) -> keys_distinct (map fst kvs) = true.
Definition quasi_width_in_scope (d : sdict) : Prop :=
  forall x, dget "quasidistribution_data" d = Ok x -> py_dict x = Ok (PDict []) ->
            width_in_scope (dget_or_none "quasidistribution_num_bits" d) = true.

Lemma link_parse_quasidistribution : forall d, quasi_data_wf d -> quasi_width_in_scope d ->
  gen_parse_quasidistribution d = parse_quasidistribution head_flags d.
Proof.
  intros d H1 H2. unfold quasi_data_wf, quasi_width_in_scope in *. unfold gen_parse_quasidistribution, parse_quasidistribution.
  rewrite !get_dget. cbn [legacy_width head_flags].
  destruct (dget "quasidistribution_data" d) as [x|] eqn:Ex; cbn [bind]; [|reflexivity].
  destruct (py_dict x) as [data|] eqn:Ed; cbn [bind]; [|reflexivity].
  destruct (py_dict_is_dict x data Ed) as [kvs ->]. cbv zeta.
  assert (Hd : keys_distinct (map fst kvs) = true) by (apply (py_dict_keys_distinct x kvs); [intros kvs0 ->; exact (H1 kvs0 eq_refl)|exact Ed]).
  assert (He : kvs = [] -> width_in_scope (dget_or_none "quasidistribution_num_bits" d) = true) by (intros ->; exact (H2 x eq_refl Ed)).
  clear H1 H2 Ex Ed. generalize dependent (dget_or_none "quasidistribution_num_bits" d). intros nb He.
  destruct (is_none nb) eqn:En; cbn [negb].
  - destruct nb; try discriminate En. cbn [bind]. destruct (dget "quasidistribution_shots" d); cbn [bind]; [|reflexivity]. destruct (dget "quasidistribution_stdev_bound" d); cbn [bind]; [|reflexivity]. apply bind_ok.
  - destruct nb; try discriminate En; rewrite (format_keys_eq _ kvs En Hd He);
      (destruct (format_keys _ (PDict kvs)); cbn [bind]; [|reflexivity]; cbn [bind]; destruct (dget "quasidistribution_shots" d); cbn [bind]; [|reflexivity]; destruct (dget "quasidistribution_stdev_bound" d); cbn [bind]; [|reflexivity]; apply bind_ok).
Qed.
Print Assumptions link_parse_quasidistribution.

(* BytesIO / b64decode / qpy_load are opaque: the text IS the circuit token *)
Lemma link_parse_quantum_circuit : forall d, gen_parse_quantum_circuit d = parse_quantum_circuit d.
Proof.
  intros d. unfold gen_parse_quantum_circuit, parse_quantum_circuit. abs_keys d. dict_norm. bind_step.
  destruct x; reflexivity.
Qed.
Print Assumptions link_parse_quantum_circuit.

Lemma link_parse_base_population_evaluation : forall d, gen_parse_base_population_evaluation d = parse_base_population_evaluation d.
Proof. parse_link gen_parse_base_population_evaluation parse_base_population_evaluation. Qed.
Print Assumptions link_parse_base_population_evaluation.

Lemma pget_eq (kvs : list (pyval * pyval)) (k : pyval) : py_dict_get py_eqb kvs k = pdict_get k kvs.
Proof.
  unfold py_dict_get. induction kvs as [|[k' v] t IH]; [reflexivity|].
  cbn [find fst snd pdict_get]. destruct (py_eqb k' k); [reflexivity|exact IH].
Qed.

Lemma unwrap_eq (a : pyval) :
  match view_dict a with
  | Some kvs =>
      do t <- py_dict_get py_eqb kvs (PStr "type");
      do j <- (if py_eqb t (PStr "list")
               then do v <- py_dict_get py_eqb kvs (PStr "values"); Ok v
               else do t' <- py_dict_get py_eqb kvs (PStr "type");
                    do j' <- (if py_eqb t' (PStr "dict")
                              then do v <- py_dict_get py_eqb kvs (PStr "values"); do w <- py_dict v; Ok w
                              else Ok PNone);
                    Ok j');
      Ok j
  | None => Ok PNone
  end = unwrap_aux a.
Proof.
  assert (E : forall kvs,
    (do t <- py_dict_get py_eqb kvs (PStr "type");
     do j <- (if py_eqb t (PStr "list")
              then do v <- py_dict_get py_eqb kvs (PStr "values"); Ok v
              else do t' <- py_dict_get py_eqb kvs (PStr "type");
                   do j' <- (if py_eqb t' (PStr "dict")
                             then do v <- py_dict_get py_eqb kvs (PStr "values"); do w <- py_dict v; Ok w
                             else Ok PNone);
                   Ok j');
     Ok j) = unwrap_aux (PDict kvs)).
  { intros kvs. cbn [unwrap_aux]. unfold EvqeCodec.K. rewrite !pget_eq.
    destruct (pdict_get (PStr "type") kvs) as [t|]; cbn [bind]; [|reflexivity].
    destruct (py_eqb t (PStr "list")); [rewrite !bind_ok; reflexivity|].
    destruct (py_eqb t (PStr "dict")); [|reflexivity].
    destruct (pdict_get (PStr "values") kvs) as [v|]; cbn [bind]; [|reflexivity]. rewrite !bind_ok. reflexivity. }
  destruct a as [| | | | | |kvs| | |c l]; try reflexivity.
  - cbn [view_dict]. apply E.
  - destruct c; try reflexivity. destruct l as [|x l]; [reflexivity|]. destruct x; try reflexivity.
    cbn [view_dict]. rewrite E. reflexivity.
Qed.

Lemma link_parse_evolving_ansatz_result : forall d,
  gen_parse_evolving_ansatz_result d = parse_evolving_ansatz_result head_flags d.
Proof.
  intros d. unfold gen_parse_evolving_ansatz_result, parse_evolving_ansatz_result. abs_keys d. dict_norm. cbv zeta.
  bind_step. destruct (dget k0 d) as [a|] eqn:Ea; cbn [bind]; [|reflexivity].
  rewrite (unwrap_eq a). repeat bind_step. reflexivity.
Qed.
Print Assumptions link_parse_evolving_ansatz_result.

(* the hypotheses are those of link_parse_quasidistribution (the hook hands its argument on unchanged) *)
Lemma link_result_hook : forall d, quasi_data_wf d -> quasi_width_in_scope d -> gen_result_hook d = result_hook head_flags d.
Proof.
  intros d Hq1 Hq2. unfold gen_result_hook, result_hook. rewrite (link_parse_evolving_ansatz_result d), (link_parse_quasidistribution d Hq1 Hq2).
  rewrite !any_key_eq.
  match goal with |- context [any_key_in (?x :: ?t) d] => change (x :: t) with result_own_keys end.
  generalize (parse_quasidistribution head_flags d). intros pq.
  gen_keys d. dict_norm.
  rewrite link_evqe_hook, link_parse_complex_number, link_parse_quantum_circuit,
    link_parse_base_population_evaluation. reflexivity.
Qed.
Print Assumptions link_result_hook.
