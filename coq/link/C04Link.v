(* C04 — link between the Gallina GENERATED from /repo's current quantum_gate.py, circuit_layer.py and (the two circuit
   functions of) individual.py (build/gen*/QVGen/C04Gen.v, written by translator/py2gallina.py on every check) and the
   hand-written models coq/theories/Evqe/{Genome,Names,Circuit}.v the C04 theorems are about.  One lemma link_<function>
   per translated function, each followed by Print Assumptions.  Compiled by harness/vlib/translate.py; NOT part of
   coq/theories because it depends on the generated module.  The circuit functions take the type V of the parameter
   values as first argument.  The gate / layer lemmas of the first part are those of coq/link/C16Link.v, over C04Gen. *)
From QV Require Import Evqe.Genome Evqe.GenomeFacts Evqe.GenomeOps_proofs Evqe.Names Evqe.Circuit Translate.C16Aux Translate.C04Aux.
From QV Require Import Translate.PyPrelude Translate.PyPrelude_proofs.
From QVGen Require Import C04Gen.
Open Scope Z_scope.

Lemma bind_ret {A} (r : result A) : (do v <- r; Ok v) = r.
Proof. destruct r; reflexivity. Qed.

Lemma py_len_of_nat {A} (l : list A) : py_len l = Z.of_nat (length l).
Proof. reflexivity. Qed.

(* ================================================================== gates and layers: structure (as in C16Link.v) *)
Lemma link_IdentityGate_n_parameters : forall q, gen_IdentityGate_n_parameters = gate_n_parameters (GId q).
Proof. reflexivity. Qed.
Print Assumptions link_IdentityGate_n_parameters.
Lemma link_RotationGate_n_parameters : forall q, gen_RotationGate_n_parameters = gate_n_parameters (GRot q).
Proof. reflexivity. Qed.
Print Assumptions link_RotationGate_n_parameters.
Lemma link_ControlGate_n_parameters : forall q t, gen_ControlGate_n_parameters = gate_n_parameters (GCtrl q t).
Proof. reflexivity. Qed.
Print Assumptions link_ControlGate_n_parameters.
Lemma link_ControlledRotationGate_n_parameters : forall q c, gen_ControlledRotationGate_n_parameters = gate_n_parameters (GCRot q c).
Proof. reflexivity. Qed.
Print Assumptions link_ControlledRotationGate_n_parameters.

Lemma gate_n_parameters_dispatch g :
  match g with GId _ => gen_IdentityGate_n_parameters | GRot _ => gen_RotationGate_n_parameters
             | GCtrl _ _ => gen_ControlGate_n_parameters | GCRot _ _ => gen_ControlledRotationGate_n_parameters end
  = gate_n_parameters g.
Proof. destruct g; reflexivity. Qed.

Lemma link_Layer_is_valid : forall l, gen_Layer_is_valid l = layer_is_valid l.
Proof.
  intros l. unfold gen_Layer_is_valid, layer_is_valid. rewrite py_len_of_nat.
  destruct (negb (Z.of_nat (length (l_gates l)) =? l_qubits l)); [reflexivity|]. unfold py_enumerate.
  rewrite (layer_valid_loop (l_gates l)).
  - change (Z.of_nat 0) with 0. destruct (gates_valid_from (l_gates l) 0 (l_gates l)) as [[|]|e]; reflexivity.
  - intros idx g. unfold gate_valid_at. change (@PyPrelude.py_index gate) with (@Genome.py_index gate).
    destruct (negb (idx =? gate_qubit g)); [reflexivity|].
    destruct g as [q|q|q t|q c]; cbn [is_controlled is_control gate_control_qubit_index gate_controlled_qubit_index bind ctl_of_valid];
      try reflexivity.
    + destruct (Genome.py_index (l_gates l) t) as [[q'|q'|q' t'|q' c']|e]; cbn [bind is_controlled gate_control_qubit_index negb ctl_of_valid]; try reflexivity.
      destruct (c' =? idx); reflexivity.
    + destruct (Genome.py_index (l_gates l) c) as [[q'|q'|q' t'|q' c']|e]; cbn [bind is_control gate_controlled_qubit_index negb ctl_of_valid]; try reflexivity.
      destruct (t' =? idx); reflexivity.
Qed.
Print Assumptions link_Layer_is_valid.

Lemma link_Layer_post_init : forall l,
  gen_Layer_post_init l
  = do v <- layer_is_valid l;
    if v then Ok (mkLayerCache (layer_n_parameters l) (layer_n_controlled l)) else Err LayerException.
Proof.
  intros l. unfold gen_Layer_post_init. rewrite link_Layer_is_valid. cbv zeta.
  destruct (layer_is_valid l) as [[|]|e]; cbn [bind negb]; try reflexivity.
  f_equal. f_equal.
  - rewrite py_sum_Z_sumZ. unfold layer_n_parameters. apply (f_equal sumZ). apply map_ext. exact gate_n_parameters_dispatch.
  - rewrite (sum_ones (filter _ (l_gates l))). reflexivity.
Qed.
Print Assumptions link_Layer_post_init.

Lemma link_Layer_n_parameters : forall l, gen_Layer_n_parameters l = layer_n_parameters l.
Proof. reflexivity. Qed.
Print Assumptions link_Layer_n_parameters.
Lemma link_Layer_n_controlled_gates : forall l, gen_Layer_n_controlled_gates l = layer_n_controlled l.
Proof. reflexivity. Qed.
Print Assumptions link_Layer_n_controlled_gates.

(* ================================================================== apply_gate: instructions and parameter NAMES *)
(* each class's apply_gate appends the model's instructions of the gate that represents an object of that class; the
   parameter names are those of Names.v (param_name) for the prefix given as a Python string *)
Lemma link_IdentityGate_apply_gate : forall V q (c : circuit V) p,
  gen_IdentityGate_apply_gate V (GId q) c p = Ok (c ++ gate_instrs (pyname p) (GId q)).
Proof. reflexivity. Qed.
Print Assumptions link_IdentityGate_apply_gate.

Lemma link_RotationGate_apply_gate : forall V q (c : circuit V) p,
  gen_RotationGate_apply_gate V (GRot q) c p = Ok (c ++ gate_instrs (pyname p) (GRot q)).
Proof.
  intros V q c p. unfold gen_RotationGate_apply_gate, qc_u. cbn [gate_qubit gate_instrs].
  rewrite (pyname_param p q "_theta" s_theta), (pyname_param p q "_phi" s_phi), (pyname_param p q "_lambda" s_lambda) by reflexivity.
  reflexivity.
Qed.
Print Assumptions link_RotationGate_apply_gate.

Lemma link_ControlGate_apply_gate : forall V q t (c : circuit V) p,
  gen_ControlGate_apply_gate V (GCtrl q t) c p = Ok (c ++ gate_instrs (pyname p) (GCtrl q t)).
Proof. intros. unfold gen_ControlGate_apply_gate. cbn [gate_instrs]. rewrite app_nil_r. reflexivity. Qed.
Print Assumptions link_ControlGate_apply_gate.

Lemma link_ControlledRotationGate_apply_gate : forall V q ctl (c : circuit V) p,
  gen_ControlledRotationGate_apply_gate V (GCRot q ctl) c p = Ok (c ++ gate_instrs (pyname p) (GCRot q ctl)).
Proof.
  intros V q ctl c p. unfold gen_ControlledRotationGate_apply_gate, qc_append_cu3.
  cbn [gate_control_qubit_index bind gate_qubit gate_instrs fst snd cu3_theta cu3_phi cu3_lam].
  rewrite (pyname_param p q "_theta" s_theta), (pyname_param p q "_phi" s_phi), (pyname_param p q "_lambda" s_lambda) by reflexivity.
  reflexivity.
Qed.
Print Assumptions link_ControlledRotationGate_apply_gate.

(* gate.apply_gate(circuit=, parameter_name_prefix=) on an EVQEGate (dispatch-by-constructor) *)
Lemma apply_gate_dispatch V g (c : circuit V) p :
  match g with
  | GId _ => gen_IdentityGate_apply_gate V g c p | GRot _ => gen_RotationGate_apply_gate V g c p
  | GCtrl _ _ => gen_ControlGate_apply_gate V g c p | GCRot _ _ => gen_ControlledRotationGate_apply_gate V g c p
  end = Ok (c ++ gate_instrs (pyname p) g).
Proof.
  destruct g; [apply link_IdentityGate_apply_gate | apply link_RotationGate_apply_gate
              | apply link_ControlGate_apply_gate | apply link_ControlledRotationGate_apply_gate].
Qed.

(* ================================================================== layer circuits *)
Lemma apply_loop V p (gs : list gate) : forall (c : circuit V),
  py_foldM (fun (c : circuit V) g =>
      do v <- match g with
              | GId _ => gen_IdentityGate_apply_gate V g c p | GRot _ => gen_RotationGate_apply_gate V g c p
              | GCtrl _ _ => gen_ControlGate_apply_gate V g c p | GCRot _ _ => gen_ControlledRotationGate_apply_gate V g c p
              end; Ok v) gs c
  = Ok (c ++ flat_map (gate_instrs (pyname p)) gs).
Proof.
  induction gs as [|g t IH]; intros c; [cbn; rewrite app_nil_r; reflexivity|].
  cbn [py_foldM flat_map]. rewrite apply_gate_dispatch. cbn [bind]. rewrite IH, <- app_assoc. reflexivity.
Qed.

(* get_parameterized_layer_circuit: for every integer layer id the instructions of the model's layer circuit, with the
   REPAIRED prefix layer{layer_id:06d}_ (legacy = false) *)
(* Hypothesis 0 <= layer_id: layer ids are positions in the layers tuple.  For a negative id CPython's {layer_id:06d}
   counts the sign towards the width ("-00042"), which Names.v's pad6 does not model (C04Aux.pad6_py does). *)
Lemma link_get_parameterized_layer_circuit : forall V l layer_id, 0 <= layer_id ->
  gen_get_parameterized_layer_circuit V l layer_id
  = Ok (flat_map (gate_instrs (V := V) (layer_prefix false layer_id)) (l_gates l)).
Proof.
  intros V l id Hid. unfold gen_get_parameterized_layer_circuit. cbv zeta.
  rewrite (apply_loop V _ (l_gates l)). cbn [bind]. rewrite (pyname_layer_prefix _ Hid). reflexivity.
Qed.
Print Assumptions link_get_parameterized_layer_circuit.

(* ... which for the layer ids that occur (positions in the layers tuple) is Circuit.layer_circuit *)
Lemma link_get_parameterized_layer_circuit_model : forall V l (k : nat),
  gen_get_parameterized_layer_circuit V l (Z.of_nat k) = Ok (layer_circuit false k l).
Proof. intros. apply link_get_parameterized_layer_circuit. apply Nat2Z.is_nonneg. Qed.
Print Assumptions link_get_parameterized_layer_circuit_model.

Lemma link_get_parameterized_layer_gate : forall V l (k : nat),
  gen_get_parameterized_layer_gate V l (Z.of_nat k) = Ok (layer_circuit false k l).
Proof. intros. unfold gen_get_parameterized_layer_gate. rewrite link_get_parameterized_layer_circuit_model. reflexivity. Qed.
Print Assumptions link_get_parameterized_layer_gate.

Lemma link_get_layer_gate : forall V l (k : nat) (vs : list V),
  gen_get_layer_gate V l (Z.of_nat k) vs = layer_gate false k l vs.
Proof.
  intros. unfold gen_get_layer_gate, layer_gate, gen_Layer_n_parameters. rewrite py_len_of_nat.
  destruct (negb _); [reflexivity|]. rewrite link_get_parameterized_layer_circuit_model. cbn [bind]. cbv zeta.
  unfold qc_assign. rewrite bind_ret. reflexivity.
Qed.
Print Assumptions link_get_layer_gate.

(* ================================================================== circuits of an individual (individual.py) *)
Lemma of_nat_eqb a b : Z.eqb (Z.of_nat a) (Z.of_nat b) = Nat.eqb a b.
Proof. destruct (Nat.eqb_spec a b); [apply Z.eqb_eq | apply Z.eqb_neq]; lia. Qed.

(* {layer_id % len(self.layers) for layer_id in parameterized_layers} *)
Lemma wrap_mapM {V} (i : individual V) (S : list Z) : i_layers i <> [] ->
  mapM (fun layer_id => do d <- py_mod layer_id (py_len (i_layers i)); Ok d) S = Ok (map Z.of_nat (wrap_set i S)).
Proof.
  intros NE. assert (H : 0 < py_len (i_layers i)) by (unfold py_len; destruct (i_layers i); [congruence | cbn [length]; lia]).
  induction S as [|x t IH]; [reflexivity|]. cbn [mapM map wrap_set]. rewrite IH. unfold py_mod.
  replace (py_len (i_layers i) =? 0) with false by (symmetry; apply Z.eqb_neq; lia).
  cbn [bind]. unfold wrap_set, wrap_layer_id. fold (py_len (i_layers i)).
  pose proof (Z.mod_pos_bound x (py_len (i_layers i)) H). rewrite Z2Nat.id by lia. reflexivity.
Qed.

(* i in parameterized_layers *)
Lemma mem_wrapped k (l : list nat) : py_mem Z.eqb (Z.of_nat k) (map Z.of_nat l) = mem_nat k l.
Proof. unfold py_mem, mem_nat. induction l as [|x t IH]; [reflexivity|]. cbn [map existsb]. rewrite of_nat_eqb, IH. reflexivity. Qed.

(* tuple(v for j, v in enumerate(self.parameter_values) if j in self.layer_parameter_indices[k]) = the layer's slice *)
Lemma select_values {V} (i : individual V) k : (k < length (i_layers i))%nat ->
  (do kept <- py_filterM (fun p : Z * V => let '(j, _) := p in
                do dv <- py_dict_get Z.eqb (lpi_of (i_layers i)) (Z.of_nat k); Ok (py_mem Z.eqb j dv)) (py_enumerate (i_values i));
   Ok (map (fun p : Z * V => let '(_, v) := p in v) kept))
  = Ok (layer_values i k).
Proof.
  intros R.
  rewrite (py_filterM_total _ (fun p : Z * V => let '(j, _) := p in
             py_mem Z.eqb j (PyPrelude.py_range (Z.of_nat (layer_offset (i_layers i) k))
                                (Z.of_nat (layer_offset (i_layers i) k) + Z.of_nat (layer_count (i_layers i) k)))))
    by (intros [j v]; rewrite (lpi_get _ _ R); reflexivity).
  cbn [bind]. rewrite enumerate_window. reflexivity.
Qed.

(* the loop over enumerate(self.layers) from position s on, for ANY loop body that treats one (index, layer) pair like
   one step of the model's pp_blocks and appends the block *)
Lemma pp_loop {V} (i : individual V) (S' : list nat) (body : circuit V -> Z * layer -> result (circuit V)) :
  (forall k l acc, (k < length (i_layers i))%nat ->
     body acc (Z.of_nat k, l)
     = do b <- (if mem_nat k S' then Ok (layer_circuit false k l) else layer_gate false k l (layer_values i k)); Ok (acc ++ b)) ->
  forall (t : list layer) s acc, (s + length t <= length (i_layers i))%nat ->
  py_foldM body (combine (map Z.of_nat (seq s (length t))) t) acc
  = do bs <- pp_blocks false i S' s t; Ok (acc ++ concat bs).
Proof.
  intros H. induction t as [|l t IH]; intros s acc Hs; [cbn; rewrite app_nil_r; reflexivity|].
  cbn [length] in Hs. cbn [length seq map combine py_foldM pp_blocks]. rewrite H by lia.
  destruct (if mem_nat s S' then Ok (layer_circuit false s l) else layer_gate false s l (layer_values i s)) as [b|e]; [|reflexivity].
  cbn [bind]. rewrite IH by lia. destruct (pp_blocks false i S' (S s) t) as [bs|e]; [|reflexivity].
  cbn [bind concat]. rewrite app_assoc. reflexivity.
Qed.

(* Hypothesis: the individual has at least one layer — established by EVQEIndividual's constructor (is_valid); without
   layers Python raises IndexError at self.layers[0] where the model returns the empty circuit.
   `parameterized_layers` is the list of the elements of the set argument (spec). *)
Lemma link_get_partially_parameterized_quantum_circuit : forall V (i : individual V) (S : list Z),
  i_layers i <> [] ->
  gen_get_partially_parameterized_quantum_circuit V i S = partially_parameterized false i S.
Proof.
  intros V i S NE. unfold gen_get_partially_parameterized_quantum_circuit, partially_parameterized.
  assert (I0 : exists l0, PyPrelude.py_index (i_layers i) 0 = Ok l0).
  { destruct (i_layers i) as [|l0 t0]; [congruence|]. exists l0. reflexivity. }
  destruct I0 as [l0 ->]. cbn [bind]. cbv zeta. rewrite (wrap_mapM i S NE). cbn [bind]. unfold py_enumerate, qc_empty.
  rewrite (pp_loop i (wrap_set i S)) with (s := 0%nat); [ | | cbn [Nat.add]; lia].
  - destruct (pp_blocks false i (wrap_set i S) 0 (i_layers i)) as [bs|e]; reflexivity.
  - intros k l acc R. rewrite mem_wrapped. destruct (mem_nat k (wrap_set i S)).
    + rewrite link_get_parameterized_layer_gate. reflexivity.
    + fold (py_enumerate (i_values i)). rewrite (select_values i k R). cbn [bind]. rewrite link_get_layer_gate.
      destruct (layer_gate false k l (layer_values i k)); reflexivity.
Qed.
Print Assumptions link_get_partially_parameterized_quantum_circuit.

(* range(0, len(self.layers)) *)
Lemma range_all_layers {V} (i : individual V) : PyPrelude.py_range 0 (py_len (i_layers i)) = all_layers i.
Proof. rewrite py_len_of_nat. exact (py_range_nat 0 (length (i_layers i))). Qed.

(* same hypothesis *)
Lemma link_get_parameterized_quantum_circuit : forall V (i : individual V),
  i_layers i <> [] ->
  gen_get_parameterized_quantum_circuit V i = parameterized false i.
Proof.
  intros V i NE. unfold gen_get_parameterized_quantum_circuit, parameterized.
  rewrite range_all_layers, (link_get_partially_parameterized_quantum_circuit V i _ NE). apply bind_ret.
Qed.
Print Assumptions link_get_parameterized_quantum_circuit.
