(* C10 / C11 — link between the Gallina GENERATED from /repo's current
   queasars/minimum_eigensolvers/evqe/evolutionary_algorithm/{speciation,selection,mutation}.py
   (build/gen*/QVGen/C10Gen.v, written by translator/py2gallina.py on every check) and the hand-written models
   coq/theories/Evqe/{Population,Speciation,Selection,Mutation,Heap}.v the C10 / C11 theorems are about.
   One lemma link_<function> per translated function, each followed by Print Assumptions.  Compiled by
   harness/vlib/translate.py; NOT part of coq/theories because it depends on the generated module.

   Premise of the speciation and selection lemmas: `ieq x y = true -> ieq y x = true` — Python's `==` on EVQEIndividual objects
   (hash equality) is symmetric; it is one of the three hypotheses of every C10 theorem (Props/C10.v), and
   C10_eq_is_equivalence proves it for the implementation's equality individual_heq.  It is needed because CPython's
   dict compares `stored_key == key` (PyPrelude.py_dict_get) while the model's dict_get compares `key == stored_key`. *)
From QV Require Import Evqe.Heap Evqe.Heap_proofs Translate.C10Aux.
From QV Require Import Translate.PyPrelude Translate.PyPrelude_proofs.
From QVGen Require Import C10Gen.
Open Scope Z_scope.

(* ------------------------------------------------------------------ Python ints (Z) vs the model's indices (nat) *)
Definition memZ {V} (d : list (individual V * list nat)) : list (individual V * list Z) :=
  map (fun rm => (fst rm, map Z.of_nat (snd rm))) d.
Definition mshZ {V} (d : list (nat * individual V)) : list (Z * individual V) :=
  map (fun ir => (Z.of_nat (fst ir), snd ir)) d.

Lemma of_nat_eqb a b : Z.eqb (Z.of_nat a) (Z.of_nat b) = Nat.eqb b a.
Proof.
  apply eq_true_iff_eq. rewrite Z.eqb_eq, Nat.eqb_eq. split; [intros H; apply Nat2Z.inj in H; auto | intros ->; reflexivity].
Qed.

Lemma py_index_of_nat {A} (l : list A) (n : nat) : py_index l (Z.of_nat n) = nth_r l n.
Proof.
  unfold py_index, nth_r, py_len. cbv zeta.
  assert (E : (Z.of_nat n <? 0) = false) by (apply Z.ltb_ge; lia). rewrite E. cbv iota. rewrite E. cbn [orb].
  rewrite Nat2Z.id. destruct (Z.of_nat (length l) <=? Z.of_nat n) eqn:L.
  - apply Z.leb_le in L. assert (L' : (length l <= n)%nat) by lia. apply nth_error_None in L'. rewrite L'. reflexivity.
  - reflexivity.
Qed.

Lemma set_cell_same {V} (h : @heap V) l c : nth_error h l = Some c -> set_cell h l c = h.
Proof. revert l. induction h as [|x t IH]; intros [|l] H; cbn in *; try discriminate; [congruence | f_equal; auto]. Qed.

Lemma set_cell_nth {V} (h : @heap V) l c c' : nth_error h l = Some c -> nth_error (set_cell h l c') l = Some c'.
Proof. revert l. induction h as [|x t IH]; intros [|l] H; cbn in *; try discriminate; [reflexivity | eauto]. Qed.

Lemma set_cell_twice {V} (h : @heap V) l c c' : set_cell (set_cell h l c) l c' = set_cell h l c'.
Proof. revert l. induction h as [|x t IH]; intros [|l]; cbn; try reflexivity. f_equal. auto. Qed.

Lemma set_cell_last {V} (h : @heap V) c c' : set_cell (h ++ [c]) (length h) c' = (h ++ [c'])%list.
Proof. induction h as [|x t IH]; cbn; [reflexivity | f_equal; auto]. Qed.

Lemma nth_error_last {A} (h : list A) c : nth_error (h ++ [c]) (length h) = Some c.
Proof. induction h; cbn; auto. Qed.

Section Speciation.
  Context {V : Type} (ieq : individual V -> individual V -> bool).
  Context (ieq_sym : forall x y, ieq x y = true -> ieq y x = true).
  Notation ind := (individual V).

  Lemma ieq_comm x y : ieq x y = ieq y x.
  Proof.
    destruct (ieq x y) eqn:A; destruct (ieq y x) eqn:B; try reflexivity.
    - apply ieq_sym in A. congruence.
    - apply ieq_sym in B. congruence.
  Qed.

  (* ---------------------------------------------------------------- dicts keyed by individuals *)
  Lemma py_get_memZ (d : list (ind * list nat)) k :
    py_dict_get ieq (memZ d) k = match dict_get ieq d k with Some l => Ok (map Z.of_nat l) | None => Err "KeyError"%string end.
  Proof.
    unfold py_dict_get. induction d as [|[k' v] t IH]; [reflexivity|].
    cbn [memZ map find fst snd dict_get]. rewrite (ieq_comm k' k). destruct (ieq k k'); [reflexivity | exact IH].
  Qed.

  Lemma py_set_memZ (d : list (ind * list nat)) k l :
    py_dict_set ieq (memZ d) k (map Z.of_nat l) = memZ (dict_set ieq d k l).
  Proof.
    induction d as [|[k' v] t IH]; [reflexivity|].
    cbn [memZ map py_dict_set fst snd dict_set]. rewrite (ieq_comm k' k). destruct (ieq k k'); cbn [map fst snd]; [reflexivity|].
    f_equal. exact IH.
  Qed.

  Lemma py_mem_memZ (d : list (ind * list nat)) k :
    py_mem ieq k (py_dict_keys (memZ d)) = match dict_get ieq d k with Some _ => true | None => false end.
  Proof.
    unfold py_mem, py_dict_keys. induction d as [|[k' v] t IH]; [reflexivity|].
    cbn [memZ map existsb fst snd dict_get]. destruct (ieq k k'); [reflexivity | exact IH].
  Qed.

  Lemma py_set_mshZ (d : list (nat * ind)) m r : py_dict_set Z.eqb (mshZ d) (Z.of_nat m) r = mshZ (dict_set Nat.eqb d m r).
  Proof.
    induction d as [|[k' v] t IH]; [reflexivity|].
    cbn [mshZ map py_dict_set fst snd dict_set]. rewrite of_nat_eqb. destruct (Nat.eqb m k'); cbn [map fst snd]; [reflexivity|].
    f_equal. exact IH.
  Qed.

  (* {representative: [] for representative in cell} *)
  Lemma init_members_link (cell : list ind) : forall d,
    fold_left (fun d_ (kv_ : ind * list Z) => py_dict_set ieq d_ (fst kv_) (snd kv_)) (map (fun r : ind => (r, [])) cell) (memZ d)
    = memZ (fold_left (fun d r => dict_set ieq d r []) cell d).
  Proof.
    induction cell as [|r t IH]; intros d; [reflexivity|].
    cbn [map fold_left fst snd]. change (@nil Z) with (map Z.of_nat []). rewrite (py_set_memZ d r []). apply IH.
  Qed.

  (* ---------------------------------------------------------------- phase 1, inner loop: find_rep *)
  Definition st1 : Type := (list (ind * list Z) * list (Z * ind) * bool * hstate V)%type.

  Lemma inner_loop thr x (i : nat) (body : ind -> st1 -> result (st1 * bool)) :
    (forall r sm sms found st0,
        body r (sm, sms, found, st0)
        = if close_to ieq thr x r
          then do cur <- py_dict_get ieq sm r;
               Ok ((py_dict_set ieq sm r (cur ++ [Z.of_nat i])%list, py_dict_set Z.eqb sms (Z.of_nat i) r, true, st0), true)
          else Ok ((sm, sms, found, st0), false)) ->
    forall reps mem msh st,
      py_for_breakM reps body (memZ mem, msh, false, st)
      = match find_rep ieq thr x reps with
        | Some r => do l <- dict_at ieq mem r;
                    Ok (memZ (dict_set ieq mem r (l ++ [i])%list), py_dict_set Z.eqb msh (Z.of_nat i) r, true, st)
        | None => Ok (memZ mem, msh, false, st)
        end.
  Proof.
    intros Hb. induction reps as [|r t IH]; intros mem msh st; [reflexivity|].
    cbn [py_for_breakM find_rep]. rewrite Hb. destruct (close_to ieq thr x r).
    - rewrite py_get_memZ. unfold dict_at. destruct (dict_get ieq mem r) as [l|]; cbn [bind]; [|reflexivity].
      replace (map Z.of_nat l ++ [Z.of_nat i])%list with (map Z.of_nat (l ++ [i])%list) by (rewrite map_app; reflexivity).
      rewrite py_set_memZ. reflexivity.
    - apply IH.
  Qed.

  (* ---------------------------------------------------------------- phase 1, outer loop: assign_all *)
  Definition st2 : Type := (list (ind * list Z) * list (Z * ind) * nat * hstate V)%type.

  Definition phase1_result (ref : nat) (h : @heap V) (s : ostream) (msh' : list (Z * ind))
             (r : result (list ind * list (ind * list nat))) : result st2 :=
    match r with
    | Ok (cell', mem') => Ok (memZ mem', msh', ref, (set_cell h ref cell', s))
    | Err e => Err e
    end.

  Lemma outer_loop thr (body : st2 -> Z * ind -> result st2) :
    (forall mem msh ref h s i x cell, nth_error h ref = Some cell ->
        exists msh', body (memZ mem, msh, ref, (h, s)) (Z.of_nat i, x) = phase1_result ref h s msh' (assign_one ieq thr (cell, mem) i x)) ->
    forall xs i mem msh ref h s cell, nth_error h ref = Some cell ->
      exists msh', py_foldM body (combine (map Z.of_nat (seq i (length xs))) xs) (memZ mem, msh, ref, (h, s))
                   = phase1_result ref h s msh' (assign_all ieq thr (cell, mem) i xs).
  Proof.
    intros Hb. induction xs as [|x t IH]; intros i mem msh ref h s cell Hc.
    - exists msh. cbn. rewrite (set_cell_same _ _ _ Hc). reflexivity.
    - cbn [length seq map combine py_foldM assign_all].
      destruct (Hb mem msh ref h s i x cell Hc) as [msh1 E1]. rewrite E1.
      destruct (assign_one ieq thr (cell, mem) i x) as [[cell' mem']|e]; cbn [phase1_result bind]; [|exists msh; reflexivity].
      destruct (IH (S i) mem' msh1 ref (set_cell h ref cell') s cell' (set_cell_nth _ _ _ _ Hc)) as [msh2 E2].
      exists msh2. refine (eq_trans E2 _). destruct (assign_all ieq thr (cell', mem') (S i) t) as [[c2 m2]|e]; cbn [phase1_result]; [|reflexivity].
      rewrite set_cell_twice. reflexivity.
  Qed.

  (* ---------------------------------------------------------------- phase 2: rekey *)
  Definition st3 : Type := (list (ind * list Z) * hstate V)%type.

  Lemma rekey_loop (inds : list ind) (body : st3 -> list Z -> result st3) :
    (forall new h s members,
        body (memZ new, (h, s)) (map Z.of_nat members)
        = if Nat.eqb (length members) 0 then Ok (memZ new, (h, s))
          else do c <- take_choice (length members) s;
               do ri <- nth_r members (fst c);
               do r <- nth_r inds ri;
               Ok (memZ (match dict_get ieq new r with
                         | None => dict_set ieq new r members
                         | Some old => dict_set ieq new r (old ++ members)%list
                         end), (h, snd c))) ->
    forall groups new h s,
      py_foldM body (map (map Z.of_nat) groups) (memZ new, (h, s))
      = do r <- rekey ieq inds groups new s; Ok (memZ (fst r), (h, snd r)).
  Proof.
    intros Hb. induction groups as [|members rest IH]; intros new h s; [reflexivity|].
    cbn [map py_foldM rekey]. rewrite Hb. destruct (Nat.eqb (length members) 0); [apply IH|].
    destruct (take_choice (length members) s) as [[ci s']|e]; cbn [bind fst snd]; [|reflexivity].
    destruct (nth_r members ci) as [ri|e]; cbn [bind]; [|reflexivity].
    destruct (nth_r inds ri) as [r|e]; cbn [bind]; [|reflexivity].
    apply IH.
  Qed.

  (* ---------------------------------------------------------------- phase 3: build_membership *)
  Lemma membership_inner (r : ind) (members : list nat) : forall d,
    fold_left (fun d' (m : Z) => py_dict_set Z.eqb d' m r) (map Z.of_nat members) (mshZ d)
    = mshZ (fold_left (fun d' m => dict_set Nat.eqb d' m r) members d).
  Proof.
    induction members as [|m t IH]; intros d; [reflexivity|]. cbn [map fold_left]. rewrite py_set_mshZ. apply IH.
  Qed.

  Lemma membership_outer (new : list (ind * list nat)) : forall d,
    fold_left (fun d0 '(r, members) => fold_left (fun d' (m : Z) => py_dict_set Z.eqb d' m r) members d0) (memZ new) (mshZ d)
    = mshZ (fold_left (fun d0 rm => fold_left (fun d' m => dict_set Nat.eqb d' m (fst rm)) (snd rm) d0) new d).
  Proof.
    induction new as [|[r ms] t IH]; intros d; [reflexivity|].
    cbn [memZ map fold_left fst snd]. rewrite membership_inner. apply IH.
  Qed.
End Speciation.

(* ------------------------------------------------------------------ EVQESpeciation.apply_operator *)
Lemma py_len_le0 {A} (l : list A) : (py_len l <=? 0) = Nat.eqb (length l) 0.
Proof. unfold py_len. destruct l; cbn [length]; [reflexivity|]. apply Z.leb_gt. lia. Qed.

Lemma nth_r_map {A B} (f : A -> B) (l : list A) n : nth_r (map f l) n = match nth_r l n with Ok x => Ok (f x) | Err e => Err e end.
Proof. unfold nth_r. rewrite nth_error_map. destruct (nth_error l n); reflexivity. Qed.

Lemma values_memZ {V} (d : list (individual V * list nat)) : py_dict_values (memZ d) = map (map Z.of_nat) (map snd d).
Proof. unfold py_dict_values, memZ. rewrite !map_map. reflexivity. Qed.

Lemma keys_memZ {V} (d : list (individual V * list nat)) : py_dict_keys (memZ d) = map fst d.
Proof. unfold py_dict_keys, memZ. rewrite map_map. reflexivity. Qed.

(* the list object `population.species_representatives` refers to (None: no speciation yet; a reference to no cell: DanglingReference) *)
Definition reps0_of {V} (h : @heap V) (r : option nat) : result (option (list (individual V))) :=
  match r with
  | None => Ok None
  | Some l => match nth_error h l with Some c => Ok (Some c) | None => Err DanglingReference end
  end.

(* what the generated code makes of the model's answer (p', ext, rest): TWO fresh cells behind the old heap — the private
   working copy of phase 1 as it stands at the end (ext) and the new representatives list — every old cell unchanged;
   the returned population refers to the second one *)
Definition spec_result {V} (h : @heap V) (r : result (population V * list (individual V) * ostream)) : result (pypop V * hstate V) :=
  match r with
  | Err e => Err e
  | Ok (p', ext, rest) =>
      Ok (mkPy (p_inds p') (Some (S (length h))) (option_map memZ (p_members p')) (option_map mshZ (p_membership p')),
          (((h ++ [ext]) ++ [match p_reps p' with Some l => l | None => [] end])%list, rest))
  end.

Lemma link_Speciation_apply :
  forall (V : Type) (ieq : individual V -> individual V -> bool), (forall x y, ieq x y = true -> ieq y x = true) ->
  forall thr (pp : pypop V) (h : @heap V) (s : ostream),
    gen_Speciation_apply V ieq thr pp (h, s)
    = do reps0 <- reps0_of h (py_reps pp);
      spec_result h (speciate ieq thr (mkPop (py_inds pp) reps0 None None) s).
Proof.
  intros V ieq Hs thr [inds reps pm pms] h s. unfold gen_Speciation_apply. cbn [py_reps py_inds reps0_of].
  (* both branches of the first `if` lead to the same shape: a private cell `cell` behind h *)
  match goal with |- bind _ ?K = _ =>
    assert (Main : forall cell reps0, (match reps0 with None => [] | Some l => l end) = cell ->
      K (length h, fold_left (fun d_ (kv_ : individual V * list Z) => py_dict_set ieq d_ (fst kv_) (snd kv_)) (map (fun r : individual V => (r, [])) cell) (memZ []),
         ((h ++ [cell])%list, s)) = spec_result h (speciate ieq thr (mkPop inds reps0 None None) s)) end.
  2: {
    destruct reps as [l|].
    - cbn [reps0_of]. unfold heap_get at 1. cbn [fst]. destruct (nth_error h l) as [cell|] eqn:E; cbn [bind]; [|reflexivity].
      unfold heap_alloc at 1. cbn [bind fst snd]. unfold heap_get at 1. cbn [fst]. rewrite nth_error_last. cbn [bind].
      exact (Main cell (Some cell) eq_refl).
    - cbn [reps0_of]. unfold heap_alloc at 1. cbn [bind fst snd]. exact (Main [] None eq_refl).
  }
  intros cell reps0 Hcell. cbv beta iota. rewrite init_members_link by exact Hs.
  unfold speciate. cbn [p_reps p_inds]. rewrite Hcell. unfold init_members.
  set (mem0 := fold_left (fun d r => dict_set ieq d r []) cell []).
  unfold py_enumerate.
  match goal with |- context [py_foldM ?b (combine _ inds) _] =>
    destruct (outer_loop ieq thr b) with (xs := inds) (i := 0%nat) (mem := mem0) (msh := @nil (Z * individual V))
      (ref := length h) (h := (h ++ [cell])%list) (s := s) (cell := cell) as [msh1 E1] end.
  { (* one iteration of the assignment loop *)
    intros mem msh ref h0 s0 i x cell0 Hc. cbn beta iota.
    unfold heap_get at 1. cbn [fst]. rewrite Hc. cbn [bind].
    erewrite (inner_loop ieq Hs thr x i); [|intros; reflexivity].
    unfold assign_one. destruct (find_rep ieq thr x cell0) as [r|].
    - destruct (dict_at ieq mem r) as [l|e]; cbn [bind negb phase1_result]; [|exists msh; reflexivity].
      eexists. rewrite (set_cell_same _ _ _ Hc). reflexivity.
    - cbn [bind negb phase1_result]. unfold heap_append, heap_get. cbn [fst snd]. rewrite Hc. cbn [bind fst snd].
      change [Z.of_nat i] with (map Z.of_nat [i]). rewrite py_set_memZ by exact Hs. eexists. reflexivity. }
  { apply nth_error_last. }
  refine (eq_trans (f_equal (fun r => bind r _) E1) _). clear E1.
  destruct (assign_all ieq thr (cell, mem0) 0 inds) as [[cell' mem']|e]; cbn [phase1_result bind fst snd spec_result]; [|reflexivity].
  rewrite set_cell_last, values_memZ.
  change (@nil (individual V * list Z)) with (memZ (@nil (individual V * list nat))).
  erewrite (rekey_loop ieq inds).
  2: { (* one iteration of the re-keying loop *)
    intros new h0 s0 members. cbn beta iota. rewrite py_len_le0, map_length.
    destruct (Nat.eqb (length members) 0); [reflexivity|].
    unfold on_stream, rng_choice. cbn [snd fst]. rewrite map_length.
    destruct (take_choice (length members) s0) as [[ci s']|e]; cbn [bind fst snd]; [|reflexivity].
    rewrite nth_r_map. destruct (nth_r members ci) as [ri|e]; cbn [bind fst snd]; [|reflexivity].
    rewrite py_index_of_nat. destruct (nth_r inds ri) as [r|e]; cbn [bind]; [|reflexivity].
    rewrite py_mem_memZ. destruct (dict_get ieq new r) as [old|] eqn:G; cbn [negb bind].
    - rewrite py_get_memZ by exact Hs. rewrite G. cbn [bind]. rewrite <- map_app, py_set_memZ by exact Hs. reflexivity.
    - rewrite py_set_memZ by exact Hs. reflexivity. }
  destruct (rekey ieq inds (map snd mem') [] s) as [[new rest]|e]; cbn [bind fst snd spec_result]; [|reflexivity].
  change (@nil (Z * individual V)) with (mshZ (@nil (nat * individual V))). rewrite membership_outer.
  unfold heap_alloc. cbn [bind fst snd p_inds p_reps p_members p_membership option_map].
  rewrite keys_memZ, app_length. cbn [length]. rewrite Nat.add_1_r. reflexivity.
Qed.
Print Assumptions link_Speciation_apply.

(* --- the same against Heap.apply_h (the function C11_frame is about), repaired variant legacy_spec = false.
   Adapter: the model allocates ONE cell (the new representatives); the code's private working copy of phase 1 is a cell no
   population ever refers to: adapt_spec drops it (and renumbers the returned reference), reads `the operator's stream is used
   up` as the model does (else StreamMismatch), and turns an exception into the model's triple with the unchanged heap. *)
Definition adapt_spec {V} (h : @heap V) (r : result (pypop V * hstate V)) : @heap V * list (@hcallback V) * result (@hpop V) :=
  match r with
  | Err e => (h, [], Err e)
  | Ok (pp, (h', rest)) =>
      match rest with
      | [] => (remove_nth h' (length h), [], Ok (to_hpop (mkPy (py_inds pp) (option_map Nat.pred (py_reps pp)) (py_members pp) (py_membership pp))))
      | _ :: _ => (h, [], Err StreamMismatch)
      end
  end.

Lemma remove_nth_private {A} (h : list A) x y : remove_nth ((h ++ [x]) ++ [y]) (length h) = (h ++ [y])%list.
Proof. induction h as [|a t IH]; cbn; [reflexivity | f_equal; exact IH]. Qed.

Lemma to_hpop_Z {V} inds r (m : list (individual V * list nat)) ms :
  to_hpop (mkPy inds r (Some (memZ m)) (Some (mshZ ms))) = mkH inds r (Some m) (Some ms).
Proof. exact (to_of_hpop (mkH inds r (Some m) (Some ms))). Qed.

Lemma link_Speciation_apply_model :
  forall (V : Type) (veqb : V -> V -> bool) (ieq : individual V -> individual V -> bool) (zero : V) (ev : individual V -> result Q) (legacy_opt : bool),
    (forall x y, ieq x y = true -> ieq y x = true) ->
  forall thr (arg : @hpop V) (h : @heap V) (s : ostream) pi tasks,
    adapt_spec h (gen_Speciation_apply V ieq thr (of_hpop arg) (h, s))
    = apply_h veqb ieq zero ev legacy_opt false (OSpeciation thr) (mkLog s pi tasks) h arg.
Proof.
  intros V veqb ieq zero ev lo Hs thr [inds reps mem ms] h s pi tasks.
  rewrite link_Speciation_apply by exact Hs. unfold apply_h, deref, of_hpop. cbn [py_reps py_inds h_reps h_inds h_members h_membership g_stream reps0_of].
  assert (Sp : forall r0 a b, speciate ieq thr (mkPop inds r0 a b) s = speciate ieq thr (mkPop inds r0 None None) s) by reflexivity.
  destruct reps as [l|]; cbn [reps0_of]; [destruct (nth_error h l) as [c|]; [|reflexivity]|]; cbn [bind]; rewrite (Sp _ mem ms);
    unfold speciate; cbn [p_inds p_reps];
    (match goal with |- context [assign_all ieq thr ?a ?b ?c] => destruct (assign_all ieq thr a b c) as [[c' m']|e] end; cbn [bind spec_result adapt_spec fst snd]; [|reflexivity]);
    (match goal with |- context [rekey ieq ?a ?b ?c ?d] => destruct (rekey ieq a b c d) as [[new rest]|e] end; cbn [bind spec_result adapt_spec fst snd p_inds p_reps p_members p_membership option_map py_inds py_reps py_members py_membership Nat.pred]; [|reflexivity]);
    (destruct rest; [|reflexivity]); rewrite remove_nth_private, to_hpop_Z; reflexivity.
Qed.
Print Assumptions link_Speciation_apply_model.

(* --- the frame property at the level of the generated code: no cell that existed before the call is written (what breaks when
   the `list(...)` copy is dropped: fix-88eddcc reverted makes the generated definition append into the argument's cell) *)
Lemma link_Speciation_apply_frame :
  forall (V : Type) (ieq : individual V -> individual V -> bool), (forall x y, ieq x y = true -> ieq y x = true) ->
  forall thr (pp : pypop V) (h : @heap V) (s : ostream) pp' h' rest,
    gen_Speciation_apply V ieq thr pp (h, s) = Ok (pp', (h', rest)) ->
    firstn (length h) h' = h /\ length h' = S (S (length h)) /\ py_reps pp' = Some (S (length h)).
Proof.
  intros V ieq Hs thr pp h s pp' h' rest. rewrite link_Speciation_apply by exact Hs.
  destruct (reps0_of h (py_reps pp)) as [r0|e]; cbn [bind]; [|discriminate].
  destruct (speciate ieq thr (mkPop (py_inds pp) r0 None None) s) as [[[p' ext] rest']|e]; cbn [spec_result]; [|discriminate].
  intros E. injection E as <- <- <-. cbn [py_reps]. rewrite <- app_assoc. repeat split.
  - rewrite firstn_app, Nat.sub_diag, firstn_all. cbn. apply app_nil_r.
  - rewrite app_length. cbn. lia.
Qed.
Print Assumptions link_Speciation_apply_frame.

(* ================================================================== EVQESelection.apply_operator *)
(* ------------------------------------------------------------------ the executor protocol (C10Aux.xstate) vs Population.exec_run *)
Section Exec.
  Context {R V : Type}.

  (* the submission comprehension: the i-th item's task is the i-th task, its future the i-th position *)
  Lemma submit_loop {A} (T : A -> R) (body : A -> xstate R V -> result (nat * xstate R V)) :
    (forall x st, body x st = do r <- exec_submit (fun _ => T x) st; Ok (fst r, snd r)) ->
    forall xs tasks lg pi ev s,
      py_mapM_st body xs (mkX tasks lg pi ev s)
      = Ok (seq (length tasks) (length xs), mkX (tasks ++ map T xs)%list lg pi ev s).
  Proof.
    intros Hb. induction xs as [|x t IH]; intros tasks lg pi ev s.
    - cbn. rewrite app_nil_r. reflexivity.
    - cbn [py_mapM_st]. rewrite Hb. unfold exec_submit. cbn [bind fst snd x_tasks x_log x_pi x_events x_stream].
      rewrite IH. cbn [bind fst snd length seq map]. rewrite app_length. cbn [length]. rewrite Nat.add_1_r, <- app_assoc. reflexivity.
  Qed.

  Lemma complete_map {R'} (f : R -> R') (tasks : list R) : forall pi,
    complete (map f tasks) pi = do log <- complete tasks pi; Ok (map (fun jr => (fst jr, f (snd jr))) log).
  Proof.
    induction pi as [|j t IH]; [reflexivity|]. cbn [complete]. rewrite nth_error_map.
    destruct (nth_error tasks j) as [r|]; cbn [option_map bind]; [|reflexivity].
    rewrite IH. destruct (complete tasks t); reflexivity.
  Qed.

  Lemma dict_get_map_log {R'} (f : R -> R') (log : list (nat * R)) i :
    dict_get Nat.eqb (map (fun jr => (fst jr, f (snd jr))) log) i = option_map f (dict_get Nat.eqb log i).
  Proof. induction log as [|[j r] t IH]; [reflexivity|]. cbn [map dict_get fst snd]. destruct (Nat.eqb i j); [reflexivity | exact IH]. Qed.

  Definition lookup (log : list (nat * R)) (i : nat) : result R :=
    match dict_get Nat.eqb log i with Some r => Ok r | None => Err NeverCompleted end.

  Lemma lookup_map_log {R'} (f : R -> R') log futs :
    mapM (fun i => match dict_get Nat.eqb (map (fun jr => (fst jr, f (snd jr))) log) i with Some r => Ok r | None => Err NeverCompleted end) futs
    = do rs <- mapM (lookup log) futs; Ok (map f rs).
  Proof.
    induction futs as [|i t IH]; [reflexivity|]. cbn [mapM]. rewrite dict_get_map_log. unfold lookup at 1.
    destruct (dict_get Nat.eqb log i) as [r|]; cbn [option_map bind]; [|reflexivity].
    rewrite IH. destruct (mapM (lookup log) t); reflexivity.
  Qed.
End Exec.

Lemma mapM_length {A B} (f : A -> result B) l : forall r, mapM f l = Ok r -> length r = length l.
Proof.
  induction l as [|x t IH]; cbn [mapM]; intros r H; [injection H as <-; reflexivity|].
  destruct (f x); cbn [bind] in H; [|discriminate]. destruct (mapM f t) as [ys|]; cbn [bind] in H; [|discriminate].
  injection H as <-. cbn. f_equal. apply IH. reflexivity.
Qed.

(* what the selection tasks answer: evaluate_circuits on ONE circuit gives a one-item list *)
Definition lift1 (r : result Q) : result (list Q) := do q <- r; Ok [q].

(* [future.result()[0] for future in futures], after wait() *)
Lemma result_loop {V} (body : nat -> xstate (result (list Q)) V -> result (Q * xstate (result (list Q)) V)) :
  (forall fut st, body fut st = do r <- fut_result fut st; do it <- py_index (fst r) 0; Ok (it, snd r)) ->
  forall (log : list (nat * result Q)) tasks pi ev s futs outs,
    mapM (lookup log) futs = Ok outs ->
    py_mapM_st body futs (mkX tasks (Some (map (fun jr => (fst jr, lift1 (snd jr))) log)) pi ev s)
    = do vs <- gather outs; Ok (vs, mkX tasks (Some (map (fun jr => (fst jr, lift1 (snd jr))) log)) pi ev s).
Proof.
  intros Hb log tasks pi ev s. induction futs as [|i t IH]; intros outs H.
  - injection H as <-. reflexivity.
  - cbn [mapM] in H. unfold lookup at 1 in H. destruct (dict_get Nat.eqb log i) as [r|] eqn:G; cbn [bind] in H; [|discriminate].
    destruct (mapM (lookup log) t) as [outs'|] eqn:E; cbn [bind] in H; [|discriminate]. injection H as <-.
    cbn [py_mapM_st]. rewrite Hb. unfold fut_result. cbn [x_log]. rewrite dict_get_map_log, G. cbn [option_map].
    unfold gather. cbn [mapM]. destruct r as [q|e]; cbn [lift1 bind fst snd]; [|reflexivity].
    change (py_index [q] 0) with (Ok q : result Q). cbn [bind].
    match goal with |- bind ?a _ = _ => let E := fresh in assert (E : a = _) by exact (IH outs' eq_refl); rewrite E end. unfold gather.
    destruct (mapM (fun r => r) outs'); reflexivity.
Qed.

(* ------------------------------------------------------------------ floats as exact rationals: two Leibniz identities *)
Lemma Qmult_1_l_eq (y : Q) : (inject_Z 1 * y)%Q = y.
Proof. destruct y as [n d]. unfold Qmult, inject_Z. cbn [Qnum Qden]. destruct n; reflexivity. Qed.

Lemma Qplus_0_r_eq (x : Q) : (x + inject_Z 0)%Q = x.
Proof.
  destruct x as [n d]. unfold Qplus, inject_Z. cbn [Qnum Qden]. rewrite Z.mul_1_r, Z.add_0_r, Pos.mul_1_r. reflexivity.
Qed.

Section SelectionLink.
  Context {V : Type} (ieq : individual V -> individual V -> bool).
  Context (ieq_sym : forall x y, ieq x y = true -> ieq y x = true).
  Notation ind := (individual V).

  Lemma py_get_mshZ (ms : list (nat * ind)) i : py_dict_get Z.eqb (mshZ ms) (Z.of_nat i) = dict_at Nat.eqb ms i.
  Proof.
    unfold py_dict_get, dict_at. induction ms as [|[k v] t IH]; [reflexivity|].
    cbn [mshZ map find fst snd dict_get]. rewrite of_nat_eqb. destruct (Nat.eqb i k); [reflexivity | exact IH].
  Qed.

  (* the fitness comprehension over enumerate(individuals) *)
  Lemma fitness_loop cfg mem ms offset (values : list Q) (body : Z * ind -> result Q) :
    (forall i x, body (Z.of_nat i, x) = do e <- nth_r values i; fitness ieq cfg mem ms offset i x e) ->
    forall xs es pre, values = (pre ++ es)%list -> length es = length xs ->
      mapM body (combine (map Z.of_nat (seq (length pre) (length xs))) xs) = fitness_all ieq cfg mem ms offset (length pre) xs es.
  Proof.
    intros Hb. induction xs as [|x t IH]; intros es pre Hv Hl; [destruct es; reflexivity|].
    destruct es as [|e et]; [discriminate|]. cbn [length seq map combine mapM fitness_all]. rewrite Hb.
    assert (N : nth_r values (length pre) = Ok e).
    { unfold nth_r. rewrite Hv, nth_error_app2, Nat.sub_diag by lia. reflexivity. }
    rewrite N. cbn [bind]. destruct (fitness ieq cfg mem ms offset (length pre) x e) as [f|err]; cbn [bind]; [|reflexivity].
    specialize (IH et (pre ++ [e])%list). rewrite app_length in IH. cbn [length] in IH. rewrite Nat.add_1_r in IH.
    rewrite IH; [reflexivity | rewrite <- app_assoc; exact Hv | cbn in Hl; lia].
  Qed.

  (* one tournament: the loop over the drawn indices *)
  Definition enc_best (b : option (nat * Q)) : option Z * option Q :=
    match b with None => (None, None) | Some (t, f) => (Some (Z.of_nat t), Some f) end.

  Lemma winner_loop (fit : list Q) (body : option Z * option Q -> Z -> result (option Z * option Q)) :
    (forall bi bf t, body (bi, bf) (Z.of_nat t)
                     = do f <- nth_r fit t;
                       match bf with
                       | None => Ok (Some (Z.of_nat t), Some f)
                       | Some b => if Selection.Qltb f b then Ok (Some (Z.of_nat t), Some f) else Ok (bi, bf)
                       end) ->
    forall idxs best, py_foldM body (map Z.of_nat idxs) (enc_best best) = do w <- tournament_winner fit idxs best; Ok (enc_best w).
  Proof.
    intros Hb. induction idxs as [|t rest IH]; intros best; [reflexivity|].
    cbn [map py_foldM tournament_winner]. destruct best as [[bt bf]|]; cbn [enc_best]; rewrite Hb;
      destruct (nth_r fit t) as [f|e]; cbn [bind]; try reflexivity.
    - destruct (Selection.Qltb f bf); [exact (IH (Some (t, f))) | exact (IH (Some (bt, bf)))].
    - exact (IH (Some (t, f))).
  Qed.

  Lemma take_choices_bound len w k s idxs rest : take_choices len w k s = Ok (idxs, rest) -> forallb (fun i => Nat.ltb i len) idxs = true.
  Proof.
    unfold take_choices. destruct s as [|[] s']; try discriminate.
    destruct (Nat.eqb len0 len && Nat.eqb (length idxs0) k && forallb (fun i => Nat.ltb i len) idxs0) eqn:E; cbn [andb]; [|discriminate].
    destruct (match w with None => match weights with None => true | Some _ => false end | Some mw => match weights with Some iw => q_close_list mw iw | None => false end end); [|discriminate].
    intros H. injection H as <- <-. apply andb_prop in E. exact (proj2 E).
  Qed.

  Lemma range_pick n idxs : forallb (fun i => Nat.ltb i n) idxs = true ->
    mapM (nth_r (py_range 0 (Z.of_nat n))) idxs = Ok (map Z.of_nat idxs).
  Proof.
    intros H. induction idxs as [|i t IH]; [reflexivity|]. cbn [forallb] in H. apply andb_prop in H. destruct H as [Hi Ht].
    cbn [mapM map]. rewrite (IH Ht). apply Nat.ltb_lt in Hi.
    unfold nth_r, py_range. rewrite Z.sub_0_r, Nat2Z.id, nth_error_map. rewrite (nth_error_nth' _ 0%nat) by (rewrite seq_length; exact Hi).
    rewrite seq_nth by exact Hi. reflexivity.
  Qed.
End SelectionLink.

Lemma py_range_0 n : py_range 0 n = map Z.of_nat (seq 0 (Z.to_nat n)).
Proof. unfold py_range. rewrite Z.sub_0_r. apply map_ext. intros; lia. Qed.

Lemma py_range_length n : length (py_range 0 (Z.of_nat n)) = n.
Proof. unfold py_range. rewrite map_length, seq_length, Z.sub_0_r. apply Nat2Z.id. Qed.

Lemma py_len_ltb {A B} (a : list A) (b : list B) : (py_len a <? py_len b) = Nat.ltb (length a) (length b).
Proof. unfold py_len. apply eq_true_iff_eq. rewrite Z.ltb_lt, Nat.ltb_lt. lia. Qed.

(* the tournament rounds: `while len(selected_individuals) < len(population.individuals)` *)
Lemma tournament_loop {V Rt} (inds : list (individual V)) (fit : list Q) (size : nat)
      (cond : list (individual V) * xstate (result (list Q)) V -> result bool)
      (body : list (individual V) * xstate (result (list Q)) V -> result (ctl Rt (list (individual V) * xstate (result (list Q)) V))) :
  (forall sel st, cond (sel, st) = Ok (Nat.ltb (length sel) (length inds))) ->
  (forall sel tasks lg pi ev s,
      body (sel, mkX tasks lg pi ev s)
      = do c <- take_choices (length inds) None size s;
        do w <- tournament_winner fit (fst c) None;
        match w with
        | None => Err SelectionException
        | Some (bi, _) => do x <- nth_r inds bi; Ok (Next ((sel ++ [x])%list, mkX tasks lg pi ev (snd c)))
        end) ->
  forall rounds fuel sel tasks lg pi ev s, (rounds <= fuel)%nat -> (length sel + rounds = length inds)%nat ->
    py_while fuel cond body (sel, mkX tasks lg pi ev s)
    = do r <- tournaments rounds size inds fit s; Ok (Next ((sel ++ fst r)%list, mkX tasks lg pi ev (snd r))).
Proof.
  intros Hc Hb. induction rounds as [|r IH]; intros fuel sel tasks lg pi ev s Hf Hl.
  - destruct fuel; cbn [py_while tournaments bind fst snd]; rewrite Hc;
      (replace (Nat.ltb (length sel) (length inds)) with false by (symmetry; apply Nat.ltb_ge; lia)); rewrite app_nil_r; reflexivity.
  - destruct fuel as [|fuel]; [lia|]. cbn [py_while tournaments]. rewrite Hc.
    replace (Nat.ltb (length sel) (length inds)) with true by (symmetry; apply Nat.ltb_lt; lia).
    rewrite Hb. destruct (take_choices (length inds) None size s) as [[idxs s']|e]; cbn [bind fst snd]; [|reflexivity].
    destruct (tournament_winner fit idxs None) as [[[bi bf]|]|e]; cbn [bind]; try reflexivity.
    destruct (nth_r inds bi) as [x|e]; cbn [bind]; [|reflexivity].
    rewrite (IH fuel (sel ++ [x])%list tasks lg pi ev s') by (try rewrite app_length; cbn [length]; lia).
    destruct (tournaments r size inds fit s') as [[l s'']|e]; cbn [bind fst snd]; [|reflexivity].
    rewrite <- app_assoc. reflexivity.
Qed.

(* --- the statement.  Oracles: the evaluator `evalc circuit values` (the model's ev x = evalc x (i_values x): the circuit AND the
   parameter values submitted are those of the same individual), the completion order pi, the decision stream s.
   sel_view: what the model's outcome looks like at the Python level when no exception is raised — the returned population copies
   the REFERENCE of the argument (Heap.apply_h), the callbacks are the model's, a result payload holds the argument itself.
   sel_adapt: reads `the stream is used up` as the model does.  On an exception only the exception class is compared (the
   callbacks made before it are not visible in the result monad; they stay with the differential tie). *)
Definition sel_cfg (alpha beta : Q) (use_t : bool) (tsize : Z) : sel_config :=
  mkSel alpha beta (if use_t then Some (Z.to_nat tsize) else None).
Definition py_cb {V} (arg : pypop V) (c : callback V) : pycallback V :=
  match c with CbCount n => PyCount n | CbResult r => PyResult (mkPyRes arg (r_values r) (r_best r) (r_best_value r)) end.
Definition sel_view {V} (pp : pypop V) (oc : outcome V) : result (pypop V * list (pycallback V)) :=
  match snd oc with Err e => Err e | Ok p' => Ok (mkPy (p_inds p') (py_reps pp) None None, map (py_cb pp) (fst oc)) end.
Definition sel_adapt {R V} (r : result (pypop V * xstate R V)) : result (pypop V * list (pycallback V)) :=
  match r with
  | Err e => Err e
  | Ok (pp', st') => match x_stream st' with [] => Ok (pp', x_events st') | _ :: _ => Err StreamMismatch end
  end.

Lemma eval_one {V} (evalc : individual V -> list V -> result Q) x : evaluate_circuits evalc [x] [i_values x] = lift1 (evalc x (i_values x)).
Proof. unfold evaluate_circuits, lift1. cbn. destruct (evalc x (i_values x)); reflexivity. Qed.

Lemma link_Selection_apply :
  forall (V : Type) (ieq : individual V -> individual V -> bool), (forall x y, ieq x y = true -> ieq y x = true) ->
  forall evalc is_dask alpha beta use_t tsize inds (ref : option nat) (reps : option (list (individual V))) mem ms pi s fuel,
    (ref = None <-> reps = None) -> (length inds <= fuel)%nat ->
    let pp := of_hpop (mkH inds ref mem ms) in
    sel_adapt (gen_Selection_apply V ieq evalc is_dask alpha beta use_t tsize pp tt (mkX [] None pi [] s) fuel)
    = sel_view pp (selection_op ieq (fun x => evalc x (i_values x)) (sel_cfg alpha beta use_t tsize) (mkPop inds reps mem ms) pi s).
Proof.
  intros V ieq Hs evalc is_dask alpha beta use_t tsize inds ref reps mem ms pi s fuel Href Hfuel pp.
  unfold gen_Selection_apply. subst pp. unfold of_hpop. cbn [py_inds py_reps py_members py_membership h_inds h_reps h_members h_membership].
  (* evaluation: submit, wait, collect by index *)
  erewrite (submit_loop (fun x => evaluate_circuits evalc [x] [i_values x])); [|intros; reflexivity].
  cbn [bind fst snd app length]. unfold exec_wait. cbn [x_tasks x_pi x_log x_events x_stream].
  rewrite (map_ext _ (fun x => lift1 ((fun x => evalc x (i_values x)) x)) (eval_one evalc)), <- (map_map (fun x => evalc x (i_values x)) lift1).
  rewrite complete_map. unfold selection_op, exec_run, collect. cbn [p_inds]. rewrite !map_length.
  destruct (complete (map (fun x => evalc x (i_values x)) inds) pi) as [log|e]; cbn [bind]; [|reflexivity].
  rewrite lookup_map_log. fold (lookup log).
  destruct (mapM (lookup log) (seq 0 (length inds))) as [outs|e] eqn:EO; cbn [bind fst snd]; [|reflexivity].
  erewrite result_loop; [|intros; reflexivity|exact EO].
  destruct (gather outs) as [values|e] eqn:EG; cbn [bind fst snd]; [|reflexivity].
  assert (Lv : length values = length inds).
  { unfold gather in EG. apply mapM_length in EG. apply mapM_length in EO. rewrite seq_length in EO. congruence. }
  (* count callback, None checks *)
  unfold emit at 1. cbn [bind fst snd x_tasks x_pi x_log x_events x_stream app].
  unfold select_after_eval. cbn [p_reps p_members p_membership p_inds].
  destruct ref as [r|], reps as [rv|]; try (exfalso; destruct Href as [A B]; (discriminate (A eq_refl) || discriminate (B eq_refl))); [|reflexivity].
  destruct mem as [mem|]; [|reflexivity]. destruct ms as [ms|]; [|reflexivity]. cbn [option_map].
  change (map (fun ir : nat * individual V => (Z.of_nat (fst ir), snd ir)) ms) with (mshZ ms).
  change (map (fun rm : individual V * list nat => (fst rm, map Z.of_nat (snd rm))) mem) with (memZ mem).
  (* argmin, result callback *)
  unfold argmin_py. destruct (argmin values) as [bi|e]; cbn [bind]; [|reflexivity].
  rewrite !py_index_of_nat. destruct (nth_r inds bi) as [bx|e]; cbn [bind]; [|reflexivity].
  destruct (nth_r values bi) as [bv|e]; cbn [bind]; [|reflexivity].
  unfold emit at 1. cbn [bind fst snd x_tasks x_pi x_log x_events x_stream app].
  unfold sel_cfg. destruct use_t; cbn [negb s_tournament].
  - (* tournament selection *)
    unfold py_enumerate.
    erewrite (fitness_loop ieq (mkSel alpha beta (Some (Z.to_nat tsize))) mem ms 0%Q values) with (pre := []) (es := values);
      [| |reflexivity|exact Lv].
    2: { intros i x. cbn beta iota. rewrite py_index_of_nat. destruct (nth_r values i) as [e0|]; cbn [bind]; [|reflexivity].
         unfold fitness, species_size. rewrite py_get_mshZ. destruct (dict_at Nat.eqb ms i) as [r0|]; cbn [bind]; [|reflexivity].
         rewrite py_get_memZ by exact Hs. unfold dict_at. destruct (dict_get ieq mem r0) as [l|]; cbn [bind]; [|reflexivity].
         unfold py_len. rewrite map_length. cbn [s_alpha s_beta]. unfold Qz. rewrite <- (Qplus_0_r_eq e0) at 1. reflexivity. }
    cbn [length]. destruct (fitness_all ieq _ mem ms 0%Q 0 inds values) as [fit|e]; cbn [bind]; [|reflexivity].
    erewrite (tournament_loop inds fit (Z.to_nat tsize)) with (rounds := length inds); [| | |exact Hfuel|reflexivity].
    2: { intros sel st. cbn beta iota. rewrite py_len_ltb. reflexivity. }
    2: { intros sel tasks lg pi0 ev s0. cbn beta iota. unfold on_xstream, rng_choices. cbn [x_stream x_tasks x_log x_pi x_events].
         unfold py_len at 1. rewrite py_range_length.
         destruct (take_choices (length inds) None (Z.to_nat tsize) s0) as [[idxs s1]|e] eqn:TC; cbn [bind fst snd]; [|reflexivity].
         unfold py_len. rewrite (range_pick _ _ (take_choices_bound _ _ _ _ _ _ TC)). cbn [bind fst snd].
         change (@None Z, @None Q) with (enc_best None).
         erewrite (winner_loop fit).
         2: { intros b0 bf t. cbn beta iota. rewrite !py_index_of_nat.
              destruct bf as [b|]; destruct (nth_r fit t) as [f|]; cbn [bind]; try reflexivity.
              unfold PyPrelude.Qltb, Selection.Qltb. destruct (negb (Qle_bool b f)); reflexivity. }
         destruct (tournament_winner fit idxs None) as [[[wi wf]|]|e]; cbn [bind enc_best]; try reflexivity.
         rewrite py_index_of_nat. destruct (nth_r inds wi); reflexivity. }
    destruct (tournaments (length inds) (Z.to_nat tsize) inds fit s) as [[sel rest]|e]; cbn [bind fst snd sel_adapt sel_view x_stream x_events app map py_cb]; [|reflexivity].
    destruct rest; reflexivity.
  - (* roulette wheel selection *)
    set (offset := if Qle_bool bv 0 then (- bv + 1)%Q else 0%Q).
    assert (Eoff : (if Qle_bool bv (inject_Z 0) then Ok (- bv + inject_Z 1)%Q else Ok (inject_Z 0)) = Ok offset).
    { unfold offset. change (inject_Z 0) with 0%Q. change (inject_Z 1) with 1%Q. destruct (Qle_bool bv 0); reflexivity. }
    rewrite Eoff. clear Eoff. cbn [bind]. unfold py_enumerate.
    erewrite (fitness_loop ieq (mkSel alpha beta None) mem ms offset values) with (pre := []) (es := values);
      [| |reflexivity|exact Lv].
    2: { intros i x. cbn beta iota. rewrite py_index_of_nat. destruct (nth_r values i) as [e0|]; cbn [bind]; [|reflexivity].
         unfold fitness, species_size. rewrite py_get_mshZ. destruct (dict_at Nat.eqb ms i) as [r0|]; cbn [bind]; [|reflexivity].
         rewrite py_get_memZ by exact Hs. unfold dict_at. destruct (dict_get ieq mem r0) as [l|]; cbn [bind]; [|reflexivity].
         unfold py_len. rewrite map_length. reflexivity. }
    cbn [length]. destruct (fitness_all ieq _ mem ms offset 0 inds values) as [fit|e]; cbn [bind]; [|reflexivity].
    rewrite (mapM_ext _ (weight offset)).
    2: { intros f. unfold qdiv, weight. destruct (Qeq_bool (f + offset) 0); cbn [bind]; [reflexivity|].
         unfold Qdiv. rewrite Qmult_1_l_eq. reflexivity. }
    destruct (mapM (weight offset) fit) as [ws|e]; cbn [bind]; [|reflexivity].
    unfold on_xstream, rng_choices. cbn [x_stream x_tasks x_log x_pi x_events].
    destruct (Qle_bool (sumQ ws) 0); [reflexivity|]. unfold py_len. rewrite Nat2Z.id.
    destruct (take_choices (length inds) (Some ws) (length inds) s) as [[idxs rest]|e]; cbn [bind fst snd]; [|reflexivity].
    destruct (mapM (nth_r inds) idxs) as [sel|e]; cbn [bind fst snd sel_adapt sel_view x_stream x_events map py_cb]; [|reflexivity].
    destruct rest; reflexivity.
Qed.
Print Assumptions link_Selection_apply.

(* ================================================================== BaseEVQEMutationOperator.apply_operator *)
Section MutationLink.
  Context {V : Type}.
  Notation ind := (individual V).
  Notation R := (result (ind * Z)).
  Context (T : nat -> ind -> Z -> R).     (* the outcome of the j-th submitted task: mutation_function(individual, evaluator, optimizer, seed) *)

  (* the dict of futures and the task list that a list of submissions (index, individual, seed) leaves behind, from future j0 on *)
  Fixpoint dict_of (j0 : nat) (subs : list (nat * ind * Z)) : list (Z * nat) :=
    match subs with [] => [] | sb :: t => (Z.of_nat (fst (fst sb)), j0) :: dict_of (S j0) t end.
  Fixpoint tasks_of (j0 : nat) (subs : list (nat * ind * Z)) : list R :=
    match subs with [] => [] | sb :: t => T j0 (snd (fst sb)) (snd sb) :: tasks_of (S j0) t end.

  Lemma tasks_of_length subs : forall j0, length (tasks_of j0 subs) = length subs.
  Proof. induction subs; intros; cbn; auto. Qed.
  Lemma dict_of_values subs : forall j0, py_dict_values (dict_of j0 subs) = seq j0 (length subs).
  Proof. unfold py_dict_values. induction subs as [|sb t IH]; intros j0; cbn; [reflexivity | f_equal; apply IH]. Qed.

  Lemma py_dict_set_fresh (d : list (Z * nat)) key v :
    (forall k w, In (k, w) d -> k < key) -> py_dict_set Z.eqb d key v = (d ++ [(key, v)])%list.
  Proof.
    induction d as [|[k w] t IH]; intros H; [reflexivity|]. cbn [py_dict_set fst app].
    assert (E : Z.eqb k key = false) by (apply Z.eqb_neq; specialize (H k w (or_introl eq_refl)); lia).
    rewrite E. f_equal. apply IH. intros k' w' Hin. apply (H k' w'). right. exact Hin.
  Qed.

  Lemma submit_all_bounds prob xs : forall i s subs rest,
    submit_all prob i xs s = Ok (subs, rest) -> Forall (fun sb : nat * ind * Z => (i <= fst (fst sb) < i + length xs)%nat) subs.
  Proof.
    induction xs as [|x t IH]; intros i s subs rest H; cbn [submit_all] in H.
    - injection H as <- <-. constructor.
    - destruct (take_random s) as [[q s1]|]; cbn [bind fst snd] in H; [|discriminate].
      destruct (Qle_bool q prob).
      + destruct (take_seed s1) as [[sd s2]|]; cbn [bind fst snd] in H; [|discriminate].
        destruct (submit_all prob (S i) t s2) as [[subs' rest']|] eqn:E; cbn [bind fst snd] in H; [|discriminate].
        injection H as <- <-. constructor; [cbn; lia|]. apply IH in E. eapply Forall_impl; [|exact E]. cbn. intros; lia.
      + apply IH in H. eapply Forall_impl; [|exact H]. cbn. intros; lia.
  Qed.

  (* the submission loop: random() <= p, new_random_seed, submit, in population order *)
  Lemma mut_submit_loop prob (body : list (Z * nat) * xstate R V -> Z * ind -> result (list (Z * nat) * xstate R V)) :
    (forall d tasks lg pi ev s i x,
        body (d, mkX tasks lg pi ev s) (Z.of_nat i, x)
        = do r <- take_random s;
          if Qle_bool (fst r) prob
          then do sd <- take_seed (snd r);
               Ok (py_dict_set Z.eqb d (Z.of_nat i) (length tasks), mkX (tasks ++ [T (length tasks) x (fst sd)])%list lg pi ev (snd sd))
          else Ok (d, mkX tasks lg pi ev (snd r))) ->
    forall xs i d tasks lg pi ev s, (forall k w, In (k, w) d -> k < Z.of_nat i) ->
      py_foldM body (combine (map Z.of_nat (seq i (length xs))) xs) (d, mkX tasks lg pi ev s)
      = do sb <- submit_all prob i xs s;
        Ok ((d ++ dict_of (length tasks) (fst sb))%list, mkX (tasks ++ tasks_of (length tasks) (fst sb))%list lg pi ev (snd sb)).
  Proof.
    intros Hb. induction xs as [|x t IH]; intros i d tasks lg pi ev s Hd.
    - cbn. rewrite !app_nil_r. reflexivity.
    - cbn [length seq map combine py_foldM submit_all]. rewrite Hb.
      destruct (take_random s) as [[q s1]|e]; cbn [bind fst snd]; [|reflexivity].
      destruct (Qle_bool q prob).
      + destruct (take_seed s1) as [[sd s2]|e]; cbn [bind fst snd]; [|reflexivity].
        rewrite (py_dict_set_fresh d _ _ Hd).
        etransitivity; [apply (IH (S i)); intros k w Hin; apply in_app_or in Hin; destruct Hin as [Hin|[Hin|[]]]; [specialize (Hd k w Hin); lia | injection Hin as <- _; lia]|].
        destruct (submit_all prob (S i) t s2) as [[subs rest]|e]; cbn [bind fst snd dict_of tasks_of]; [|reflexivity].
        rewrite app_length. cbn [length]. rewrite Nat.add_1_r, <- !app_assoc. reflexivity.
      + etransitivity; [apply (IH (S i)); intros k w Hin; specialize (Hd k w Hin); lia|]. reflexivity.
  Qed.

  Lemma set_nth_py (l : list ind) i x : (i < length l)%nat -> set_nth l i x = Ok (py_set_nth l i x).
  Proof.
    revert i. induction l as [|h t IH]; intros [|i] H; cbn in *; try lia; [reflexivity|].
    rewrite IH by lia. reflexivity.
  Qed.
  Lemma py_set_nth_length (l : list ind) i x : length (py_set_nth l i x) = length l.
  Proof. revert i. induction l as [|h t IH]; intros [|i]; cbn; auto. Qed.
  Lemma py_list_set_of_nat (l : list ind) i x : (i < length l)%nat -> py_list_set l (Z.of_nat i) x = Ok (py_set_nth l i x).
  Proof.
    intros H. unfold py_list_set, py_len. cbv zeta.
    assert (E : (Z.of_nat i <? 0) = false) by (apply Z.ltb_ge; lia). rewrite E. cbv iota. rewrite E. cbn [orb].
    assert (E2 : (Z.of_nat (length l) <=? Z.of_nat i) = false) by (apply Z.leb_gt; lia). rewrite E2, Nat2Z.id. reflexivity.
  Qed.

  (* the collection loop: future.result() by key, new_individuals[i] = ..., total += ... *)
  Lemma mut_write_back (body : list ind * Z * xstate R V -> Z * nat -> result (list ind * Z * xstate R V)) :
    (forall l total st i fut,
        body (l, total, st) (Z.of_nat i, fut)
        = do r <- fut_result fut st;
          do l' <- py_list_set l (Z.of_nat i) (fst (fst r));
          Ok (l', total + snd (fst r), snd r)) ->
    forall log tasks pi ev s subs j0 outs inds total,
      mapM (lookup log) (seq j0 (length subs)) = Ok outs ->
      Forall (fun sb : nat * ind * Z => (fst (fst sb) < length inds)%nat) subs ->
      py_foldM body (dict_of j0 subs) (inds, total, mkX tasks (Some log) pi ev s)
      = do rs <- gather outs; do w <- write_back inds subs rs total; Ok (fst w, snd w, mkX tasks (Some log) pi ev s).
  Proof.
    intros Hb log tasks pi ev s. induction subs as [|[[i x] seed] t IH]; intros j0 outs inds total HO HB.
    - injection HO as <-. reflexivity.
    - cbn [length seq mapM] in HO. unfold lookup at 1 in HO. destruct (dict_get Nat.eqb log j0) as [r|] eqn:G; cbn [bind] in HO; [|discriminate].
      destruct (mapM (lookup log) (seq (S j0) (length t))) as [outs'|] eqn:E; cbn [bind] in HO; [|discriminate]. injection HO as <-.
      inversion HB as [|? ? Hi Ht]; subst. cbn [fst] in Hi.
      cbn [dict_of py_foldM fst snd]. rewrite Hb. unfold fut_result. cbn [x_log]. rewrite G. unfold gather. cbn [mapM].
      destruct r as [[x' n]|e]; cbn [bind fst snd]; [|reflexivity].
      rewrite (py_list_set_of_nat _ _ _ Hi). cbn [bind].
      etransitivity; [apply (IH (S j0) outs' _ _ E); rewrite py_set_nth_length; exact Ht|].
      unfold gather. destruct (mapM (fun r => r) outs') as [rs|e]; cbn [bind write_back]; [|reflexivity].
      rewrite (set_nth_py _ _ _ Hi). reflexivity.
  Qed.
End MutationLink.

(* what of the final state is compared: the callbacks made and the rest of the operator's stream *)
Definition mut_obs {R V} (r : result (pypop V * xstate R V)) : result (pypop V * list (pycallback V) * ostream) :=
  match r with Ok (pp, st) => Ok (pp, x_events st, x_stream st) | Err e => Err e end.

(* No hypothesis.  For EVERY mutation-function oracle mf, evaluator, probability, population, completion order and stream the method
   is the model's skeleton: Mutation.submit_all, Population.exec_run (collect by key, whatever the completion order), gather,
   Mutation.write_back, ONE count callback with the total, the reference to the representatives copied, both dicts None. *)
Lemma link_Mutation_apply :
  forall (V : Type) (ieq : individual V -> individual V -> bool) evalc is_dask mf prob (pp : pypop V) pi s,
    mut_obs (gen_Mutation_apply V ieq evalc is_dask mf prob pp tt (mkX [] None pi [] s))
    = do sb <- submit_all prob 0 (py_inds pp) s;
      do done <- exec_run (tasks_of (fun j x seed => mf j x evalc tt seed) 0 (fst sb)) pi;
      do rs <- gather done;
      do w <- write_back (py_inds pp) (fst sb) rs 0;
      Ok (mkPy (fst w) (py_reps pp) None None, [PyCount (snd w)], snd sb).
Proof.
  intros V ieq evalc is_dask mf prob pp pi s. unfold gen_Mutation_apply, py_enumerate.
  erewrite (mut_submit_loop (fun j x seed => mf j x evalc tt seed) prob) with (i := 0%nat); [| |intros k w []].
  2: { intros d tasks lg pi0 ev s0 i x. cbn beta iota. unfold on_xstream, rng_random, rng_new_seed. cbn [x_stream x_tasks x_log x_pi x_events].
       destruct (take_random s0) as [[q s1]|e]; cbn [bind fst snd]; [|reflexivity].
       destruct (Qle_bool q prob); [|reflexivity]. cbn [x_stream x_tasks x_log x_pi x_events].
       destruct (take_seed s1) as [[sd s2]|e]; cbn [bind fst snd]; [|reflexivity].
       unfold exec_submit. cbn [x_stream x_tasks x_log x_pi x_events bind fst snd]. reflexivity. }
  destruct (submit_all prob 0 (py_inds pp) s) as [[subs rest]|e] eqn:ES; cbn [bind fst snd app length mut_obs]; [|reflexivity].
  unfold exec_wait. cbn [x_stream x_tasks x_log x_pi x_events]. rewrite dict_of_values. unfold exec_run, collect. rewrite tasks_of_length.
  destruct (complete (tasks_of (fun j x seed => mf j x evalc tt seed) 0 subs) pi) as [log|e]; cbn [bind mut_obs]; [|reflexivity].
  fold (lookup log). destruct (mapM (lookup log) (seq 0 (length subs))) as [outs|e] eqn:EO; cbn [bind fst snd mut_obs]; [|reflexivity].
  erewrite (mut_write_back); [| |exact EO|].
  2: { intros l total st i fut. cbn beta iota. destruct (fut_result fut st) as [[[x' n] st']|e]; cbn [bind fst snd]; [|reflexivity].
       destruct (py_list_set l (Z.of_nat i) x'); reflexivity. }
  2: { apply submit_all_bounds in ES. eapply Forall_impl; [|exact ES]. cbn. intros; lia. }
  destruct (gather outs) as [rs|e]; cbn [bind mut_obs]; [|reflexivity].
  destruct (write_back (py_inds pp) subs rs 0) as [[l' total]|e]; cbn [bind fst snd mut_obs]; [|reflexivity].
  unfold emit. cbn [bind fst snd mut_obs x_events x_stream app]. reflexivity.
Qed.
Print Assumptions link_Mutation_apply.

(* ================================================================== mutation.py: the functions that run inside a task *)
(* the model answers (individual, evaluations, rest of the task log); the generated functions ((individual, evaluations), rest) *)
Definition task_view {V A} (r : result (A * Z * list (titem V))) : result ((A * Z) * list (titem V)) :=
  do r' <- r; Ok (fst r', snd r').

Lemma py_len_eq1 {A} (l : list A) : Z.eqb (py_len l) 1 = Nat.eqb (length l) 1.
Proof. unfold py_len. apply eq_true_iff_eq. rewrite Z.eqb_eq, Nat.eqb_eq. lia. Qed.

Lemma link_remove_random_layers : forall (V : Type) (x : individual V) seed ts,
  gen_remove_random_layers V x seed ts = do r <- removal_task x seed ts; Ok (fst (fst r), snd r).
Proof.
  intros V x seed ts. unfold gen_remove_random_layers, removal_task. rewrite py_len_eq1.
  destruct (Nat.eqb (length (i_layers x)) 1); [reflexivity|].
  unfold trng_new, trng_randrange, py_len. destruct (t_take_seed seed ts) as [s1|e]; cbn [bind fst snd]; [|reflexivity].
  destruct (t_draw (take_randrange 1 (Z.of_nat (length (i_layers x)))) s1) as [[v s2]|e]; cbn [bind fst snd]; [|reflexivity].
  destruct (remove_layers false x v); reflexivity.
Qed.
Print Assumptions link_remove_random_layers.

Lemma remove_nth_NoDup {A} (l : list A) : NoDup l -> forall c, NoDup (remove_nth l c).
Proof.
  induction 1 as [|h t Hh Ht IH]; intros c; [destruct c; constructor|]. destruct c as [|c]; cbn; [exact Ht|].
  constructor; [|apply IH]. intros Hin. apply Hh. clear -Hin. revert c Hin.
  induction t as [|a t IH]; intros c Hin; [destruct c; contradiction|]. destruct c as [|c]; cbn in Hin; [right; exact Hin|].
  destruct Hin as [->|Hin]; [left; reflexivity | right; eapply IH; exact Hin].
Qed.

(* layer_indices.remove(layer) removes BY VALUE, the model by position: the same on a list without repetitions *)
Lemma remove_by_value (l : list nat) : NoDup l -> forall c v, nth_error l c = Some v ->
  py_list_remove Z.eqb (map Z.of_nat l) (Z.of_nat v) = Ok (map Z.of_nat (remove_nth l c)).
Proof.
  induction 1 as [|h t Hh Ht IH]; intros c v Hn; [destruct c; discriminate|].
  destruct c as [|c]; cbn [nth_error] in Hn.
  - injection Hn as ->. cbn [map py_list_remove remove_nth]. rewrite Z.eqb_refl. reflexivity.
  - cbn [map py_list_remove remove_nth]. assert (Hv : h <> v) by (intros ->; apply Hh; eapply nth_error_In; exact Hn).
    replace (Z.of_nat h =? Z.of_nat v) with false by (symmetry; apply Z.eqb_neq; lia).
    rewrite (IH c v Hn). reflexivity.
Qed.

Lemma optimize_all_loop {V Rt} (veqb : V -> V -> bool)
      (cond : list Z * individual V * Z * list (titem V) -> result bool)
      (body : list Z * individual V * Z * list (titem V) -> result (ctl Rt (list Z * individual V * Z * list (titem V)))) :
  (forall idx cur total s, cond (idx, cur, total, s) = Ok (negb (Nat.eqb (length idx) 0))) ->
  (forall indices cur total s,
      body (map Z.of_nat indices, cur, total, s)
      = do c <- t_draw (take_choice (length indices)) s;
        do layer <- nth_r indices (fst c);
        do idx' <- py_list_remove Z.eqb (map Z.of_nat indices) (Z.of_nat layer);
        do sd <- t_draw take_seed (snd c);
        do r <- optimize_layer veqb false cur (Z.of_nat layer) (snd sd);
        Ok (Next (idx', fst (fst r), total + snd (fst r), snd r))) ->
  forall fuel indices cur total s, NoDup indices ->
    py_while fuel cond body (map Z.of_nat indices, cur, total, s)
    = do r <- optimize_loop veqb false fuel cur indices total s; Ok (Next ([], fst (fst r), snd (fst r), snd r)).
Proof.
  intros Hc Hb. induction fuel as [|fuel IH]; intros indices cur total s Hnd.
  - destruct indices as [|i t]; cbn [py_while optimize_loop map]; rewrite Hc; reflexivity.
  - destruct indices as [|i t]; [cbn [py_while optimize_loop map]; rewrite Hc; reflexivity|].
    cbn [py_while]. rewrite Hc. cbn [map length Nat.eqb negb]. rewrite (Hb (i :: t)). cbn [optimize_loop].
    destruct (t_draw (take_choice (length (i :: t))) s) as [[c s1]|e]; cbn [bind fst snd]; [|reflexivity].
    destruct (nth_r (i :: t) c) as [layer|e] eqn:N; cbn [bind]; [|reflexivity].
    assert (N' : nth_error (i :: t) c = Some layer) by (unfold nth_r in N; destruct (nth_error (i :: t) c); [injection N as ->; reflexivity | discriminate]).
    rewrite (remove_by_value _ Hnd _ _ N'). cbn [bind].
    destruct (t_draw take_seed s1) as [[sd s2]|e]; cbn [bind fst snd]; [|reflexivity].
    destruct (optimize_layer veqb false cur (Z.of_nat layer) s2) as [[[x' n] s3]|e]; cbn [bind fst snd]; [|reflexivity].
    apply IH. apply remove_nth_NoDup. exact Hnd.
Qed.

(* for EVERY fuel the while loop is the model's fuel-bounded optimize_loop (same OutOfFuel); the model runs it with fuel = number of layers *)
Lemma link_optimize_all : forall (V : Type) (veqb : V -> V -> bool) (x : individual V) evaluator optimizer seed ts fuel,
  gen_optimize_all V veqb x evaluator optimizer seed ts fuel
  = task_view (do s1 <- t_take_seed seed ts; optimize_loop veqb false fuel x (seq 0 (length (i_layers x))) 0 s1).
Proof.
  intros V veqb x ev opt seed ts fuel. unfold gen_optimize_all, trng_new, task_view.
  destruct (t_take_seed seed ts) as [s1|e]; cbn [bind fst snd]; [|reflexivity].
  unfold py_len. rewrite py_range_0.
  erewrite (optimize_all_loop veqb); [| | |apply seq_NoDup].
  2: { intros idx cur total s. cbn beta iota. unfold py_len. f_equal. destruct idx; cbn [length Nat.eqb negb]; [reflexivity|]. apply Z.ltb_lt. lia. }
  2: { intros indices cur total s. cbn beta iota. unfold trng_choice, trng_new_seed, opt_layer_call. rewrite map_length.
       destruct (t_draw (take_choice (length indices)) s) as [[c s1']|e]; cbn [bind fst snd]; [|reflexivity].
       rewrite nth_r_map. destruct (nth_r indices c) as [layer|e]; cbn [bind fst snd]; [|reflexivity].
       destruct (py_list_remove Z.eqb (map Z.of_nat indices) (Z.of_nat layer)) as [idx'|e]; cbn [bind fst snd]; [|reflexivity].
       destruct (t_draw take_seed s1') as [[sd s2]|e]; cbn [bind fst snd]; [|reflexivity].
       destruct (optimize_layer veqb false cur (Z.of_nat layer) s2) as [[[x' n] s3]|e]; reflexivity. }
  rewrite Nat2Z.id.
  destruct (optimize_loop veqb false fuel x (seq 0 (length (i_layers x))) 0 s1) as [[[x' n] s2]|e]; reflexivity.
Qed.
Print Assumptions link_optimize_all.

Lemma link_optimize_all_model : forall (V : Type) (veqb : V -> V -> bool) (zero : V) (x : individual V) evaluator optimizer seed ts,
  gen_optimize_all V veqb x evaluator optimizer seed ts (length (i_layers x)) = task_view (run_task veqb zero false MParamSearch x seed ts).
Proof. intros. rewrite link_optimize_all. reflexivity. Qed.
Print Assumptions link_optimize_all_model.

(* --- optimize_layer_of_individual: the three pure pieces around the objective function / optimizer.minimize *)
Lemma link_opt_layer_head : forall (V : Type) (x : individual V) layer_id,
  gen_opt_layer_head V x layer_id
  = if Nat.eqb (length (i_layers x)) 0 then Err "ZeroDivisionError"%string
    else let vals := get_layer_parameter_values x layer_id in
         Ok ((x, [layer_id]), vals, Z.of_nat (length vals), Nat.eqb (length vals) 0).
Proof.
  intros V x id. unfold gen_opt_layer_head, glpv_py. destruct (Nat.eqb (length (i_layers x)) 0); [reflexivity|].
  cbn [bind]. rewrite py_len_eq0. reflexivity.
Qed.
Print Assumptions link_opt_layer_head.

Lemma link_opt_layer_early : forall (V : Type) (x : individual V), gen_opt_layer_early V x = (x, 0).
Proof. reflexivity. Qed.
Print Assumptions link_opt_layer_early.

Lemma link_opt_layer_tail : forall (V : Type) (x : individual V) layer_id res,
  gen_opt_layer_tail V x layer_id res = do x' <- change_layer_parameter_values x layer_id (or_x res); Ok (x', or_nfev res).
Proof. reflexivity. Qed.
Print Assumptions link_opt_layer_tail.

(* the three pieces, with optimizer.minimize as the oracle item TOpt x0 x nfev of the task log (x0 must be the layer's current
   values), compose to the model's optimize_layer — repaired variant: the early return is taken for a parameterless layer *)
Lemma link_opt_layer_tail_compose : forall (V : Type) (veqb : V -> V -> bool) (x : individual V) layer_id (s : list (titem V)),
  (do h <- gen_opt_layer_head V x layer_id;
   let '(_, vals, _, no_parameters) := h in
   if no_parameters then Ok (gen_opt_layer_early V x, s)
   else match s with
        | TOpt x0 new nfev :: rest =>
            if list_eqb veqb x0 vals then do r <- gen_opt_layer_tail V x layer_id (mkOptRes new nfev); Ok (r, rest) else Err StreamMismatch
        | _ => Err StreamMismatch
        end)
  = task_view (optimize_layer veqb false x layer_id s).
Proof.
  intros V veqb x id s. rewrite link_opt_layer_head. unfold optimize_layer, task_view.
  destruct (Nat.eqb (length (i_layers x)) 0); [reflexivity|]. cbn [bind].
  destruct (Nat.eqb (length (get_layer_parameter_values x id)) 0); [reflexivity|].
  destruct s as [|[sd|d|x0 new nfev|l] rest]; try reflexivity.
  destruct (list_eqb veqb x0 (get_layer_parameter_values x id)); [|reflexivity].
  rewrite link_opt_layer_tail. cbn [or_x or_nfev]. destruct (change_layer_parameter_values x id new); reflexivity.
Qed.
Print Assumptions link_opt_layer_tail_compose.

(* --- the mutation functions of the four concrete operators = Mutation.run_task *)
Lemma link_mf_last_layer : forall (V : Type) (veqb : V -> V -> bool) (zero : V) (x : individual V) evaluator optimizer seed ts,
  gen_mf_last_layer V veqb x evaluator optimizer seed ts = task_view (run_task veqb zero false MLastLayer x seed ts).
Proof.
  intros. unfold gen_mf_last_layer, opt_layer_call, run_task, task_view.
  destruct (optimize_layer veqb false x (-1) ts) as [[[x' n] s']|e]; reflexivity.
Qed.
Print Assumptions link_mf_last_layer.

Lemma link_mf_topological : forall (V : Type) (veqb : V -> V -> bool) (zero : V) (legacy_opt : bool) (x : individual V) seed ts,
  gen_mf_topological V zero x seed ts = task_view (run_task veqb zero legacy_opt MTopological x seed ts).
Proof.
  intros. unfold gen_mf_topological, add_random_layers_call, run_task, task_view. cbn [Z.eqb Pos.eqb andb negb].
  destruct (topological_task zero x seed ts) as [[[x' n] s']|e] eqn:E; cbn [bind fst snd]; [|reflexivity].
  replace n with 0; [reflexivity|]. clear -E. unfold topological_task in E.
  destruct (t_take_seed seed ts) as [s1|]; cbn [bind] in E; [|discriminate].
  destruct (match i_layers x with [] => Err "IndexError"%string | l :: _ => Ok l end) as [l0|]; cbn [bind] in E; [|discriminate].
  destruct (t_draw take_seed s1) as [[sd [|[| | |ly] rest]]|]; cbn [bind fst snd] in E; try discriminate.
  destruct (layer_wf ly && Z.eqb (l_qubits ly) (l_qubits l0)); [|discriminate].
  destruct (add_layers x [ly] (repeat zero (Z.to_nat (layer_n_parameters ly)))); cbn [bind] in E; [|discriminate].
  injection E as _ <- _. reflexivity.
Qed.
Print Assumptions link_mf_topological.

Lemma link_mf_layer_removal : forall (V : Type) (veqb : V -> V -> bool) (zero : V) (legacy_opt : bool) (x : individual V) seed ts,
  gen_mf_layer_removal V x seed ts = task_view (run_task veqb zero legacy_opt MLayerRemoval x seed ts).
Proof.
  intros. unfold gen_mf_layer_removal, run_task, task_view. rewrite link_remove_random_layers.
  destruct (removal_task x seed ts) as [[[x' n] s']|e] eqn:E; cbn [bind fst snd]; [|reflexivity].
  replace n with 0; [reflexivity|]. clear -E. unfold removal_task in E.
  destruct (Nat.eqb (length (i_layers x)) 1); [injection E as _ <- _; reflexivity|].
  destruct (t_take_seed seed ts) as [s1|]; cbn [bind] in E; [|discriminate].
  destruct (t_draw (take_randrange 1 (Z.of_nat (length (i_layers x)))) s1) as [[v s2]|]; cbn [bind fst snd] in E; [|discriminate].
  destruct (remove_layers false x v); cbn [bind] in E; [|discriminate]. injection E as _ <- _. reflexivity.
Qed.
Print Assumptions link_mf_layer_removal.
