(* C20 — link between the Gallina GENERATED from /repo's current
   queasars/utility/random.py (new_random_seed),
   queasars/minimum_eigensolvers/evqe/quantum_circuit/circuit_layer.py (EVQECircuitLayer.random_layer, incl. its while loop),
   queasars/minimum_eigensolvers/evqe/evolutionary_algorithm/individual.py (random_individual, add_random_layers),
   queasars/minimum_eigensolvers/evqe/evolutionary_algorithm/population.py (random_population)
   (build/gen*/QVGen/C20Gen.v, written by translator/py2gallina.py on every check) and the hand-written models
   coq/theories/Evqe/{Stream,RandLayer}.v the C20 theorems are about.  One lemma link_<function> per translated
   function, each followed by Print Assumptions.  Compiled by harness/vlib/translate.py; NOT part of coq/theories
   because it depends on the generated module.
   Randomness: every generated function takes the decision stream `s` (and returns the rest of it); the retry loop of
   random_layer is py_while over the explicit `fuel` (idioms rng-as-decision-stream, while-as-fuel).
   link_new_random_seed and link_random_layer have NO hypotheses: they hold for every n, previous layer (valid or not),
   seed, stream and fuel, including every error path (IndexError of the list operations, LayerException, the stream
   errors, OutOfFuel).  The model's pair_loop carries two ghost counters (accepted / rejected draws) that the code
   does not have: pair_loop_link proves the loop equal to the model's for ALL counter values. *)
From QV Require Import Evqe.Genome Evqe.GenomeFacts Evqe.Stream Evqe.RandLayer Evqe.RandLayer_proofs Translate.C16Aux Translate.C20Aux.
From QV Require Import Translate.PyPrelude Translate.PyPrelude_proofs.
From QVGen Require Import C20Gen.
Open Scope Z_scope.

Lemma link_new_random_seed : forall rg s, gen_new_random_seed rg s = new_random_seed s.
Proof.
  intros rg s. unfold gen_new_random_seed, rng_randint, new_random_seed, SEED_MAX.
  destruct (draw_randint 0 2147483647 s) as [[v s']|e]; reflexivity.
Qed.
Print Assumptions link_new_random_seed.

Definition crqZ (c : list nat) : list Z := map Z.of_nat c.
Definition lift3 (r : result (list gate * list nat * stream)) : result (list Z * list gate * stream) :=
  match r with Ok (g, c, s) => Ok (crqZ c, g, s) | Err e => Err e end.

Lemma py_range_0 n : py_range 0 n = map Z.of_nat (seq 0 (Z.to_nat n)).
Proof. unfold py_range. rewrite Z.sub_0_r. apply map_ext. intros; lia. Qed.

Lemma list_set_set_nth {A} (l : list A) v : forall q,
  list_set l q v = if Nat.leb (length l) q then Err "IndexError"%string else Ok (py_set_nth l q v).
Proof.
  induction l as [|h t IH]; intros q; [destruct q; reflexivity|].
  destruct q as [|q]; [reflexivity|]. cbn [list_set length py_set_nth Nat.leb]. rewrite IH.
  destruct (Nat.leb (length t) q); reflexivity.
Qed.

Lemma py_list_set_nat {A} (l : list A) (q : nat) v : py_list_set l (Z.of_nat q) v = list_set l q v.
Proof.
  unfold py_list_set, py_len. cbv zeta. rewrite list_set_set_nth.
  assert (E : (Z.of_nat q <? 0) = false) by (apply Z.ltb_ge; lia).
  rewrite E. cbv iota. rewrite E. cbn [orb]. rewrite Nat2Z.id.
  replace (Z.of_nat (length l) <=? Z.of_nat q) with (Nat.leb (length l) q); [reflexivity|].
  apply eq_true_iff_eq. rewrite Nat.leb_le, Z.leb_le. lia.
Qed.

Lemma qubit_pass_cons prev q rest g c s :
  qubit_pass prev (q :: rest) g c s
  = match qubit_pass prev [q] g c s with Ok (g', c', s') => qubit_pass prev rest g' c' s' | Err e => Err e end.
Proof.
  cbn [qubit_pass].
  destruct (match prev with None => Ok false | Some p => do g0 <- Genome.py_index (l_gates p) (zq q); Ok (gate_is_rot_or_id g0) end) as [[|]|e];
    cbn [bind]; [reflexivity| |reflexivity].
  destruct (draw_choice 2 s) as [[i s']|e]; cbn [bind fst snd]; [|reflexivity].
  destruct (Nat.eqb i 1); [reflexivity|].
  destruct (list_set g q (GRot (zq q))); reflexivity.
Qed.

Lemma crqZ_app c q : (crqZ c ++ [Z.of_nat q])%list = crqZ (c ++ [q]).
Proof. unfold crqZ. rewrite map_app. reflexivity. Qed.

(* the for loop over the qubits: any body that agrees with one step of the model's qubit_pass *)
Lemma qubit_pass_link prev (body : list Z * list gate * stream -> Z -> result (list Z * list gate * stream)) :
  (forall q c g s, body (crqZ c, g, s) (Z.of_nat q) = lift3 (qubit_pass prev [q] g c s)) ->
  forall qs c g s, py_foldM body (map Z.of_nat qs) (crqZ c, g, s) = lift3 (qubit_pass prev qs g c s).
Proof.
  intros H. induction qs as [|q rest IH]; intros c g s; [reflexivity|].
  cbn [map py_foldM]. rewrite (qubit_pass_cons prev q rest), H.
  destruct (qubit_pass prev [q] g c s) as [[[g' c'] s']|e]; cbn [lift3]; [apply IH | reflexivity].
Qed.

(* ------------------------------------------------------------------ the retry loop *)
(* one iteration of the model's pair_loop (without the two ghost counters) *)
Definition pair_step (prev : option layer) (gates : list gate) (crq : list nat) (s : stream)
  : result (list gate * list nat * stream) :=
  match draw_sample (length crq) 2 s with
  | Err e => Err e
  | Ok ([i; j], s') =>
      match nth_error crq i, nth_error crq j with
      | Some r, Some c =>
          if accepts prev r c then
            do g1 <- list_set gates c (GCtrl (zq c) (zq r));
            do g2 <- list_set g1 r (GCRot (zq r) (zq c));
            do c1 <- remove_first crq r;
            do c2 <- remove_first c1 c;
            Ok (g2, c2, s')
          else Ok (gates, crq, s')
      | _, _ => Err "IndexError"%string
      end
  | Ok _ => Err StreamMismatch
  end.

Definition liftW {R} (r : result (list gate * list nat * stream)) : result (ctl R (list gate * list Z * stream)) :=
  match r with Ok (g, c, s) => Ok (Next (g, crqZ c, s)) | Err e => Err e end.

(* any test / body that agree with the model's test / one iteration give the model's loop (for all ghost counters) *)
Lemma pair_loop_link {R} prev (cond : list gate * list Z * stream -> result bool)
      (body : list gate * list Z * stream -> result (ctl R (list gate * list Z * stream))) :
  (forall g c s, cond (g, crqZ c, s) = Ok (negb (Nat.ltb (length c) 2))) ->
  (forall g c s, (2 <= length c)%nat -> body (g, crqZ c, s) = liftW (pair_step prev g c s)) ->
  forall fuel g c s acc rej,
    py_while fuel cond body (g, crqZ c, s) = liftW (snd (pair_loop prev g c s fuel acc rej)).
Proof.
  intros Hc Hb. induction fuel as [|fuel IH]; intros g c s acc rej.
  - cbn [py_while pair_loop]. rewrite Hc. destruct (Nat.ltb (length c) 2); reflexivity.
  - cbn [py_while pair_loop]. rewrite Hc. destruct (Nat.ltb (length c) 2) eqn:L; cbn [negb snd]; [reflexivity|].
    apply Nat.ltb_ge in L. rewrite (Hb g c s L). unfold pair_step.
    destruct (draw_sample (length c) 2 s) as [[idxs s']|e]; [|reflexivity].
    destruct idxs as [|i [|j [|k t]]]; try reflexivity.
    destruct (nth_error c i) as [r|]; [|reflexivity].
    destruct (nth_error c j) as [cc|]; [|reflexivity].
    destruct (accepts prev r cc).
    + destruct (list_set g cc (GCtrl (zq cc) (zq r))) as [g1|e]; cbn [bind]; [|reflexivity].
      destruct (list_set g1 r (GCRot (zq r) (zq cc))) as [g2|e]; cbn [bind]; [|reflexivity].
      destruct (remove_first c r) as [c1|e]; cbn [bind]; [|reflexivity].
      destruct (remove_first c1 cc) as [c2|e]; cbn [bind liftW]; [apply IH|reflexivity].
    + cbn [liftW]. apply IH.
Qed.

Lemma py_list_remove_nat c x :
  py_list_remove Z.eqb (crqZ c) (Z.of_nat x) = match remove_first c x with Ok c' => Ok (crqZ c') | Err e => Err e end.
Proof.
  induction c as [|h t IH]; [reflexivity|]. cbn [crqZ map py_list_remove remove_first].
  replace (Z.of_nat h =? Z.of_nat x) with (Nat.eqb h x) by (apply eq_true_iff_eq; rewrite Nat.eqb_eq, Z.eqb_eq; lia).
  destruct (Nat.eqb h x); [reflexivity|]. fold (crqZ t). rewrite IH. destruct (remove_first t x); reflexivity.
Qed.

Lemma nth_crqZ c i : nth_error (crqZ c) i = option_map Z.of_nat (nth_error c i).
Proof. unfold crqZ. apply nth_error_map. Qed.

Lemma draw_choice2_ok s i s' : draw_choice 2 s = Ok (i, s') -> i = 0%nat \/ i = 1%nat.
Proof.
  unfold draw_choice. cbn [Nat.eqb]. destruct s as [|[] rest]; try discriminate.
  destruct (Nat.eqb len 2 && Nat.ltb idx 2) eqn:E; [|discriminate]. intros H; inversion H; subst.
  apply andb_true_iff in E as [_ E]. apply Nat.ltb_lt in E. lia.
Qed.

Lemma qubit_pass_link' prev (body : list Z * list gate * stream -> Z -> result (list Z * list gate * stream)) :
  (forall q c g s, body (crqZ c, g, s) (Z.of_nat q) = lift3 (qubit_pass prev [q] g c s)) ->
  forall qs g s, py_foldM body (map Z.of_nat qs) ([], g, s) = lift3 (qubit_pass prev qs g [] s).
Proof. intros H qs g s. exact (qubit_pass_link prev body H qs [] g s). Qed.

Lemma map_GId qs : map (fun q : Z => GId q) (map Z.of_nat qs) = map (fun q : nat => GId (zq q)) qs.
Proof. rewrite map_map. reflexivity. Qed.

Lemma link_random_layer : forall n prev seed s fuel, gen_random_layer n prev seed s fuel = random_layer n prev seed s fuel.
Proof.
  intros n prev seed s fuel. unfold gen_random_layer, random_layer, random_layer_pairs.
  destruct (n <? 1); [reflexivity|].
  rewrite py_range_0. unfold rng_new.
  set (qs := seq 0 (Z.to_nat n)).
  replace (match prev with Some p => if negb (l_qubits p =? n) then Err "EVQECircuitLayerException"%string else Ok tt | None => Ok tt end)
    with (if match prev with Some p => negb (l_qubits p =? n) | None => false end then Err LayerException else Ok tt)
    by (destruct prev as [p|]; reflexivity).
  destruct (match prev with Some p => negb (l_qubits p =? n) | None => false end); [reflexivity|].
  cbn [bind]. destruct (draw_seed seed s) as [s0|e]; [|reflexivity]. cbn [bind snd].
  rewrite map_GId.
  rewrite (qubit_pass_link' prev).
  2:{ (* one iteration of the for loop = one step of qubit_pass *)
    intros q c g st. cbn [qubit_pass]. destruct prev as [p|].
    - change (PyPrelude.py_index (l_gates p) (Z.of_nat q)) with (Genome.py_index (l_gates p) (zq q)).
      destruct (Genome.py_index (l_gates p) (zq q)) as [g0|e]; [|reflexivity]. cbn [bind].
      unfold rng_choice.
      destruct g0; cbn [gate_type_of py_mem existsb gate_type_eqb orb gate_is_rot_or_id]; cbn [bind];
        try (rewrite crqZ_app; reflexivity).
      all: cbn [length]; destruct (draw_choice 2 st) as [[i s']|e] eqn:D; [|reflexivity];
        destruct (draw_choice2_ok _ _ _ D) as [-> | ->]; cbn [bind fst snd rng_nth nth_error gate_type_eqb Nat.eqb];
        try (rewrite crqZ_app; reflexivity);
        rewrite py_list_set_nat; unfold zq; destruct (list_set g q (GRot (Z.of_nat q))); reflexivity.
    - cbn [bind]. unfold rng_choice. cbn [length].
      destruct (draw_choice 2 st) as [[i s']|e] eqn:D; [|reflexivity].
      destruct (draw_choice2_ok _ _ _ D) as [-> | ->]; cbn [bind fst snd rng_nth nth_error gate_type_eqb Nat.eqb];
        try (rewrite crqZ_app; reflexivity).
      rewrite py_list_set_nat; unfold zq; destruct (list_set g q (GRot (Z.of_nat q))); reflexivity. }
  destruct (qubit_pass prev qs (map (fun q : nat => GId (zq q)) qs) [] s0) as [[[gates crq] s1]|e]; [|reflexivity].
  cbn [lift3 bind].
  rewrite (pair_loop_link prev) with (acc := 0%nat) (rej := 0%nat).
  2:{ (* the loop test *)
    intros g c st. cbn beta iota. f_equal. unfold py_len, crqZ. rewrite map_length.
    apply eq_true_iff_eq. rewrite Z.leb_le, negb_true_iff, Nat.ltb_ge. lia. }
  2:{ (* one iteration of the while loop = one step of pair_loop *)
    intros g c st L. cbn beta iota. unfold rng_sample, pair_step.
    change (2 <? 0) with false. cbv iota. change (Z.to_nat 2) with 2%nat.
    replace (length (crqZ c)) with (length c) by (unfold crqZ; rewrite map_length; reflexivity).
    destruct (draw_sample (length c) 2 st) as [[idxs s']|e] eqn:D; [|reflexivity].
    destruct (draw_sample2_ok _ _ _ _ D) as [i [j [-> [Hi [Hj _]]]]].
    cbn [bind fst snd mapM]. unfold rng_nth. rewrite !nth_crqZ.
    destruct (nth_error c i) as [r|] eqn:Ei; [|apply nth_error_None in Ei; lia].
    destruct (nth_error c j) as [cc|] eqn:Ej; [|apply nth_error_None in Ej; lia].
    cbn [option_map bind fst snd]. unfold py_unpack2. cbn [bind fst snd].
    replace (match prev with
             | Some p => negb (py_mem gate_eqb (GCRot (Z.of_nat r) (Z.of_nat cc)) (l_gates p)) && negb (py_mem gate_eqb (GCtrl (Z.of_nat cc) (Z.of_nat r)) (l_gates p))
             | None => false end || match prev with Some _ => false | None => true end)
      with (accepts prev r cc) by (destruct prev as [p|]; cbn [accepts]; [rewrite orb_false_r|]; reflexivity).
    destruct (accepts prev r cc); [|reflexivity].
    rewrite py_list_set_nat. unfold zq.
    destruct (list_set g cc (GCtrl (Z.of_nat cc) (Z.of_nat r))) as [g1|e]; cbn [bind]; [|reflexivity].
    rewrite py_list_set_nat.
    destruct (list_set g1 r (GCRot (Z.of_nat r) (Z.of_nat cc))) as [g2|e]; cbn [bind]; [|reflexivity].
    fold (crqZ c). rewrite py_list_remove_nat.
    destruct (remove_first c r) as [c1|e]; cbn [bind]; [|reflexivity].
    rewrite py_list_remove_nat.
    destruct (remove_first c1 cc) as [c2|e]; reflexivity. }
  destruct (pair_loop prev gates crq s1 fuel 0 0) as [[acc rej] r]. cbn [snd].
  destruct r as [[[g2 c2] s2]|e]; [|reflexivity]. cbn [liftW bind].
  (* the last remaining candidate, the constructor *)
  f_equal. unfold last_qubit.
  destruct c2 as [|q [|q2 t]].
  - reflexivity.
  - change (py_len (crqZ [q]) =? 1) with true. cbv iota.
    change (PyPrelude.py_index (crqZ [q]) 0) with (@Ok Z (Z.of_nat q)). cbn [bind].
    destruct prev as [p|].
    + change (PyPrelude.py_index (l_gates p) (Z.of_nat q)) with (Genome.py_index (l_gates p) (zq q)).
      destruct (Genome.py_index (l_gates p) (zq q)) as [g0|e]; [|reflexivity]. cbn [bind].
      rewrite !py_list_set_nat. unfold zq.
      destruct g0; cbn [gate_type_of gate_type_eqb gate_is_rot];
        match goal with |- context [list_set ?a ?b ?c] => destruct (list_set a b c) end; reflexivity.
    + cbn [bind]. rewrite py_list_set_nat. unfold zq. destruct (list_set g2 q (GRot (Z.of_nat q))); reflexivity.
  - replace (py_len (crqZ (q :: q2 :: t)) =? 1) with false; [reflexivity|].
    symmetry. apply Z.eqb_neq. unfold py_len, crqZ. cbn [map length]. lia.
Qed.
Print Assumptions link_random_layer.

(* ------------------------------------------------------------------ individuals, populations *)
Lemma py_range_length lo hi : length (py_range lo hi) = Z.to_nat (hi - lo).
Proof. unfold py_range. rewrite map_length, seq_length. reflexivity. Qed.

Lemma sum_n_params ls : py_sum_Z (map (fun l => layer_n_parameters l) ls) = n_params_of ls.
Proof. rewrite py_sum_Z_sumZ. reflexivity. Qed.

(* the loop `for _ in range(0, n_layers): layer = random_layer(n, previous, new_random_seed(gen)); append; previous = layer`
   for any loop-state type St related to (previous layer, layers so far, stream) by R *)
Lemma layers_loop_link {St A} (R : option layer -> list layer -> stream -> St -> Prop) n fuel (body : St -> A -> result St) :
  (forall prev acc s st x, R prev acc s st ->
     match (do sd <- new_random_seed s; random_layer n prev (Some (fst sd)) (snd sd) fuel) with
     | Ok (l, s') => exists st', body st x = Ok st' /\ R (Some l) (acc ++ [l]) s' st'
     | Err e => body st x = Err e
     end) ->
  forall xs prev acc s st, R prev acc s st ->
     match random_layers true n prev (length xs) s fuel with
     | Ok (ls, s') => exists st' p, py_foldM body xs st = Ok st' /\ R p (acc ++ ls) s' st'
     | Err e => py_foldM body xs st = Err e
     end.
Proof.
  intros H. induction xs as [|x xs IH]; intros prev acc s st HR.
  - cbn. exists st, prev. rewrite app_nil_r. split; [reflexivity | exact HR].
  - cbn [length random_layers py_foldM]. specialize (H prev acc s st x HR).
    destruct (new_random_seed s) as [[sd s1]|e]; cbn [bind fst snd] in *; [|rewrite H; reflexivity].
    destruct (random_layer n prev (Some sd) s1 fuel) as [[l s2]|e]; cbn [bind fst snd] in *; [|rewrite H; reflexivity].
    destruct H as [st' [Hb HR']]. rewrite Hb. specialize (IH (Some l) (acc ++ [l]) s2 st' HR').
    destruct (random_layers true n (Some l) (length xs) s2 fuel) as [[ls s3]|e]; cbn [bind fst snd]; [|exact IH].
    destruct IH as [st'' [p [Hf HR'']]]. exists st'', p. split; [exact Hf|].
    rewrite <- app_assoc in HR''. exact HR''.
Qed.

(* tuple(2 * pi * gen.random() for _ in range(0, n)) *)
Lemma randoms_link {A} (f : A -> stream -> result (Z * stream)) :
  (forall x s, f x s = do r <- draw_random s; Ok (fst r, snd r)) ->
  forall xs s, py_mapM_st f xs s = draw_randoms (length xs) s.
Proof.
  intros H. induction xs as [|x xs IH]; intros s; [reflexivity|].
  cbn [py_mapM_st length draw_randoms]. rewrite H.
  destruct (draw_random s) as [[t s1]|e]; cbn [bind fst snd]; [|reflexivity].
  rewrite IH. reflexivity.
Qed.

(* The float operations the code applies to parameter values are parameters of the generated functions.  The model
   (RandLayer.v) works on integer TOKENS: "token 0 is the value 0 the code writes for randomize_parameter_values=False,
   DRandom t carries the token of 2*pi*random()".  The two premises `tok_zero` / `tok_two_pi_random` of the lemmas
   below ARE that convention (what the harness implements when it tokenises the floats, harness/props/c20.py:
   value_of_random = 2*pi*r, tok(0.0) = 0); they are not facts about Python and not invariants of objects.  The links
   hold for every of_int / pi_ / fmul / rnd satisfying them, so the literal `2`, the constant `pi`, the operand
   order and the literal `0` of the source are all pinned. *)
Definition tok_zero (of_int : Z -> Z) : Prop := of_int 0 = 0.
Definition tok_two_pi_random (of_int : Z -> Z) (pi_ : Z) (fmul : Z -> Z -> Z) (rnd : Z -> Z) : Prop :=
  forall t, fmul (fmul (of_int 2) pi_) (rnd t) = t.

(* the convention is satisfiable: tokens are themselves (of_int = id, rnd = id), multiplying a token by the token of 2*pi gives the token *)
Example tok_convention_satisfiable :
  tok_zero (fun z => z) /\ tok_two_pi_random (fun z => z) 0 (fun a b => b) (fun t => t).
Proof. split; [reflexivity | intros t; reflexivity]. Qed.

Lemma values_link of_int pi_ fmul rnd : tok_zero of_int -> tok_two_pi_random of_int pi_ fmul rnd ->
  forall randomize np s,
  (if randomize : bool
   then do r <- py_mapM_st (fun (_ : Z) (s0 : stream) => do r0 <- rng_random rnd s0; Ok (fmul (fmul (of_int 2) pi_) (fst r0), snd r0)) (py_range 0 np) s;
        Ok (fst r, snd r)
   else Ok (repeat (of_int 0) (Z.to_nat np), s))
  = random_values randomize np s.
Proof.
  intros T0 T2 randomize np s.
  unfold random_values. destruct randomize; [|rewrite T0; reflexivity].
  rewrite randoms_link.
  - rewrite py_range_length, Z.sub_0_r. destruct (draw_randoms (Z.to_nat np) s) as [[vs s']|e]; reflexivity.
  - intros x s0. unfold rng_random. destruct (draw_random s0) as [[t s1]|e]; cbn [bind fst snd]; [|reflexivity].
    rewrite T2. reflexivity.
Qed.

Lemma link_random_individual : forall of_int pi_ fmul rnd, tok_zero of_int -> tok_two_pi_random of_int pi_ fmul rnd ->
  forall n n_layers randomize seed s fuel,
  gen_random_individual Z of_int pi_ fmul rnd n n_layers randomize seed s fuel
  = random_individual n n_layers randomize seed s fuel.
Proof.
  intros of_int pi_ fmul rnd T0 T2 n nl randomize seed s fuel. unfold gen_random_individual, random_individual, rng_new.
  destruct (draw_seed seed s) as [s0|e]; [|reflexivity]. cbn [bind fst snd].
  match goal with |- context [py_foldM ?b (py_range 0 nl) ?st] => set (body := b) end.
  assert (Hstep : forall prev acc s1 (st : option layer * list layer * stream) (x : Z), st = (prev, acc, s1) ->
            match (do sd <- new_random_seed s1; random_layer n prev (Some (fst sd)) (snd sd) fuel) with
            | Ok (l, s') => exists st', body st x = Ok st' /\ st' = (Some l, (acc ++ [l])%list, s')
            | Err e => body st x = Err e
            end).
  { intros prev acc s1 st x ->. unfold body. rewrite link_new_random_seed.
    destruct (new_random_seed s1) as [[sd s2]|e]; cbn [bind fst snd]; [|reflexivity].
    rewrite link_random_layer. destruct (random_layer n prev (Some sd) s2 fuel) as [[l s3]|e]; cbn [bind fst snd]; [|reflexivity].
    eexists; split; reflexivity. }
  pose proof (layers_loop_link (fun prev acc s1 st => st = (prev, acc, s1)) n fuel body Hstep (py_range 0 nl) None [] s0 _ eq_refl) as L.
  rewrite py_range_length, Z.sub_0_r in L.
  destruct (random_layers true n None (Z.to_nat nl) s0 fuel) as [[ls s1]|e]; [destruct L as [st' [p [L ->]]] | ]; rewrite L; cbn [bind fst snd app]; [|reflexivity].
  rewrite sum_n_params, (values_link of_int pi_ fmul rnd T0 T2).
  destruct (random_values randomize (n_params_of ls) s1) as [[vs s2]|e]; reflexivity.
Qed.
Print Assumptions link_random_individual.

Lemma py_index_m1_last_res {A} (l : list A) : PyPrelude.py_index l (-1) = last_res l.
Proof.
  rewrite py_index_last. destruct l as [|a b] using rev_ind; [reflexivity|]. clear IHb.
  rewrite last_res_app. destruct (b ++ [a])%list as [|c d] eqn:E; [destruct b; discriminate|]. rewrite <- E.
  rewrite app_length. cbn [length]. replace (length b + 1 - 1)%nat with (length b) by lia.
  rewrite nth_error_app2 by lia. rewrite Nat.sub_diag. reflexivity.
Qed.

Lemma link_add_random_layers : forall of_int pi_ fmul rnd, tok_zero of_int -> tok_two_pi_random of_int pi_ fmul rnd ->
  forall (i : individual Z) n_layers randomize seed s fuel,
  gen_add_random_layers Z of_int pi_ fmul rnd i n_layers randomize seed s fuel
  = add_random_layers false i n_layers randomize seed s fuel.
Proof.
  intros of_int pi_ fmul rnd T0 T2 i nl randomize seed s fuel. unfold gen_add_random_layers, add_random_layers, rng_new.
  destruct (nl <? 1); [reflexivity|].
  destruct (draw_seed seed s) as [s0|e]; [|reflexivity]. cbn [bind fst snd negb].
  rewrite py_index_m1_last_res.
  destruct (i_layers i) as [|first t] eqn:E; [reflexivity|].
  destruct (last_res (first :: t)) as [prev|e]; [|reflexivity]. cbn [bind head_res].
  change (PyPrelude.py_index (first :: t) 0) with (@Ok layer first).
  match goal with |- context [py_foldM ?b (py_range 0 nl) ?st] => set (body := b) end.
  assert (Hstep : forall pv acc s1 (st : list layer * layer * stream) (x : Z), (exists p, pv = Some p /\ st = (acc, p, s1)) ->
            match (do sd <- new_random_seed s1; random_layer (l_qubits first) pv (Some (fst sd)) (snd sd) fuel) with
            | Ok (l, s') => exists st', body st x = Ok st' /\ (exists p, Some l = Some p /\ st' = ((acc ++ [l])%list, p, s'))
            | Err e => body st x = Err e
            end).
  { intros pv acc s1 st x [p [-> ->]]. unfold body. cbn [bind]. rewrite link_new_random_seed.
    destruct (new_random_seed s1) as [[sd s2]|e]; cbn [bind fst snd]; [|reflexivity].
    rewrite link_random_layer. destruct (random_layer (l_qubits first) (Some p) (Some sd) s2 fuel) as [[l s3]|e]; cbn [bind fst snd]; [|reflexivity].
    eexists; split; [reflexivity|]. exists l. split; reflexivity. }
  pose proof (layers_loop_link (fun pv acc s1 st => exists p, pv = Some p /\ st = (acc, p, s1)) (l_qubits first) fuel body Hstep
                (py_range 0 nl) (Some prev) [] s0 _ (ex_intro _ prev (conj eq_refl eq_refl))) as L.
  rewrite py_range_length, Z.sub_0_r in L.
  destruct (random_layers true (l_qubits first) (Some prev) (Z.to_nat nl) s0 fuel) as [[ls s1]|e];
    [destruct L as [st' [pv [L [p [_ ->]]]]] | ]; rewrite L; cbn [bind fst snd app]; [|reflexivity].
  rewrite sum_n_params, (values_link of_int pi_ fmul rnd T0 T2).
  destruct (random_values randomize (n_params_of ls) s1) as [[vs s2]|e]; cbn [bind fst snd]; [|reflexivity].
  unfold add_layers. rewrite E. reflexivity.
Qed.
Print Assumptions link_add_random_layers.

(* tuple(random_individual(..., new_random_seed(gen)) for _ in range(0, n_individuals)) *)
Lemma individuals_link {A} n nl randomize fuel (f : A -> stream -> result (individual Z * stream)) :
  (forall x s, f x s = do sd <- new_random_seed s; random_individual n nl randomize (Some (fst sd)) (snd sd) fuel) ->
  forall xs s, py_mapM_st f xs s = random_individuals n nl randomize (length xs) s fuel.
Proof.
  intros H. induction xs as [|x xs IH]; intros s; [reflexivity|].
  cbn [py_mapM_st length random_individuals]. rewrite H.
  destruct (new_random_seed s) as [[sd s1]|e]; cbn [bind fst snd]; [|reflexivity].
  destruct (random_individual n nl randomize (Some sd) s1 fuel) as [[i s2]|e]; cbn [bind fst snd]; [|reflexivity].
  rewrite IH. reflexivity.
Qed.

Lemma link_random_population : forall of_int pi_ fmul rnd, tok_zero of_int -> tok_two_pi_random of_int pi_ fmul rnd ->
  forall n n_layers n_individuals randomize seed s fuel,
  gen_random_population Z of_int pi_ fmul rnd n n_layers n_individuals randomize seed s fuel
  = random_population n n_layers n_individuals randomize seed s fuel.
Proof.
  intros of_int pi_ fmul rnd T0 T2 n nl ni randomize seed s fuel. unfold gen_random_population, random_population, rng_new.
  destruct (draw_seed seed s) as [s0|e]; [|reflexivity]. cbn [bind fst snd].
  rewrite (individuals_link n nl randomize fuel).
  - rewrite py_range_length, Z.sub_0_r.
    destruct (random_individuals n nl randomize (Z.to_nat ni) s0 fuel) as [[is s1]|e]; reflexivity.
  - intros x s1. rewrite link_new_random_seed.
    destruct (new_random_seed s1) as [[sd s2]|e]; cbn [bind fst snd]; [|reflexivity].
    rewrite (link_random_individual of_int pi_ fmul rnd T0 T2).
    destruct (random_individual n nl randomize (Some sd) s2 fuel) as [[i s3]|e]; reflexivity.
Qed.
Print Assumptions link_random_population.
