#!/venv/bin/python
"""/verif/check <ID> [--tier quick|thorough] [--replay <path>]

Protocol (DESIGN.md 3.5):
  1. build Props/<ID>.v and its dependencies; every theorem must print closed assumptions;
  2. run the property module (corpus first, then generated cases): property oracle on the implementation
     in /repo's working tree, and the model/implementation correspondence through Coq;
  3. report: VIOLATION lines (exit 1), KNOWN-FINDING lines (exit 0), evidence file rewritten.
"""
from __future__ import annotations

import argparse
import hashlib
import importlib
import json
import os
import sys
import time
import traceback
from pathlib import Path

sys.path.insert(0, str(Path(__file__).resolve().parent))
from vlib import core  # noqa: E402

KERNEL_TRUST = [
    "Coq 8.16.1 kernel (coqc; coqchk re-check in the thorough tier); vm_compute used in witnesses/examples/case files; no native_compute",
    "hand-written Gallina model tied to /repo by this run's correspondence check (differential, not a proof)",
]


def write_replay(pid: str, payload: dict) -> str:
    d = core.ROOT / "replays" / pid
    d.mkdir(parents=True, exist_ok=True)
    blob = json.dumps(payload, sort_keys=True, default=core.jdefault, indent=1)
    p = d / (hashlib.sha1(blob.encode()).hexdigest()[:12] + ".json")
    p.write_text(blob)
    return str(p)


def main():
    ap = argparse.ArgumentParser()
    ap.add_argument("pid")
    ap.add_argument("--tier", default=os.environ.get("VERIF_TIER", "quick"), choices=["quick", "thorough"])
    ap.add_argument("--replay")
    ap.add_argument("--skip-proofs", action="store_true", help="developer switch: correspondence/oracle only (evidence not written)")
    a = ap.parse_args()
    pid = a.pid.upper()
    seed = int(os.environ.get("VERIF_SEED", "20261001"))
    os.environ.setdefault("PYTHONHASHSEED", "0")
    ctx = core.Ctx(pid, a.tier, seed)
    try:
        mod = importlib.import_module(f"props.{pid.lower()}")
    except ModuleNotFoundError:
        print(f"ERROR: no check module for {pid}")
        return 2
    meta = json.loads((core.ROOT / "harness" / "props" / f"{pid.lower()}.meta.json").read_text())
    core.ALLOWED_AXIOMS[pid] = meta.get("allowed_axioms", [])

    # ---- 1. proof obligations
    proofs = dict(obligations=0, discharged=0, theorems=[], ok=True, failed=None)
    if not a.skip_proofs and not a.replay:
        proofs = core.check_props(pid, clean=(a.tier == "thorough"))
        if proofs["failed"]:
            ctx.violation("proof", "proof-obligation", f"proof obligation of {pid} no longer checks: {proofs['failed']}", detail=proofs.get("log", "")[-1500:])
        if a.tier == "thorough":
            bad = core.grep_forbidden()
            if bad:
                ctx.violation("proof", "forbidden-token", "Admitted/Axiom/... present in the development", detail=bad[:20])
            if meta.get("coqchk", True) and not proofs["failed"]:
                rc, out, secs = core._run(["coqchk", "-silent", "-o"] + core.COQ_ARGS[:3] + [f"QV.Props.{pid}"], 3000)
                ctx.notes["coqchk"] = dict(rc=rc, seconds=round(secs, 1), tail=out[-1500:])
                if rc != 0:
                    ctx.violation("proof", "coqchk", f"coqchk rejects QV.Props.{pid}", detail=out[-1500:])

    extra = meta.get("coq_targets", [])
    if extra:
        ok, log = core.coq_build(extra)
        if not ok:
            print("ERROR: model files do not build:", log[-1500:])
            return 2

    # ---- 2. implementation: oracle + correspondence
    try:
        core.use_repo()
    except Exception:
        print("ERROR: cannot import queasars from", core.REPO)
        traceback.print_exc()
        return 2
    try:
        if a.replay:
            case = json.loads(Path(a.replay).read_text())
            mod.replay(ctx, case)
        else:
            mod.run(ctx)
    except Exception:
        print(f"ERROR: check module for {pid} crashed")
        traceback.print_exc()
        if not ctx.violations:
            return 2
        # violations recorded before the crash are still reported (a changed implementation may drive the harness into
        # a state it cannot handle; what it had already found is the more useful answer than "crashed")
        crashed = True

    crashed = locals().get('crashed', False)

    # ---- 3. outcome
    known = [k for k in core.load_findings() if k["property"] == pid]
    known_keys = {k["key"]: k for k in known}
    oracle = [v for v in ctx.violations if v["kind"] == "oracle"]
    other = [v for v in ctx.violations if v["kind"] != "oracle"]
    lines, exit_code, seen_known = [], 0, set()
    new_oracle = []
    for v in oracle:
        if v["key"] in known_keys:
            if v["key"] not in seen_known:
                seen_known.add(v["key"])
                lines.append(f"KNOWN-FINDING: property={pid} {known_keys[v['key']]['what']}")
        else:
            new_oracle.append(v)
    reported = set()
    for v in new_oracle:
        if v["key"] in reported:
            continue
        reported.add(v["key"])
        path = write_replay(pid, dict(property=pid, kind="oracle", key=v["key"], what=v["what"], case=v["case"], detail=v["detail"], seed=seed, tier=a.tier))
        lines.append(f"VIOLATION property={pid} replay={path}")
        exit_code = 1
        if len(reported) >= 5:
            break
    if other:
        # a broken proof obligation / correspondence: the oracle already searched for a failing input
        for v in other[:3]:
            witness = new_oracle[0] if new_oracle else None
            path = write_replay(pid, dict(property=pid, kind=v["kind"], key=v["key"], what=v["what"], case=v["case"], detail=v["detail"], seed=seed, tier=a.tier, failing_input=(witness or {}).get("case")))
            if witness is None:
                lines.append(f"VIOLATION property={pid} replay={path} no-failing-input-found")
            else:
                lines.append(f"VIOLATION property={pid} replay={path}")
            exit_code = 1

    wall = time.time() - ctx.t0
    if not a.replay and not a.skip_proofs and not crashed:
        ev = dict(
            property_id=pid,
            tier=a.tier,
            seed=seed,
            level="proof",
            coverage=dict(
                obligations=proofs["obligations"],
                discharged=proofs["discharged"],
                checker_cmd=f"tools/build.sh theories/Props/{pid}.vo && coqc -Q coq/theories QV coq/theories/Props/{pid}.v  (Print Assumptions under every theorem)" + ("; coqchk -o QV.Props.%s" % pid if a.tier == "thorough" else ""),
                trusted_base=KERNEL_TRUST + meta.get("trusted_base", []) + ctx.trusted,
                theorems=[dict(name=t["name"], closed=t["closed"], axioms=t["axioms"]) for t in proofs["theorems"]],
                evaluations=ctx.evaluations,
                distinct_nontrivial=len(ctx.nontrivial),
                rule=ctx.rule or meta.get("rule", ""),
                samples=ctx.samples,
                traces_validated_against_impl=ctx.traces or ctx.evaluations,
                input_distribution=ctx.dist,
                exhaustive=ctx.exhaustive,
                notes=ctx.notes,
                known_findings_reported=sorted(seen_known),
                partial=bool(meta.get("partial", False)),
                claim=meta.get("level_text", ""),
                claim_note=meta.get("level_note", ""),
            ),
            assumptions=meta.get("assumptions", []) + ctx.assumptions,
            wall_s=round(wall, 2),
            violations=len(new_oracle) + len(other),
        )
        scratch = core.REPO.resolve() != Path("/repo")
        evdir = (core.BUILD / "evidence_scratch") if scratch else (core.ROOT / "evidence")
        evdir.mkdir(parents=True, exist_ok=True)
        (evdir / f"{pid}.json").write_text(json.dumps(ev, indent=1, default=core.jdefault, sort_keys=True))
    for l in lines:
        print(l)
    print(f"[{pid} {a.tier}] theorems {proofs['discharged']}/{proofs['obligations']} closed; {ctx.evaluations} cases ({len(ctx.nontrivial)} distinct non-trivial); "
          f"{len(new_oracle)} oracle violations, {len(other)} proof/correspondence breaks; {wall:.1f}s")
    return exit_code


if __name__ == "__main__":
    sys.exit(main())
