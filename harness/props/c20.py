"""C20 — random genome generation yields valid, redundancy-free structures.
Implementation side: the real constructors run with seeds; a logging random.Random (vlib/rnglog.py) records
every decision.  Oracle: validity / parameter count / no_repeat evaluated here on plain data.
Correspondence: the logged decisions drive the Coq model (QV.Evqe.RandLayer), which must return the same
structure and consume the stream exactly (QV.Evqe.C20Check.check_case).  Exhaustive part: a scripted Random
drives the implementation down every path of its decision tree for small n."""
from __future__ import annotations

import itertools
import json
import math

from vlib import core, evqe, rnglog
from vlib import translate
from vlib.core import g_bool, g_list, g_opt, g_z

IMPORTS = "From QV Require Import Evqe.RandLayer Evqe.C20Check."
MAX_EVENTS = 20000  # a run drawing more decisions than this counts as "does not terminate"
LAYER_EXC, IND_EXC = "EVQECircuitLayerException", "EVQEIndividualException"


# ------------------------------------------------------------------ objects -> plain data (by isinstance: user subclasses of the gates count as their base kind)
def plain_gate(g):
    from queasars.minimum_eigensolvers.evqe.quantum_circuit.quantum_gate import ControlGate, ControlledRotationGate, IdentityGate, RotationGate

    if isinstance(g, ControlledRotationGate):
        return ["CR", g.qubit_index, g.control_qubit_index]
    if isinstance(g, ControlGate):
        return ["C", g.qubit_index, g.controlled_qubit_index]
    if isinstance(g, RotationGate):
        return ["R", g.qubit_index]
    if isinstance(g, IdentityGate):
        return ["I", g.qubit_index]
    raise ValueError(type(g).__name__)


def plain_layer(l):
    return {"n": l.n_qubits, "gates": [plain_gate(g) for g in l.gates]}


def plain_individual(i):
    return {"n": i.n_qubits, "layers": [plain_layer(l) for l in i.layers], "values": [float(v) for v in i.parameter_values]}


_SUBCLASSES = {}


def gate_subclasses():
    """user subclasses of the four gate classes that override apply_gate only (legal: validity uses isinstance)"""
    if not _SUBCLASSES:
        from dataclasses import dataclass

        from queasars.minimum_eigensolvers.evqe.quantum_circuit.quantum_gate import ControlGate, ControlledRotationGate, IdentityGate, RotationGate

        for kind, base in (("I", IdentityGate), ("R", RotationGate), ("C", ControlGate), ("CR", ControlledRotationGate)):
            def apply_gate(self, circuit, parameter_name_prefix, _base=base):
                _base.apply_gate(self, circuit, parameter_name_prefix)

            _SUBCLASSES[kind] = dataclass(frozen=True)(type("User" + base.__name__, (base,), {"apply_gate": apply_gate}))
    return _SUBCLASSES


def impl_layer_sub(l):
    """plain layer -> implementation layer; a gate kind with a trailing '*' becomes an instance of the user subclass"""
    from queasars.minimum_eigensolvers.evqe.quantum_circuit.circuit_layer import EVQECircuitLayer

    gates = []
    for g in l["gates"]:
        if g[0].endswith("*"):
            gates.append(gate_subclasses()[g[0][:-1]](*g[1:]))
        else:
            gates.append(evqe.impl_gate(g))
    return EVQECircuitLayer(n_qubits=l["n"], gates=tuple(gates))


def strip_stars(l):
    return {"n": l["n"], "gates": [[g[0].rstrip("*")] + list(g[1:]) for g in l["gates"]]}


# ------------------------------------------------------------------ oracle on plain data
def valid_layer(l) -> bool:
    """The documented validity of a circuit layer, written independently of the implementation."""
    gs = l["gates"]
    if len(gs) != l["n"]:
        return False
    for i, g in enumerate(gs):
        if g[1] != i:
            return False
        if g[0] == "CR":
            if not (0 <= g[2] < len(gs) and g[2] != i and gs[g[2]] == ["C", g[2], i]):
                return False
        if g[0] == "C":
            if not (0 <= g[2] < len(gs) and g[2] != i and gs[g[2]] == ["CR", g[2], i]):
                return False
    return True


def repeats(prev, new):
    """Positions where `new` repeats what `prev` already applies: rotation on rotation, or the same
    controlled rotation (same target and control)."""
    bad = []
    for p, g in zip(prev["gates"], new["gates"]):
        if p[0] == "R" and g[0] == "R":
            bad.append(g)
        if p[0] == "CR" and g[0] == "CR" and p[1:] == g[1:]:
            bad.append(g)
    return bad


def chain_repeats(layers, start=0):
    return [(k + 1, repeats(layers[k], layers[k + 1])) for k in range(start, len(layers) - 1) if repeats(layers[k], layers[k + 1])]


def n_param_gates(l):
    return sum(1 for g in l["gates"] if g[0] in ("R", "CR"))


def check_layer_object(ctx, case, obj, where):
    """validity + parameter count of an implementation layer object"""
    pl = plain_layer(obj)
    if not valid_layer(pl) or not obj.is_valid():
        ctx.violation("oracle", f"{where}-invalid-layer", f"{where}: returned layer is not valid: {pl}", case)
    if obj.n_parameters != 3 * n_param_gates(pl):
        ctx.violation("oracle", f"{where}-parameter-count", f"{where}: n_parameters={obj.n_parameters} but the layer has {n_param_gates(pl)} (controlled) rotations", case)
    return pl


def check_individual_object(ctx, case, obj, where, n, n_layers=None):
    pi = plain_individual(obj)
    for l in obj.layers:
        check_layer_object(ctx, case, l, where)
    want = sum(3 * n_param_gates(l) for l in pi["layers"])
    if len(obj.parameter_values) != want or not obj.is_valid() or pi["n"] != n or any(l["n"] != n for l in pi["layers"]):
        ctx.violation("oracle", f"{where}-invalid-individual", f"{where}: individual invalid or parameter count {len(obj.parameter_values)} != {want}", case)
    if n_layers is not None and len(pi["layers"]) != n_layers:
        ctx.violation("oracle", f"{where}-layer-count", f"{where}: {len(pi['layers'])} layers instead of {n_layers}", case)
    return pi


# ------------------------------------------------------------------ running the implementation
def tok_table():
    t = evqe.TokenTable()
    t.tok(0.0)  # token 0 = the value written for randomize_parameter_values=False
    return t


def run_impl(case, script=None, arg=None):
    """-> (("ok", object) | ("exc", class name, message), decisions); `arg`: an existing implementation object to
    use as previous layer / individual instead of building a fresh one from the plain data"""
    from queasars.minimum_eigensolvers.evqe.evolutionary_algorithm.individual import EVQEIndividual
    from queasars.minimum_eigensolvers.evqe.evolutionary_algorithm.population import EVQEPopulation
    from queasars.minimum_eigensolvers.evqe.quantum_circuit.circuit_layer import EVQECircuitLayer

    k = case["kind"]
    log = rnglog.RngLog(max_events=MAX_EVENTS)
    if arg is None and k == "layer" and case["prev"] is not None:
        arg = evqe.impl_layer(case["prev"])
    if arg is None and k == "append":
        arg = evqe.impl_individual(case["ind"])
    try:
        with rnglog.patched(log, script=script):
            if k == "make_layer":
                out = evqe.impl_layer({"n": case["n"], "gates": case["gates"]})
            elif k == "make_individual":
                out = EVQEIndividual(n_qubits=case["n"], layers=tuple(evqe.impl_layer(l) for l in case["layers"]), parameter_values=tuple(case["values"]))
            elif k == "layer":
                out = EVQECircuitLayer.random_layer(n_qubits=case["n"], previous_layer=arg, random_seed=case["seed"])
            elif k == "individual":
                out = EVQEIndividual.random_individual(n_qubits=case["n"], n_layers=case["n_layers"], randomize_parameter_values=case["randomize"], random_seed=case["seed"])
            elif k == "append":
                out = EVQEIndividual.add_random_layers(arg, n_layers=case["n_layers"], randomize_parameter_values=case["randomize"], random_seed=case["seed"])
            else:
                out = EVQEPopulation.random_population(n_qubits=case["n"], n_layers=case["n_layers"], n_individuals=case["n_individuals"], randomize_parameter_values=case["randomize"], random_seed=case["seed"])
        res = ("ok", out)
    except (rnglog.ScriptExhausted, rnglog.ScriptMismatch):
        raise
    except Exception as e:
        res = ("exc", type(e).__name__, str(e)[:200])
    return res, log.decisions()


def g_result(res, g_ok):
    return f"(Ok {g_ok(res[1])})" if res[0] == "ok" else f'(Err "{res[1]}"%string)'


def pick_seed(rng):
    """A seed from new_random_seed's range [0, 2**31 - 1]; one in sixteen is an end of that range or next to it."""
    if rng.random() < 1 / 16:
        return rng.choice([0, 1, 2**31 - 1, 2**31 - 1, 2**31 - 2])
    return rng.randrange(2**31)


def g_seed(s):
    return g_opt(None if s is None else g_z(s))


def plain_result(res):
    """implementation result as comparable plain data"""
    if res[0] != "ok":
        return ["exc", res[1]]
    o = res[1]
    if hasattr(o, "individuals"):
        return ["pop", [[plain_individual(i)["layers"], [float(v).hex() for v in i.parameter_values]] for i in o.individuals]]
    if hasattr(o, "layers"):
        return ["ind", plain_individual(o)["layers"], [float(v).hex() for v in o.parameter_values]]
    return ["layer", plain_layer(o)]


def rewire(layer):
    """A layer with the same gate TYPE on every qubit but differently wired controlled rotations (the controls of
    its first two controlled rotations exchanged), or None if it has fewer than two controlled rotations."""
    crs = [g for g in layer["gates"] if g[0] == "CR"]
    if len(crs) < 2:
        return None
    (_, t1, c1), (_, t2, c2) = crs[0], crs[1]
    gates = [list(g) for g in layer["gates"]]
    gates[t1], gates[c2] = ["CR", t1, c2], ["C", c2, t1]
    gates[t2], gates[c1] = ["CR", t2, c1], ["C", c1, t2]
    return {"n": layer["n"], "gates": gates}


def context_cases(case):
    """Other calls with the SAME seed and different other arguments (run between two runs of `case`)."""
    k, seed = case["kind"], case["seed"]
    eye = lambda n: {"n": n, "gates": [["I", q] for q in range(n)]}
    if k == "layer":
        n, prev = case["n"], case["prev"]
        alts = [rewire(prev)] if prev is not None and rewire(prev) else []
        alts += [None if prev is not None else (eye(n) if n >= 1 else None)]
        return [dict(case, prev=a) for a in alts] + [dict(case, n=n + 1, prev=None)]
    if k == "individual":
        return [dict(case, n_layers=case["n_layers"] + 1, randomize=not case["randomize"]), dict(case, n=case["n"] + 1)]
    if k == "append":
        ind = case["ind"]
        last = ind["layers"][-1] if ind["layers"] else None
        alt = rewire(last) if last else None
        other = {"n": ind["n"], "layers": [alt or eye(ind["n"])], "values": [0.5] * (3 * n_param_gates(alt) if alt else 0)}
        return [dict(case, ind=other), dict(case, n_layers=case["n_layers"] + 1)]
    if k == "population":
        return [dict(case, n_individuals=case["n_individuals"] + 1), dict(case, n_layers=case["n_layers"] + 1)]
    return []


def history_guard(ctx, case):
    """A seeded constructor call must not depend on what was called before in the same process: run the case,
    run other calls with the same seed and different arguments, run the case again - same object, same RNG calls."""
    try:
        r1, d1 = run_impl(case)
        for c in context_cases(case):
            run_impl(c)
        r2, d2 = run_impl(case)
    except Exception:
        return
    if plain_result(r1) != plain_result(r2):
        ctx.violation("oracle", f"{case['kind']}-depends-on-call-history", f"{case['kind']}: the same arguments and seed give a different result after other calls with that seed in the same process: {plain_result(r1)} then {plain_result(r2)}", case)
    elif d1 != d2:
        ctx.violation("correspondence", "rng-sequence-depends-on-call-history", f"{case['kind']}: the same arguments and seed draw a different sequence of random decisions after other calls with that seed in the same process ({len(d1)} then {len(d2)} decisions)", case)


def do_case(ctx, case, script=None):
    """Run one case (or, for kind 'group', a sequence of calls in this one process): oracle verdicts go to ctx,
    the Gallina case literal(s) are returned."""
    if case["kind"] == "group":
        return do_group_case(ctx, case)
    g = do_single_case(ctx, case, script)
    if case.get("model") is False:
        ctx.tally("oracle-only(no model comparison)")
        g = None
    wide = (case["ind"]["n"] if case["kind"] == "append" else case.get("n", 0)) > 64
    if script is None and case["kind"] in ("layer", "individual", "append", "population") and case.get("seed") is not None and not wide:
        ctx.tally("call-history-guard")
        history_guard(ctx, case)
    return g


XPROC_CACHE: dict = {}
XPROC_CODE = r"""
import sys, json, pickle, base64
spec = json.load(sys.stdin)
sys.path[:] = [p for p in sys.path if "queasars" not in p.lower()]
sys.path.insert(0, spec["repo"]); sys.path.insert(0, spec["harness"])
import warnings; warnings.filterwarnings("ignore")
import cloudpickle
from vlib import evqe
out = []
for item in spec["items"]:
    P = cloudpickle if item["pickler"] == "cloudpickle" else pickle
    obj = evqe.impl_individual(item["plain"]) if item["what"] == "individual" else evqe.impl_layer(item["plain"])
    out.append(base64.b64encode(P.dumps(obj)).decode())
sys.stdout.write("XPROC-BEGIN" + json.dumps(out) + "XPROC-END")
"""


def xproc_key(case):
    return json.dumps([case["prevs"], case["xproc"], case["via"], case["n"]], sort_keys=True)


def xproc_items(case):
    """what the other process builds for this case: for pickle, layers (individuals are not picklable with the
    plain pickle module: mappingproxy); for cloudpickle and via=append, whole individuals (as dask ships them)"""
    ind = lambda prev: {"n": case["n"], "layers": [prev], "values": [0.25] * (3 * n_param_gates(prev))}
    whole = case["via"] == "append" and case["xproc"]["pickler"] == "cloudpickle"
    return [dict(what="individual" if whole else "layer", plain=ind(p) if whole else p, pickler=case["xproc"]["pickler"]) for p in case["prevs"]]


def xproc_load(cases):
    """ONE subprocess with another PYTHONHASHSEED builds and pickles the objects of all given cases"""
    import base64
    import os
    import pickle
    import subprocess

    by_seed = {}
    for c in cases:
        by_seed.setdefault(c["xproc"]["hashseed"], []).append(c)
    for hs, cs in by_seed.items():
        items, spans = [], []
        for c in cs:
            it = xproc_items(c)
            spans.append((c, len(items), len(items) + len(it)))
            items += it
        env = dict(os.environ, PYTHONHASHSEED=str(hs), PYTHONWARNINGS="ignore")
        p = subprocess.run(["/venv/bin/python", "-c", XPROC_CODE], input=json.dumps(dict(repo=str(core.REPO), harness=str(core.ROOT / "harness"), items=items)),
                           capture_output=True, text=True, env=env, timeout=600)
        if "XPROC-BEGIN" not in p.stdout:
            raise RuntimeError("cross-process producer failed: " + (p.stderr or p.stdout)[-1500:])
        blobs = json.loads(p.stdout.split("XPROC-BEGIN")[1].split("XPROC-END")[0])
        objs = [pickle.loads(base64.b64decode(b)) for b in blobs]
        for c, a, b in spans:
            XPROC_CACHE[xproc_key(c)] = objs[a:b]


def do_group_case(ctx, case):
    """A sequence of calls in this one process on a list of previous layers: every seed is used on each member
    consecutively, through random_layer or through add_random_layers, and every previous-layer / parent OBJECT is
    built once and reused for all seeds.  Families: previous layers with the same gate type on every qubit but
    differently wired controlled rotations ('wiring'); all previous layers with a controlled rotation ('reuse');
    with case['xproc'] the objects come out of ANOTHER python process (different PYTHONHASHSEED) through pickle /
    cloudpickle and must equal (and hash like) their locally built twins.  The whole sequence is one case (it
    replays in a fresh process); every call is checked like a single case."""
    from queasars.minimum_eigensolvers.evqe.evolutionary_algorithm.individual import EVQEIndividual

    fam = case.get("family", "wiring") + (":xproc-" + case["xproc"]["pickler"] if case.get("xproc") else "")
    ctx.tally(f"group:{fam}:{case['via']}:n={case['n']}")
    out = []
    before = len(ctx.violations)
    plain_ind = lambda prev: {"n": case["n"], "layers": [strip_stars(prev)], "values": [0.25] * (3 * n_param_gates(strip_stars(prev)))}
    try:
        if case.get("family") == "subclass":
            layers = [impl_layer_sub(p) for p in case["prevs"]]
            objs = layers if case["via"] == "layer" else [EVQEIndividual(n_qubits=case["n"], layers=(l,), parameter_values=tuple(plain_ind(p)["values"])) for l, p in zip(layers, case["prevs"])]
        elif case.get("xproc"):
            if xproc_key(case) not in XPROC_CACHE:
                xproc_load([case])
            objs = list(XPROC_CACHE[xproc_key(case)])
            for j, prev in enumerate(case["prevs"]):
                twin = evqe.impl_layer(prev)
                got = objs[j].layers[0] if hasattr(objs[j], "layers") else objs[j]
                same = got == twin and twin == got and hash(got) == hash(twin) and all(a == b and hash(a) == hash(b) for a, b in zip(got.gates, twin.gates)) and all(g in got.gates for g in twin.gates)
                if not same:
                    ctx.violation("oracle", "unpickled-layer-not-equal", f"a layer built in another python process (PYTHONHASHSEED={case['xproc']['hashseed']}) and transferred by {case['xproc']['pickler']} "
                                  f"does not equal / hash like the identical layer built here: {prev['gates']}", case)
                if case["via"] == "append" and not hasattr(objs[j], "layers"):
                    objs[j] = EVQEIndividual(n_qubits=case["n"], layers=(objs[j],), parameter_values=tuple(plain_ind(prev)["values"]))
        else:
            objs = [evqe.impl_layer(p) if case["via"] == "layer" else evqe.impl_individual(plain_ind(p)) for p in case["prevs"]]
    except Exception as e:
        ctx.violation("oracle", f"group-setup-{type(e).__name__}", f"building / transferring the previous layers raised {type(e).__name__}: {str(e)[:300]}", case)
        return out
    for seed in case["seeds"]:
        for prev, obj in zip(case["prevs"], objs):
            if case["via"] == "layer":
                sub = {"kind": "layer", "n": case["n"], "prev": strip_stars(prev), "seed": seed}
            else:
                sub = {"kind": "append", "ind": plain_ind(prev), "n_layers": case["n_layers"], "randomize": False, "seed": seed}
            g = do_single_case(ctx, sub, None, arg=obj)
            if case.get("model") is False:
                g = None
            if g is not None:
                out.append(g)
    for v in ctx.violations[before:]:  # the replay is the whole sequence, not the single call
        if case.get("family") == "subclass" and case.get("pattern") == "CR+C" and v["kind"] == "oracle" and v["key"].endswith("-repeat"):
            v["key"] = "random_layer-repeat-subclassed-pair"  # HEAD's own behaviour (candidate finding), kept apart from the other keys
        if v["case"] is not case:
            v["what"] = (f"in a sequence of calls in one process ({fam}, via {case['via']}, {len(case['seeds'])} seeds x {len(case['prevs'])} previous layers, every previous-layer object reused for all seeds): "
                         + v["what"] + f" [call: {json.dumps(v['case'], sort_keys=True)[:400]}]")
            v["case"] = case
    return out


def do_single_case(ctx, case, script=None, arg=None):
    """Run one call: oracle verdicts go to ctx, the Gallina case literal is returned."""
    k = case["kind"]
    res, decisions = run_impl(case, script, arg)
    toks = tok_table()
    if k in ("make_layer", "make_individual"):
        return do_constructor_case(ctx, case, res, toks)
    stream = rnglog.g_stream(decisions, tok=toks.tok, value_of_random=lambda r: 2 * math.pi * r)
    n = case["n"] if k != "append" else case["ind"]["n"]
    ctx.tally(f"{k}:n={min(n, 13)}")
    if res[0] == "exc":
        expected_exc = None
        if k == "layer" and (n < 1 or (case["prev"] is not None and case["prev"]["n"] != n)):
            expected_exc = LAYER_EXC
        elif k == "individual" and n < 1 and case["n_layers"] >= 1:
            expected_exc = LAYER_EXC
        elif k == "individual" and case["n_layers"] < 1:
            expected_exc = IND_EXC
        elif k == "append" and case["n_layers"] < 1:
            expected_exc = IND_EXC
        elif k == "population" and case["n_individuals"] >= 1:
            expected_exc = LAYER_EXC if (n < 1 and case["n_layers"] >= 1) else (IND_EXC if case["n_layers"] < 1 else None)
        ctx.tally(f"{k}:raises")
        if res[1] == "RngBudgetExceeded":
            ctx.violation("oracle", f"{k}-no-termination", f"{k}: more than {MAX_EVENTS} random decisions drawn - the retry loop does not end", case)
            return None
        if res[1] != expected_exc:
            ctx.violation("oracle", f"{k}-unexpected-{res[1]}", f"{k}: raised {res[1]} ({res[2]}) where {'a valid object' if expected_exc is None else expected_exc} is documented", case)
    else:
        obj = res[1]
        if k == "layer":
            pl = check_layer_object(ctx, case, obj, "random_layer")
            if pl["n"] != n:
                ctx.violation("oracle", "random_layer-qubits", f"layer has {pl['n']} qubits, asked for {n}", case)
            if case["prev"] is not None and repeats(case["prev"], pl):
                ctx.violation("oracle", "random_layer-repeat", f"random_layer repeats gates of the previous layer: {repeats(case['prev'], pl)}; new layer {pl['gates']}", case)
        elif k == "individual":
            pi = check_individual_object(ctx, case, obj, "random_individual", n, case["n_layers"])
            if chain_repeats(pi["layers"]):
                ctx.violation("oracle", "random_individual-repeat", f"random_individual: layer repeats its predecessor's gates at (layer, gates) {chain_repeats(pi['layers'])[:3]}", case)
            if not case["randomize"] and any(v != 0 for v in obj.parameter_values):
                ctx.violation("oracle", "random_individual-nonzero", "randomize_parameter_values=False but a value is not 0", case)
        elif k == "append":
            pi = check_individual_object(ctx, case, obj, "add_random_layers", n, len(case["ind"]["layers"]) + case["n_layers"])
            old = case["ind"]
            if pi["layers"][: len(old["layers"])] != old["layers"] or [float(v).hex() for v in pi["values"][: len(old["values"])]] != [float(v).hex() for v in old["values"]]:
                ctx.violation("oracle", "add_random_layers-prefix", "add_random_layers does not keep the old layers/values as a prefix", case)
            rep = chain_repeats(pi["layers"], start=len(old["layers"]) - 1)
            if rep:
                ctx.violation("oracle", "add_random_layers-repeat", f"add_random_layers: appended layer repeats its predecessor's gates at (layer index, gates) {rep[:3]}", case)
            ctx.tally(f"append:k={case['n_layers']}")
        else:
            if len(obj.individuals) != max(case["n_individuals"], 0):
                ctx.violation("oracle", "random_population-size", f"{len(obj.individuals)} individuals instead of {case['n_individuals']}", case)
            for ind in obj.individuals:
                pi = check_individual_object(ctx, case, ind, "random_population", n, case["n_layers"])
                if chain_repeats(pi["layers"]):
                    ctx.violation("oracle", "random_population-repeat", "random_population: an individual's layer repeats its predecessor's gates", case)
            if (obj.species_representatives, obj.species_members, obj.species_membership) != (None, None, None):
                ctx.violation("oracle", "random_population-species", "species information is not None", case)
    # Gallina literal, expected = what the implementation returned
    g_ind = lambda o: evqe.g_individual(plain_individual(o), toks)
    if k == "layer":
        prev = g_opt(None if case["prev"] is None else evqe.g_layer(case["prev"]))
        return f"CLayer {g_z(n)} {prev} {g_seed(case['seed'])} {stream} {g_result(res, lambda o: evqe.g_layer(plain_layer(o)))}"
    if k == "individual":
        return f"CIndividual {g_z(n)} {g_z(case['n_layers'])} {g_bool(case['randomize'])} {g_seed(case['seed'])} {stream} {g_result(res, g_ind)}"
    if k == "append":
        for v in case["ind"]["values"]:
            toks.tok(v)
        return f"CAppend {evqe.g_individual(case['ind'], toks)} {g_z(case['n_layers'])} {g_bool(case['randomize'])} {g_seed(case['seed'])} {stream} {g_result(res, g_ind)}"
    return (f"CPopulation {g_z(n)} {g_z(case['n_layers'])} {g_z(case['n_individuals'])} {g_bool(case['randomize'])} {g_seed(case['seed'])} {stream} "
            f"{g_result(res, lambda o: g_list(g_ind(i) for i in o.individuals))}")


def do_constructor_case(ctx, case, res, toks):
    """validity enforced in post-init: accepted exactly if valid by the documented rules (written here
    independently); what is raised for invalid data is compared with the model (class name)"""
    k = case["kind"]
    if k == "make_layer":
        want = valid_layer({"n": case["n"], "gates": case["gates"]})
        ctx.tally(f"make_layer:{'valid' if want else 'invalid'}")
        g = f"CMakeLayer {g_z(case['n'])} {g_list(evqe.g_gate(x) for x in case['gates'])} {g_result(res, lambda o: evqe.g_layer(plain_layer(o)))}"
    else:
        ls = case["layers"]
        want = len(ls) >= 1 and all(l["n"] == case["n"] for l in ls) and len(case["values"]) == sum(3 * n_param_gates(l) for l in ls)
        ctx.tally(f"make_individual:{'valid' if want else 'invalid'}")
        for v in case["values"]:
            toks.tok(v)
        g = (f"CMakeIndividual {g_z(case['n'])} {g_list(evqe.g_layer(l) for l in ls)} {evqe.g_values(case['values'], toks)} "
             f"{g_result(res, lambda o: evqe.g_individual(plain_individual(o), toks))}")
    if want and res[0] != "ok":
        ctx.violation("oracle", f"{k}-rejects-valid", f"{k}: data that is valid by the documented rules is rejected with {res[1]}", case)
    if not want and res[0] == "ok":
        ctx.violation("oracle", f"{k}-accepts-invalid", f"{k}: invalid data is accepted: {case}", case)
    if not want and res[0] == "exc" and res[1] not in (LAYER_EXC, IND_EXC):
        ctx.tally(f"{k}:raises-{res[1]}")  # e.g. IndexError for a control index outside the tuple (observation, modelled)
    return g


# ------------------------------------------------------------------ generators
def gen_make_layer_case(rng):
    n = rng.choice([0, 1, 2, 2, 3, 3, 4])
    l = evqe.random_valid_layer(rng, n) if n else {"n": 0, "gates": []}
    gates = [list(g) for g in l["gates"]]
    r = rng.random()
    idx = lambda: rng.randint(-n - 1, n + 1)
    if r < 0.25 or not gates:
        pass
    elif r < 0.6:
        g = rng.choice(gates)
        g[rng.randrange(1, len(g))] = idx()  # one index perturbed (negative indices wrap in tuple indexing)
    elif r < 0.8:
        q = rng.randrange(len(gates))
        gates[q] = rng.choice([["I", idx()], ["R", idx()], ["C", q, idx()], ["CR", q, idx()], ["C", idx(), idx()], ["CR", idx(), idx()]])
    elif r < 0.9:
        gates = gates[:-1] if rng.random() < 0.5 else gates + [["I", len(gates)]]
    else:
        gates = [rng.choice([["I", idx()], ["R", idx()], ["C", idx(), idx()], ["CR", idx(), idx()]]) for _ in range(rng.randint(0, 4))]
    return {"kind": "make_layer", "n": n if rng.random() < 0.9 else n + rng.choice([-1, 1]), "gates": gates}


def gen_make_individual_case(rng):
    n = rng.choice([0, 1, 2, 3])
    mk = lambda m: evqe.random_valid_layer(rng, m) if m else {"n": 0, "gates": []}
    layers = [mk(n) for _ in range(rng.choice([0, 1, 2, 3]))]
    r = rng.random()
    if r < 0.2 and layers:
        layers[rng.randrange(len(layers))] = mk(n + 1)
    count = sum(3 * n_param_gates(l) for l in layers)
    if 0.2 <= r < 0.45:
        count = max(0, count + rng.choice([-3, -1, 1, 3]))
    return {"kind": "make_individual", "n": n if r < 0.9 else n + 1, "layers": layers, "values": [round(rng.uniform(-3, 3), 3) for _ in range(count)]}


def all_valid_layers(n):
    """Every valid layer on n qubits (n <= 3: 2, 6, 20 layers)."""
    out = []

    def rec(q, gates):
        if q == n:
            out.append({"n": n, "gates": [list(g) for g in gates]})
            return
        if gates[q] is not None:
            rec(q + 1, gates)
            return
        for kind in ("I", "R"):
            g = list(gates)
            g[q] = [kind, q]
            rec(q + 1, g)
        for p in range(q + 1, n):
            if gates[p] is None:
                for a, b in ((q, p), (p, q)):  # a = rotated qubit, b = control
                    g = list(gates)
                    g[a], g[b] = ["CR", a, b], ["C", b, a]
                    rec(q + 1, g)

    rec(0, [None] * n)
    return out


def wiring_groups(n):
    """Groups (>= 2 members) of valid layers on n qubits with the same gate type on every qubit."""
    groups = {}
    for l in all_valid_layers(n):
        groups.setdefault(tuple(g[0] for g in l["gates"]), []).append(l)
    return [g for g in groups.values() if len(g) >= 2]


def group_cases(rng, n, n_seeds):
    out = []
    for members in wiring_groups(n):
        for via in ("layer", "append"):
            seeds = [rng.randrange(2**31) for _ in range(n_seeds)]
            order = list(members)
            rng.shuffle(order)
            c = {"kind": "group", "via": via, "n": n, "prevs": order, "seeds": seeds}
            if via == "append":
                c["n_layers"] = rng.choice([1, 2])
            out.append(c)
    return out


def reuse_cases(rng, n, n_seeds, xproc=None):
    """all previous layers on n qubits that hold a controlled rotation, every object reused for n_seeds seeds"""
    prevs = [l for l in all_valid_layers(n) if any(g[0] == "CR" for g in l["gates"])]
    if n >= 4:
        prevs = rng.sample(prevs, 10)
    out = []
    for via in ("layer", "append"):
        c = {"kind": "group", "family": "reuse", "via": via, "n": n, "prevs": prevs, "seeds": [rng.randrange(2**31) for _ in range(n_seeds)]}
        if via == "append":
            c["n_layers"] = rng.choice([1, 2])
        if xproc:
            c["xproc"] = xproc
        out.append(c)
    return out


def subclass_cases(rng, n, n_seeds, both=False):
    """previous layers holding instances of user subclasses of the gate classes.  Patterns: only the controlled
    rotations, only the control gates, only rotations / identities; `both`: controlled rotation AND its control gate
    (on /repo HEAD the acceptance test then finds neither by == and repeats the rotation - see known_findings)."""
    prevs = [l for l in all_valid_layers(n) if any(g[0] == "CR" for g in l["gates"])]
    if n >= 4:
        prevs = rng.sample(prevs, 8)
    patterns = [("CR", "C")] if both else [("CR",), ("C",), ("R", "I"), ("CR", "R", "I"), ("C", "R", "I")]
    out = []
    for pat in patterns:
        starred = [{"n": n, "gates": [[g[0] + "*"] + list(g[1:]) if g[0] in pat else list(g) for g in l["gates"]]} for l in prevs]
        for via in ("layer", "append"):
            c = {"kind": "group", "family": "subclass", "pattern": "+".join(pat), "via": via, "n": n, "prevs": starred, "seeds": [rng.randrange(2**31) for _ in range(n_seeds)]}
            if via == "append":
                c["n_layers"] = rng.choice([1, 2])
            out.append(c)
    return out


def wide_cases(rng, n, n_seeds):
    """wide registers: pure structure (validity, parameter count, no-repeat); model comparison up to 130 qubits"""
    out = []
    model = n <= 130
    for _ in range(n_seeds):
        prev = evqe.random_valid_layer(rng, n)
        out.append({"kind": "layer", "n": n, "prev": prev, "seed": rng.randrange(2**31), "model": model})
        out.append({"kind": "individual", "n": n, "n_layers": 3, "randomize": False, "seed": rng.randrange(2**31), "model": model})
        ind = {"n": n, "layers": [prev], "values": [0.5] * (3 * n_param_gates(prev))}
        out.append({"kind": "append", "ind": ind, "n_layers": 2, "randomize": False, "seed": rng.randrange(2**31), "model": model})
    return out


def gen_layer_case(rng, max_n=12):
    n = rng.choice([1, 1, 2, 2, 2, 3, 3, 3, 4, 4, 5, 6, 7, 8, 10, max_n])
    r = rng.random()
    if r < 0.15:
        prev = None
    elif r < 0.3:
        prev = {"n": n, "gates": [["I", q] for q in range(n)]}  # all identities: every qubit a forced candidate
    elif r < 0.4:
        prev = {"n": n, "gates": [["R", q] for q in range(n)]}
    else:
        prev = evqe.random_valid_layer(rng, n)
    return {"kind": "layer", "n": n, "prev": prev, "seed": pick_seed(rng)}


def gen_individual_case(rng):
    return {"kind": "individual", "n": rng.choice([1, 1, 2, 2, 3, 3, 4, 5, 6, 9, 12]), "n_layers": rng.randint(1, 6), "randomize": rng.random() < 0.5, "seed": pick_seed(rng)}


def gen_append_case(rng):
    n = rng.choice([1, 1, 2, 2, 3, 3, 3, 4, 5, 7])
    ind = evqe.random_valid_individual(rng, n=n, n_layers=rng.randint(1, 3))
    if rng.random() < 0.2:
        ind["layers"][-1] = {"n": n, "gates": [["I", q] for q in range(n)]}
        ind["values"] = [0.25] * sum(evqe.layer_n_parameters(l) for l in ind["layers"])
    return {"kind": "append", "ind": ind, "n_layers": rng.choice([1, 2, 2, 3, 3, 4]), "randomize": rng.random() < 0.5, "seed": pick_seed(rng)}


def gen_population_case(rng):
    return {"kind": "population", "n": rng.choice([1, 2, 3, 4, 6]), "n_layers": rng.randint(1, 4), "n_individuals": rng.randint(0, 5), "randomize": rng.random() < 0.5, "seed": pick_seed(rng)}


def edge_cases():
    """Arguments at and beyond the documented range (errors are part of the model)."""
    eye = lambda n: {"n": n, "gates": [["I", q] for q in range(n)]}
    out = [
        {"kind": "layer", "n": 0, "prev": None, "seed": 1},
        {"kind": "layer", "n": -2, "prev": None, "seed": 1},
        {"kind": "layer", "n": 2, "prev": eye(3), "seed": 1},
        {"kind": "layer", "n": 1, "prev": None, "seed": None},
        {"kind": "individual", "n": 2, "n_layers": 0, "randomize": False, "seed": 3},
        {"kind": "individual", "n": 2, "n_layers": -1, "randomize": True, "seed": 3},
        {"kind": "individual", "n": 0, "n_layers": 2, "randomize": True, "seed": 3},
        {"kind": "append", "ind": {"n": 2, "layers": [eye(2)], "values": []}, "n_layers": 0, "randomize": False, "seed": 4},
        {"kind": "append", "ind": {"n": 2, "layers": [eye(2)], "values": []}, "n_layers": -3, "randomize": True, "seed": 4},
        {"kind": "population", "n": 2, "n_layers": 2, "n_individuals": 0, "randomize": True, "seed": 5},
        {"kind": "population", "n": 2, "n_layers": 2, "n_individuals": -1, "randomize": True, "seed": 5},
        {"kind": "population", "n": 2, "n_layers": 0, "n_individuals": 2, "randomize": True, "seed": 5},
        {"kind": "population", "n": 0, "n_layers": 1, "n_individuals": 2, "randomize": True, "seed": 5},
    ]
    for n in (1, 2):
        for prev in [None] + all_valid_layers(n):
            for seed in range(4):
                out.append({"kind": "layer", "n": n, "prev": prev, "seed": seed})
    return out


def exhaustive_paths(ctx, max_n, max_rejects):
    """Every path of random_layer's decision tree for every (n <= max_n, previous layer or none): a scripted
    generator forces each outcome of each choice/sample; at most `max_rejects` rejected draws per path."""
    n_paths = 0
    for n in range(1, max_n + 1):
        for prev in [None] + all_valid_layers(n):
            case = {"kind": "layer", "n": n, "prev": prev, "seed": 0}
            stack = [[]]
            while stack:
                script = stack.pop()
                try:
                    run_impl(case, script)
                except rnglog.ScriptExhausted as e:
                    for d in rnglog.outcomes(e.kind, e.args):
                        s2 = script + [d]
                        # a rejected draw leaves the candidate list as it was: the same sample arity again
                        rejects = sum(1 for a, b in zip(s2, s2[1:]) if a[0] == "sample" and b[0] == "sample" and a[1] == b[1])
                        if rejects <= max_rejects:
                            stack.append(s2)
                    continue
                n_paths += 1
                yield dict(case, script=script)
    ctx.notes["exhaustive_paths"] = f"all decision paths of random_layer for n <= {max_n} x every valid previous layer (or none), <= {max_rejects} rejected draws per path: {n_paths} paths"


# ------------------------------------------------------------------ run / replay
def run(ctx):
    translate.check_link(ctx, "C20")  # regenerate Gallina from /repo's current source; link lemmas coq/link/C20Link.v
    ctx.rule = ("random_layer: n from 1..12 (weight on 1-3) x previous layer none / all identities / all rotations / random valid, seeds random; every (n<=2, previous layer) x 4 seeds; "
                "random_individual n 1..12 x 1..6 layers; add_random_layers on random valid individuals x 1..4 appended layers; random_population 0..5 individuals; argument edge cases; "
                "exhaustive decision paths of random_layer through a scripted generator (quick n<=3 with <=2 rejected draws per path, thorough n<=4 with <=3); groups of previous layers with equal gate-type pattern and different wiring (n=4, thorough also 5) x equal seeds on every member consecutively in one process, via random_layer and via add_random_layers; wide registers (n = 65, 100, 130, 200, 300, 400: random_layer after a random previous layer, random_individual with 3 layers, add_random_layers of 2 layers); previous layers holding instances of user SUBCLASSES of the gate classes (controlled rotations only / control gates only / rotations+identities), repeats judged by (qubits, isinstance kind); every previous-layer / parent object reused for many seeds (n=2..4, all previous layers with a controlled rotation); the same with objects built in ANOTHER python process (different PYTHONHASHSEED) and transferred by pickle / cloudpickle, which must equal and hash like their local twins; every seeded call is run twice with other calls of the same seed in between and must give the same object and the same RNG call sequence; distinct = distinct (arguments, seed or script); non-trivial = at least one random decision drawn")
    if not rnglog.selftest():
        ctx.violation("correspondence", "rnglog-selftest", "the logging Random does not reproduce random.Random on this interpreter (vlib/rnglog.py)")
    cases = []
    cdir = core.ROOT / "corpus" / "C20"
    for f in sorted(cdir.glob("*.json")) if cdir.exists() else []:
        cases.append(json.loads(f.read_text()))
    cases += edge_cases()
    for _ in range(ctx.n(900, 12000)):
        cases.append(gen_layer_case(ctx.rng))
    for _ in range(ctx.n(300, 3000)):
        cases.append(gen_individual_case(ctx.rng))
    for _ in range(ctx.n(400, 4000)):
        cases.append(gen_append_case(ctx.rng))
    for _ in range(ctx.n(40, 1000)):
        cases.append(gen_population_case(ctx.rng))
    for _ in range(ctx.n(300, 6000)):
        cases.append(gen_make_layer_case(ctx.rng))
    for _ in range(ctx.n(150, 2000)):
        cases.append(gen_make_individual_case(ctx.rng))
    cases += list(exhaustive_paths(ctx, max_n=ctx.n(3, 4), max_rejects=ctx.n(2, 3)))
    for n in ((4,) if ctx.quick else (4, 5)):
        cases += group_cases(ctx.rng, n, ctx.n(12, 25) if n == 4 else 6)
    for n in (2, 3, 4):
        cases += reuse_cases(ctx.rng, n, ctx.n(8, 30))
    known_keys = {k["key"] for k in core.load_findings() if k["property"] == "C20"}
    for n in (2, 3, 4):
        cases += subclass_cases(ctx.rng, n, ctx.n(6, 20))
        if "random_layer-repeat-subclassed-pair" in known_keys:  # a finding on HEAD (see module report); run only once it is listed
            cases += subclass_cases(ctx.rng, n, ctx.n(6, 20), both=True)
    for n in (65, 100, 130, 200, 300, 400):
        cases += wide_cases(ctx.rng, n, ctx.n(10, 40) if n >= 200 else ctx.n(5, 30))
    ctx.notes["wide_registers"] = "n = 65..400: validity / parameter count / no-repeat on the implementation for every case; model comparison (decision stream) for n <= 130, oracle-only above (size of the case literals)"
    xp = []
    for n in (2, 3, 4):
        for pickler in ("pickle", "cloudpickle"):
            xp += reuse_cases(ctx.rng, n, ctx.n(6, 20), xproc={"hashseed": 4242 + ctx.seed % 1000, "pickler": pickler})
    try:
        xproc_load(xp)  # one subprocess for the whole batch
    except Exception as e:
        ctx.violation("oracle", f"group-setup-{type(e).__name__}", f"the cross-process producer failed: {str(e)[:400]}", xp[0])
        xp = []
    cases += xp
    ctx.exhaustive = False
    glits, kept = [], []
    for c in cases:
        g = do_case(ctx, c, script=c.get("script"))
        ctx.case(c, nontrivial=True, sample=c if len(ctx.samples) < 4 and c["kind"] != "layer" or len(ctx.samples) < 2 else None)
        for gg in ([] if g is None else g if isinstance(g, list) else [g]):
            glits.append(gg)
            kept.append(c)
    bad = core.model_mismatches("C20", IMPORTS, "check_case", glits, chunk=150)
    for i in bad[:5]:
        detail = dict(gallina=glits[i][:3000])
        try:
            detail["model"] = core.model_show("C20", IMPORTS, f"run_case ({glits[i]})")
            if kept[i]["kind"] == "append":
                detail["variant"] = core.model_show("C20v", IMPORTS, f"append_variant ({glits[i]})")
        except Exception as e:  # diagnosis only
            detail["model"] = f"(not evaluated: {e})"
        ctx.violation("correspondence", f"model-vs-impl-{kept[i]['kind']}", f"the Coq model of {kept[i]['kind']} generation and the implementation differ (structure or RNG call sequence)", kept[i], detail=detail)
    ctx.traces = len(glits)


def replay(ctx, payload):
    if translate.is_link_replay(payload) and not payload.get("failing_input"):
        return translate.replay(ctx, payload, "C20")  # a replay file written for a broken translation tie
    c = payload.get("case") or payload.get("failing_input")
    g = do_case(ctx, c, script=c.get("script"))
    for v in ctx.violations:
        print("oracle:", v["what"])
    print("impl-vs-property:", "FAILS" if ctx.violations else "ok")
    gs = [] if g is None else g if isinstance(g, list) else [g]
    if gs:
        bad = core.model_mismatches("C20_replay", IMPORTS, "check_case", gs)
        print("model-vs-impl:", f"DIFFER (calls {bad[:10]} of {len(gs)})" if bad else "agree")
        if c["kind"] == "append":
            print("implementation follows:", core.model_show("C20v", IMPORTS, f"append_variant ({gs[0]})"))
