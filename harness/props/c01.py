"""C01 — JSSP Hamiltonian: feasible schedules lie strictly below every infeasible state.
Oracle (on the implementation's diagonal and decoding, Fractions): feasible -> energy in [0, W]; fully decoded -> energy =
Pp * #(consecutive pairs out of order) + Po * #(overlapping pairs on a machine) + optimisation part in [0, W] (> 0 when the
makespan share is > 0); undecodable -> energy >= Pe; separation when W < Pp, Po or the makespan share is > 0.
Correspondence: QV.Jssp.EncoderCheck.check_case (operator term by term = every eigenvalue; eval on sample states; decoding)."""
from __future__ import annotations

import json

from vlib import core, jsspenc as je
from vlib import translate
from props.c15 import load_corpus

WANT = {"C01"}
PID = "C01"


def gen_case(rng, share=None, max_q=10):
    while True:
        inst, shape = je.gen_instance(rng)
        L = je.gen_limit(rng, inst, max_q)
        n = je.expected_qubits(inst, L)
        if 1 <= n <= max_q and (n >= 3 or rng.random() < 0.3):
            break
    P, kind = je.gen_penalties(rng, share=share)
    return {"kind": PID.lower(), "inst": inst, "L": L, "P": P, "shape": shape, "penalties": kind}


def out_of_regime_case(rng):
    """Correspondence only: the model must follow the code for any numbers (zero / negative / unordered penalties)."""
    c = gen_case(rng, max_q=8)
    vals = [0, -1.5, 0.25, 2, 7.5, 100]
    c["P"] = {"enc": rng.choice(vals), "overlap": rng.choice(vals), "prec": rng.choice(vals), "opt": rng.choice(vals), "share": rng.choice([0, 0.25, 1, 1.5, -0.5])}
    c["penalties"] = "out-of-regime"
    return c


def tally_case(ctx, c, summ):
    n = summ["n"]
    ctx.tally(f"shape:{c.get('shape', 'corpus')}")
    ctx.tally(f"penalties:{c.get('penalties', 'corpus')}")
    ctx.tally(f"share:{c['P']['share']}" if c["P"]["share"] in (0, 0.5, 1) else "share:other")
    ctx.tally("qubits:" + ("none" if n is None else "1-4" if n <= 4 else "5-8" if n <= 8 else "9-10" if n <= 10 else ">10"))
    ctx.tally("basis-states", summ["states"])
    nontrivial = n is not None and n >= 2 and je.in_regime(c["P"])
    ctx.case({"inst": c["inst"], "L": c["L"], "P": c["P"]}, nontrivial, sample=c if len(ctx.samples) < 3 else None)


def run(ctx):
    translate.check_link(ctx, "C01")  # regenerate Gallina from /repo's current source; link lemmas coq/link/C01Link.v
    translate.check_link(ctx, "C15")  # the encoder functions C01 rests on (windows, pair terms, makespan term) are linked under the C15 spec
    ctx.rule = ("corpus first; random valid instances (1-3 jobs, 1-3 machines, <=6 operations, durations 1-3, all shapes of C15) x limits with slack 0-3 "
                "and 1-10 qubits x penalty configurations (defaults; all equal; W = constraint penalties < Pe; strictly ordered; random in regime; "
                "small dyadic numbers) x share in {0, 1/2, 1, k/8} x ALL 2^n basis states; a few out-of-regime configurations for the correspondence only; "
                "distinct = distinct (instance, limit, penalties); non-trivial = at least 2 qubits and penalties in the regime")
    batch = je.Batch()
    cases = load_corpus(PID) + [gen_case(ctx.rng) for _ in range(ctx.n(320, 4000))] + [out_of_regime_case(ctx.rng) for _ in range(ctx.n(30, 300))]
    if not ctx.quick:
        for inst, L in je.small_scope():
            if 1 <= je.expected_qubits(inst, L) <= 10:
                P, kind = je.gen_penalties(ctx.rng)
                cases.append({"kind": "c01", "inst": inst, "L": L, "P": P, "shape": "small-scope", "penalties": kind})
        ctx.notes["exhaustive_small_scope"] = "all instances with <= 2 jobs x <= 2 operations on 2 machines, durations <= 2, slack 0..2 with 1..10 qubits, one penalty configuration each, all basis states"
    cases += [dict(je.gen_contended_case(ctx.rng, share=None), kind=PID.lower()) for _ in range(ctx.n(24, 250))]
    cases += [dict(je.gen_large_slack_case(ctx.rng, share=ctx.rng.choice([0, 0, 0.5, 0.25])), kind=PID.lower()) for _ in range(ctx.n(6, 60))]
    # (n_jobs+1)^limit >= 2^63: long operations (all basis states) and unit operations (selected states, exact energies)
    cases += [dict(je.gen_huge_limit_case(ctx.rng, share=ctx.rng.choice([0, 0, 0.5]), kind=k), kind=PID.lower()) for k in ["long", "long", "unit"] * ctx.n(1, 12)]
    # one pair of operations with more than 1024 / 2048 penalised start-time combinations (exact energies of a systematic cover)
    cases += [dict(je.gen_many_conflicts_case(ctx.rng, which=w), kind=PID.lower()) for w in (["overlap>1024", "precedence>1024"] if ctx.quick else ["overlap>1024", "overlap>2048", "precedence>1024", "precedence>2048"] * 3)]
    # >= 3 operations on one machine with windows of different width / offset (full 2^n sweep)
    cases += [dict(je.gen_shared_machine_case(ctx.rng, share=None), kind=PID.lower()) for _ in range(ctx.n(25, 300))]
    # two or three jobs that fill the limit exactly (no qubits) sharing machines with jobs that have slack; penalties close together
    cases += [dict(je.gen_tight_jobs_case(ctx.rng, share=None), kind=PID.lower()) for _ in range(ctx.n(60, 600))]
    je.assign_objects(ctx.rng, cases)
    for c in cases:
        summ = je.examiner(c)(ctx, batch, c, WANT, ctx.rng)
        ctx.tally(f"objects:{c.get('objects', 'shared')}")
        tally_case(ctx, c, summ)
    je.report_mismatches(ctx, PID, batch)


def replay(ctx, payload):
    if translate.is_link_replay(payload) and not payload.get("failing_input"):
        return translate.replay(ctx, payload, "C01")  # a replay file written for a broken translation tie
    c = payload.get("case") or payload.get("failing_input")
    batch = je.Batch()
    je.examiner(c)(ctx, batch, c, WANT, ctx.rng)
    for v in ctx.violations[:10]:
        print("oracle:", v["key"], "-", v["what"])
    print("impl-vs-property:", "FAILS" if ctx.violations else "ok")
    n0 = len(ctx.violations)
    je.report_mismatches(ctx, PID + "_replay", batch)
    print("model-vs-impl:", "DIFFER" if len(ctx.violations) > n0 else "agree")
    for v in ctx.violations[n0:]:
        print("  ", v["key"], json.dumps(v["detail"], default=str)[:600])
