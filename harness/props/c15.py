"""C15 — JSSP encoding is total, complete and injective.
Oracle (on the implementation's outputs): too-short limits rejected with ValueError; n_qubits = sum over operations of
(limit - job length); a Hamiltonian on exactly n_qubits qubits whenever n_qubits >= 1; every bitstring decodes, shape
matches, 0 <= start and end <= limit, fully scheduled decodings are pairwise different, every feasible schedule found by
an independent exhaustive enumeration is decoded from some bitstring.
Correspondence: QV.Jssp.EncoderCheck.check_case (n_qubits / variables / operator terms / counts / decoding of all bitstrings)."""
from __future__ import annotations

import json

from vlib import core, jsspenc as je
from vlib import translate


def gen_case(rng, quick):
    inst, shape = je.gen_instance(rng)
    r = rng.random()
    lo = je.longest(inst)
    if r < 0.15:
        L = rng.choice([lo - 1, lo - 1, lo - 2, 0, -1, lo - rng.randint(1, lo + 1)])
        if L >= lo:
            L = lo - 1
    elif r < 0.25:
        L = lo  # zero slack: jobs as long as the longest get zero-qubit variables
    else:
        L = je.gen_limit(rng, inst, 10 if r < 0.9 else 14)
        if je.expected_qubits(inst, L) > 14:
            L = lo
            if je.expected_qubits(inst, L) > 14:
                return gen_case(rng, quick)
    return {"kind": "c15", "inst": inst, "L": L, "P": dict(je.DEFAULT_P), "shape": shape}


def load_corpus(pid):
    d = core.ROOT / "corpus" / pid
    return [json.loads(f.read_text()) for f in sorted(d.glob("*.json"))] if d.exists() else []


def run(ctx):
    translate.check_link(ctx, "C15")  # regenerate Gallina from /repo's current source; link lemmas coq/link/C15Link.v
    ctx.rule = ("corpus first; random valid instances (1-3 jobs, 1-3 machines, <=6 operations, durations 1-3; shapes: random, a single job, "
                "only single-operation jobs, jobs on pairwise disjoint machines, one operation; unused machines) x limits (15% shorter than the "
                "longest job, 10% equal to it, else slack 0-3 with <=14 qubits) x ALL bitstrings for <=10 qubits (96 sampled above); "
                "distinct = distinct (instance, limit); non-trivial = limit accepted and at least one qubit, or limit rejected")
    batch = je.Batch()
    cases = load_corpus("C15") + [gen_case(ctx.rng, ctx.quick) for _ in range(ctx.n(450, 6000))]
    if not ctx.quick:
        cases += [{"kind": "c15", "inst": inst, "L": L, "P": dict(je.DEFAULT_P), "shape": "small-scope"} for inst, L in je.small_scope()]
        ctx.notes["exhaustive_small_scope"] = "all instances with <= 2 jobs x <= 2 operations on 2 machines, durations <= 2, slack 0..2 (468 cases), all bitstrings up to 10 qubits"
    cases += [dict(je.gen_huge_limit_case(ctx.rng, share=0, kind=k), kind="c15") for k in ["long", "unit"] * ctx.n(1, 10)]
    je.assign_objects(ctx.rng, cases)
    for c in cases:
        summ = je.examiner(c)(ctx, batch, c, {"C15"}, ctx.rng)
        ctx.tally(f"objects:{c.get('objects', 'shared')}")
        n = summ["n"]
        ctx.tally(f"shape:{c.get('shape', 'corpus')}")
        ctx.tally("qubits:" + ("rejected" if n is None else "0" if n == 0 else "1-4" if n <= 4 else "5-8" if n <= 8 else "9-10" if n <= 10 else "11-14"))
        ctx.tally("bitstrings-decoded", summ["states"])
        fp = {"inst": c["inst"], "L": c["L"]}
        ctx.case(fp, n is None or n >= 1, sample=c if len(ctx.samples) < 3 else None)
    je.report_mismatches(ctx, "C15", batch)


def replay(ctx, payload):
    if translate.is_link_replay(payload) and not payload.get("failing_input"):
        return translate.replay(ctx, payload, "C15")  # a replay file written for a broken translation tie
    c = payload.get("case") or payload.get("failing_input")
    batch = je.Batch()
    je.examiner(c)(ctx, batch, c, {"C15"}, ctx.rng)
    for v in ctx.violations:
        print("oracle:", v["key"], "-", v["what"])
    print("impl-vs-property:", "FAILS" if ctx.violations else "ok")
    n0 = len(ctx.violations)
    je.report_mismatches(ctx, "C15_replay", batch)
    print("model-vs-impl:", "DIFFER" if len(ctx.violations) > n0 else "agree")
    for v in ctx.violations[n0:]:
        print("  ", v["key"], json.dumps(v["detail"], default=str)[:600])
