"""C10 — evolutionary operators preserve population invariants.
Oracle: vlib.opskit.oracle_c10 (size / validity / qubits; partition after speciation; selection alignment under
forced completion orders; mutation contracts; write-back by index) on the implementation's own objects.
Correspondence: QV.Evqe.OpsCheck.check_case — every returned population (structure, tokens, species maps), every
callback payload, every exception, the sequence of RNG calls (decision streams with mismatch errors)."""
from __future__ import annotations

import json

from vlib import core, opskit
from vlib import translate

RULE = ("random populations (1-5 qubits, 1-4 layers, 2-8 individuals; duplicates, relatives sharing layer prefixes, hand-built parameterless last layers, "
        "1-qubit populations, incoming stale/duplicate representative lists) x random operator sequences of length 1-12 (each selection directly preceded by a speciation) "
        "x probabilities {0, 1/2, 1, random} x roulette/tournament x 1-4 workers with forced completion orders; plus every completion permutation of 4 tasks; plus selections "
        "violating the documented precondition; plus populations with members that are structurally different but hash-equal (merge of equal representatives); plus selections at the boundaries of the roulette arithmetic (fake evaluator modes: best value exactly 0.0 / -0.0, all values equal, negative values; zero penalties; no controlled gates); plus mutation directly after speciation; plus sparse mutation (9-70 pairwise different individuals, p = 0.08-0.3, a few indices drawn per application); distinct = distinct spec; non-trivial = at least 2 individuals and one executed operator")


def specs_for(ctx):
    specs = []
    cdir = core.ROOT / "corpus" / ctx.pid
    for f in sorted(cdir.glob("*.json")) if cdir.exists() else []:
        specs.append(json.loads(f.read_text()))
    specs += opskit.all_orders_specs(ctx.rng)
    specs += opskit.precondition_specs(ctx.rng, ctx.n(6, 60))
    specs += opskit.large_population_specs(ctx.rng, ctx.n(3, 12))   # more than 32 individuals
    specs += opskit.new_species_specs(ctx.rng, ctx.n(12, 120))     # a later speciation founds new species; earlier populations re-inspected
    # sizes just beyond 128 / 256 / 512 / 1024: pairwise different individuals, every index checked against the argument of the same call
    specs += opskit.threshold_population_specs(ctx.rng, [257] if ctx.quick else [257, 300, 513, 1025])
    specs += opskit.threshold_population_specs(ctx.rng, [] if ctx.quick else [129, 257], heavy=True)   # + stub optimiser, speciation, tournament selection
    specs += opskit.sparse_mutation_specs(ctx.rng, ctx.n(18, 180))   # 9-70 individuals, only a few drawn per application
    specs += opskit.empty_population_specs()  # correspondence only: outside the claim (non-empty populations)
    specs += opskit.merge_specs(ctx.rng, ctx.n(12, 120))
    specs += opskit.boundary_selection_specs(ctx.rng, ctx.n(40, 400))
    specs += opskit.mutation_after_speciation_specs(ctx.rng, ctx.n(15, 150))
    specs += opskit.persistent_specs(ctx.rng, ctx.n(40, 400))  # one operator object per kind for the whole sequence, 0 < p < 1
    for _ in range(ctx.n(110, 3000)):
        specs.append(opskit.random_spec(ctx.rng))
    return specs


def run(ctx):
    translate.check_link(ctx, "C10")  # regenerate Gallina from /repo's current speciation/selection/mutation.py; link lemmas coq/link/C10Link.v
    ctx.rule = RULE
    if not opskit.selftest_random():
        raise RuntimeError("logging Random does not reproduce random.Random")
    opskit.drive(ctx, "C10", specs_for(ctx), opskit.oracle_c10, opskit.oracle_c10_end, "check_case", "model-vs-impl")
    ctx.notes["all_completion_orders"] = "every completion permutation of 4 tasks for selection and for topological+parameter search (48 runs)"


def replay(ctx, payload):
    if translate.is_link_replay(payload) and not payload.get("failing_input"):
        return translate.replay(ctx, payload, "C10")
    spec = payload.get("case") or payload.get("failing_input")
    spec = {k: v for k, v in spec.items() if k != "failing_step"}
    kept = opskit.drive(ctx, "C10_replay", [spec], opskit.oracle_c10, opskit.oracle_c10_end, "check_case", "model-vs-impl")
    for v in ctx.violations:
        print(f"{v['kind']}: {v['key']}: {v['what']}")
    print("impl-vs-property:", "FAILS" if any(v["kind"] == "oracle" for v in ctx.violations) else "ok")
    print("model-vs-impl:", "DIFFER" if any(v["kind"] == "correspondence" for v in ctx.violations) else "agree")
