"""C16 — structural mutations obey their algebra and keep the denoted state.
Implementation side: EVQEIndividual.add_random_layers / remove_layers / change_parameter_values /
change_layer_parameter_values / get_layer_parameter_values on random valid individuals (layers without
parameters, 1 qubit) x argument combinations including out-of-range ones.
Oracle: the algebraic identities of the property evaluated on the implementation's objects; Operator.equiv
before/after a zero-initialised append for <= 4 qubits.
Correspondence: QV.Evqe.C16Check.check_case (result structure / value tokens or exception class)."""
from __future__ import annotations

import json
import math

from vlib import core, evqe, rnglog
from vlib import translate
from vlib.core import g_bool, g_list, g_opt, g_z

IMPORTS = "From QV Require Import Evqe.RandLayer Evqe.C16Check."
EXC = "EVQEIndividualException"


def hexes(vs):
    return [float(v).hex() for v in vs]


def same_ind(a, b):
    """field-by-field equality of implementation individuals (their __eq__ is hash equality)"""
    return a.n_qubits == b.n_qubits and a.layers == b.layers and hexes(a.parameter_values) == hexes(b.parameter_values)


def typed_int(k, k_type):
    """layer ids as the integer types callers use (HEAD accepts numpy integers and int subclasses like plain ints)"""
    if k_type in (None, "int"):
        return k
    import numpy as np

    if k_type in ("int64", "intp", "int32"):
        return getattr(np, k_type)(k)

    class LayerId(int):
        pass

    return LayerId(k)


def call(f):
    try:
        return ("ok", f())
    except Exception as e:
        return ("exc", type(e).__name__, str(e)[:200])


def g_res(res, toks):
    if res[0] == "ok":
        return f"(Ok {evqe.g_individual(evqe.plain_individual(res[1]), toks)})"
    return f'(Err "{res[1]}"%string)'


def layer_slices(o):
    """the values of every layer through get_layer_parameter_values; an exception becomes a marker (never equal to
    the expected slices), so that it is reported as a violation and does not crash the check"""
    try:
        return [hexes(o.get_layer_parameter_values(j)) for j in range(len(o.layers))]
    except Exception as e:
        return [f"get_layer_parameter_values raised {type(e).__name__}: {str(e)[:80]}"]


def expected_slices(plain):
    """the values of each layer, cut out of the flat tuple by the layers' parameter counts (independent of the impl)"""
    out, pos = [], 0
    for l in plain["layers"]:
        c = evqe.layer_n_parameters(l)
        out.append(hexes(plain["values"][pos : pos + c]))
        pos += c
    return out


def do_case(ctx, case):
    """one operation on one individual, or {"kind": "twins", "members": [case, ...]}: several such cases run
    consecutively in this one process (hash-collision twins: values -1.0 / -2.0 / int -1, 0.0 / -0.0)"""
    if case["kind"] == "huge":
        return do_huge_case(ctx, case)
    if case["kind"] == "forms":
        return do_forms_case(ctx, case)
    if case["kind"] == "twins":
        ctx.tally(f"twins:{case.get('how', '?')}")
        before, out = len(ctx.violations), []
        for m in case["members"]:
            g = do_single_case(ctx, m)
            out += [] if g is None else g if isinstance(g, list) else [g]
        for v in ctx.violations[before:]:
            v["what"] = f"with hash-equal twin individuals / value vectors handled consecutively in one process ({case.get('how')}): " + v["what"]
            v["case"] = case
        return out
    return do_single_case(ctx, case)


def huge_individual(case):
    """deterministic from the case: n qubits, n_layers layers (mostly all-rotation layers, every 7th a layer of
    controlled pairs, every 11th parameterless), values j/1024 - small replay files for tens of thousands of values"""
    n, L = case["n"], case["n_layers"]
    layers = []
    for j in range(L):
        if j % 11 == 5:
            layers.append({"n": n, "gates": [["I", q] for q in range(n)]})
        elif j % 7 == 3:
            gates = []
            for q in range(0, n - 1, 2):
                gates += [["CR", q, q + 1], ["C", q + 1, q]]
            if n % 2:
                gates.append(["R", n - 1])
            layers.append({"n": n, "gates": gates})
        else:
            layers.append({"n": n, "gates": [["R", q] for q in range(n)]})
    total = sum(evqe.layer_n_parameters(l) for l in layers)
    return {"n": n, "layers": layers, "values": [j / 1024 for j in range(total)]}


def do_huge_case(ctx, case):
    try:
        return do_huge_case_checks(ctx, case)
    except Exception as e:  # an accessor of a RESULT object raised: the implementation's failure, not the harness's
        ctx.violation("oracle", f"huge-raises-{type(e).__name__}", f"an operation / accessor on the individual with many parameter values raised {type(e).__name__}: {str(e)[:200]}", case)
        return None


def do_huge_case_checks(ctx, case):
    """'many parameters': an individual whose flat value tuple is longer than 2^15 (2^16) entries; structural checks
    only (slices, change-one, change-all, remove, append) against the slices cut out by the layers' parameter counts.
    No model comparison: the Gallina literal would hold tens of thousands of values twice."""
    from queasars.minimum_eigensolvers.evqe.evolutionary_algorithm.individual import EVQEIndividual

    hexes = lambda vs: [float(v) for v in vs]  # plain float comparison here (no NaN, no signed zero): tens of thousands of values
    ind = huge_individual(case)
    counts = [evqe.layer_n_parameters(l) for l in ind["layers"]]
    offs = [0]
    for c in counts:
        offs.append(offs[-1] + c)
    L, total = len(counts), offs[-1]
    ctx.tally(f"huge:values>{2**15 if total <= 2**16 else 2**16}")
    first_beyond = lambda lim: next((j for j in range(L) if offs[j + 1] > lim), L - 1)
    probes = sorted({0, 1, L // 2, L - 2, L - 1} | {j + d for lim in (2**15 - 1, 2**16 - 1) if total > lim for j in [first_beyond(lim)] for d in (-1, 0, 1, 2) if 0 <= j + d < L})
    res = call(lambda: evqe.impl_individual(ind))
    if res[0] != "ok":
        ctx.violation("oracle", f"huge-constructor-{res[1]}", f"a valid individual with {total} parameter values ({case['n']} qubits x {L} layers) is rejected: {res[1]}: {res[2]}", case)
        return None
    o = res[1]
    want = lambda j, vals=ind["values"]: hexes(vals[offs[j] : offs[j + 1]])
    for j in probes:
        got = call(lambda: o.get_layer_parameter_values(j))
        if got[0] != "ok" or hexes(got[1]) != want(j):
            ctx.violation("oracle", "huge-get-layer", f"get_layer_parameter_values({j}) of an individual with {total} values: {'raised ' + got[1] if got[0] != 'ok' else f'{len(got[1])} values instead of the {counts[j]} of the layer (offset {offs[j]})'}", case)
            break
    for j in probes + [-1, -2]:
        k = j % L
        new = [1000.0 + i for i in range(counts[k])]
        r = call(lambda: EVQEIndividual.change_layer_parameter_values(o, j, tuple(new)))
        exp = ind["values"][: offs[k]] + new + ind["values"][offs[k + 1] :]
        if r[0] != "ok" or hexes(r[1].parameter_values) != hexes(exp) or r[1].layers != o.layers:
            ctx.violation("oracle", f"huge-change-layer{'-raises-' + r[1] if r[0] != 'ok' else ''}", f"change_layer_parameter_values(layer_id={j}, {counts[k]} values) on an individual with {total} values (layer offset {offs[k]}): "
                          f"{'raised ' + r[1] + ': ' + r[2] if r[0] != 'ok' else 'the result is not the old tuple with exactly that slice replaced'}", case)
            break
        wrong = call(lambda: EVQEIndividual.change_layer_parameter_values(o, j, tuple(new) + (1.0,)))
        if wrong[0] != "exc" or wrong[1] != EXC:
            ctx.violation("oracle", "huge-change-layer-count", f"change_layer_parameter_values(layer_id={j}) with one value too many must raise {EXC}, got {wrong[:2]}", case)
            break
    allnew = [float(i % 977) for i in range(total)]
    r = call(lambda: EVQEIndividual.change_parameter_values(o, tuple(allnew)))
    if r[0] != "ok" or hexes(r[1].parameter_values) != hexes(allnew) or (r[0] == "ok" and hexes(r[1].get_layer_parameter_values(L - 1)) != hexes(allnew[offs[L - 1] :])):
        ctx.violation("oracle", "huge-change-all", f"change_parameter_values with {total} values: {r[:2] if r[0] != 'ok' else 'wrong values / last layer slice'}", case)
    for k in (1, 3):
        r = call(lambda: EVQEIndividual.remove_layers(o, k))
        if r[0] != "ok" or hexes(r[1].parameter_values) != hexes(ind["values"][: offs[L - k]]) or len(r[1].layers) != L - k or hexes(r[1].get_layer_parameter_values(-1)) != want(L - k - 1):
            ctx.violation("oracle", "huge-remove", f"remove_layers({k}) of an individual with {total} values: {r[:2] if r[0] != 'ok' else 'does not keep exactly the values of the remaining layers'}", case)
            break
    r = call(lambda: EVQEIndividual.add_random_layers(o, 1, False, case.get("seed", 1)))
    if r[0] != "ok" or hexes(r[1].parameter_values[:total]) != hexes(ind["values"]) or r[1].layers[:L] != o.layers or any(v != 0 for v in r[1].parameter_values[total:]):
        ctx.violation("oracle", "huge-append", f"add_random_layers(1) on an individual with {total} values: {r[:2] if r[0] != 'ok' else 'prefix not kept / new values not 0'}", case)
    elif hexes(r[1].get_layer_parameter_values(L)) != hexes(r[1].parameter_values[total:]) or not same_ind(EVQEIndividual.remove_layers(r[1], 1), o):
        ctx.violation("oracle", "huge-append-slices", "after add_random_layers(1): the new layer's slice is not the appended values, or remove_layers(1) does not give the individual back", case)
    return None


def do_forms_case(ctx, case):
    try:
        return do_forms_case_checks(ctx, case)
    except Exception as e:
        ctx.violation("oracle", f"forms-raises-{type(e).__name__}", f"an operation / accessor in the argument-form family raised {type(e).__name__}: {str(e)[:200]}", case)
        return None


def do_forms_case_checks(ctx, case):
    """Argument forms of the VALUES arguments.  On /repo HEAD change_layer_parameter_values accepts any sized sequence
    (tuple, list, numpy array, tuple of numpy.float64, range, deque) and returns an individual with a clean tuple;
    change_parameter_values keeps the object it is given, so only tuples (also of numpy.float64) are legal there.
    Every legal form must give the same individual as the plain tuple form; an exception is a violation."""
    import collections

    import numpy as np
    from queasars.minimum_eigensolvers.evqe.evolutionary_algorithm.individual import EVQEIndividual

    base = case["base"]
    ind = base["ind"]
    o = evqe.impl_individual(ind)
    vs = base["vs"]
    forms = {"list": list(vs), "ndarray": np.array(vs, dtype=float), "tuple_float64": tuple(np.float64(v) for v in vs), "deque": collections.deque(vs)}
    if base["kind"] == "change_all":
        forms = {"tuple_float64": forms["tuple_float64"]}
        op = lambda v: EVQEIndividual.change_parameter_values(o, v)
        what = "change_parameter_values"
    else:
        op = lambda v: EVQEIndividual.change_layer_parameter_values(o, base["layer_id"], v)
        what = f"change_layer_parameter_values(layer_id={base['layer_id']})"
    ref = call(lambda: op(tuple(vs)))
    for name, v in forms.items():
        ctx.tally(f"forms:{base['kind']}:{name}")
        got = call(lambda: op(v))
        if ref[0] == "ok":
            if got[0] != "ok":
                ctx.violation("oracle", f"values-as-{name}-raises-{got[1]}", f"{what} with the values given as {name} raised {got[1]}: {got[2]} (the tuple form succeeds)", case)
            elif not isinstance(got[1].parameter_values, tuple) or not same_ind(got[1], ref[1]):
                ctx.violation("oracle", f"values-as-{name}-differs", f"{what} with the values given as {name} gives another individual than the tuple form", case)
        elif got[0] != "exc" or got[1] != ref[1]:
            ctx.violation("oracle", f"values-as-{name}-error-differs", f"{what} with a wrong number of values given as {name}: {got[:2]} instead of {ref[:2]}", case)
    return do_single_case(ctx, base)


def do_single_case(ctx, case):
    from queasars.minimum_eigensolvers.evqe.evolutionary_algorithm.individual import EVQEIndividual

    kind, ind = case["kind"], case["ind"]
    toks = evqe.TokenTable()
    toks.tok(0.0)
    for v in ind["values"]:
        toks.tok(v)
    try:
        o = evqe.impl_individual(ind)
    except Exception as e:
        ctx.violation("oracle", f"constructor-{type(e).__name__}", f"a valid individual is rejected by the constructor: {type(e).__name__}", case)
        return None
    L, n = len(ind["layers"]), ind["n"]
    counts = [evqe.layer_n_parameters(l) for l in ind["layers"]]
    gi = evqe.g_individual(ind, toks)
    counts_txt = counts if len(counts) <= 16 else f"{counts[:8]}...({len(counts)} layers)"
    ctx.tally(kind)
    if any(c == 0 for c in counts):
        ctx.tally("has-parameterless-layer")
    if n == 1:
        ctx.tally("one-qubit")
    got_slices = layer_slices(o)
    if got_slices != expected_slices(ind):
        raised = len(got_slices) == 1 and isinstance(got_slices[0], str)
        ctx.violation("oracle", "layer-slices-raise" if raised else "layer-slices",
                      (f"{got_slices[0]} on a valid individual with layer parameter counts {counts}" if raised else "get_layer_parameter_values does not return the contiguous slices of the layers"), case)

    if kind == "remove":
        k = case["k"]
        res = call(lambda: EVQEIndividual.remove_layers(o, k))
        in_range = 0 < k < L
        ctx.tally("remove:in-range" if in_range else "remove:out-of-range")
        if in_range:
            if res[0] != "ok":
                ctx.violation("oracle", f"remove-raises-{res[1]}", f"remove_layers(k={k}) on a valid individual with {L} layers (parameter counts {counts_txt}) raised {res[1]}: {res[2]}", case)
            else:
                r = res[1]
                want = {"n": n, "layers": ind["layers"][: L - k], "values": ind["values"][: sum(counts[: L - k])]}
                if evqe.plain_individual(r)["layers"] != want["layers"] or hexes(r.parameter_values) != hexes(want["values"]) or not r.is_valid() or layer_slices(r) != expected_slices(ind)[: L - k]:
                    ctx.violation("oracle", "remove-wrong-result", f"remove_layers(k={k}) does not keep exactly the first {L - k} layers and their parameter values", case)
            if res[0] == "ok" and n <= 3 and L > 8:
                # the denoted state of the remaining layers: the shortened individual's circuit is the product of its
                # layers' own gates (each bound with the layer's own values)
                ctx.tally("remove:deep-unitary-checked")
                try:
                    from qiskit.quantum_info import Operator

                    r = res[1]
                    ref = r.get_partially_parameterized_quantum_circuit(set())
                    if not Operator(r.get_quantum_circuit()).equiv(Operator(ref)):
                        ctx.violation("oracle", "remove-changes-state", f"remove_layers(k={k}) of {L} layers: the circuit of the result is not the product of the remaining layers with their own values", case)
                except Exception as e:
                    ctx.violation("oracle", f"remove-circuit-{type(e).__name__}", f"building the circuit after remove_layers raised {type(e).__name__}: {str(e)[:200]}", case)
        elif res[0] != "exc" or res[1] != EXC:
            ctx.violation("oracle", "remove-out-of-range", f"remove_layers(k={k}) with {L} layers must raise {EXC}, got {res[:2]}", case)
        return f"CRemove {gi} {g_z(k)} {g_res(res, toks)}"

    if kind == "change_all":
        vs = case["vs"]
        res = call(lambda: EVQEIndividual.change_parameter_values(o, tuple(vs)))
        ok = len(vs) == sum(counts)
        ctx.tally("change_all:ok" if ok else "change_all:wrong-count")
        if ok:
            if res[0] != "ok" or res[1].layers != o.layers or res[1].n_qubits != n or hexes(res[1].parameter_values) != hexes(vs) or not res[1].is_valid():
                ctx.violation("oracle", "change-all-wrong", f"change_parameter_values changed more than the values or failed: {res[:2]}", case)
        elif res[0] != "exc" or res[1] != EXC:
            ctx.violation("oracle", "change-all-count", f"change_parameter_values with {len(vs)} values for {sum(counts)} parameters must raise {EXC}, got {res[:2]}", case)
        for v in vs:
            toks.tok(v)
        return f"CChangeAll {gi} {evqe.g_values(vs, toks)} {g_res(res, toks)}"

    if kind == "change_layer":
        lid, vs = case["layer_id"], case["vs"]
        k = lid % L
        lid_arg = typed_int(lid, case.get("layer_id_type"))
        vs_obj = tuple(vs)
        res = call(lambda: EVQEIndividual.change_layer_parameter_values(o, lid_arg, vs_obj))
        if case.get("layer_id_type"):
            ctx.tally(f"change_layer:id-type={case['layer_id_type']}")
        if L > 256:
            ctx.tally(f"change_layer:very-deep:target={'last' if k == L - 1 else k}")
        ok = len(vs) == counts[k]
        ctx.tally("change_layer:ok" if ok else "change_layer:wrong-count")
        ctx.tally("change_layer:id-" + ("negative" if lid < 0 else "beyond" if lid >= L else "plain"))
        if ok:
            if res[0] != "ok":
                ctx.violation("oracle", f"change-layer-raises-{res[1]}", f"change_layer_parameter_values(layer_id={lid}) raised {res[1]}: {res[2]}", case)
            else:
                r = res[1]
                want = expected_slices(ind)
                want[k] = hexes(vs)
                if r.layers != o.layers or r.n_qubits != n or not r.is_valid() or layer_slices(r) != want or hexes(r.parameter_values) != [h for s in want for h in s]:
                    ctx.violation("oracle", "change-layer-wrong", f"change_layer_parameter_values(layer_id={lid}): the values of layer {k} are not exactly the new ones or another layer changed (parameter counts {counts_txt})", case)
        elif res[0] != "exc" or res[1] != EXC:
            ctx.violation("oracle", "change-layer-count", f"change_layer_parameter_values with {len(vs)} values for a layer with {counts[k]} parameters must raise {EXC}, got {res[:2]}", case)
        for v in vs:
            toks.tok(v)
        g = f"CChangeLayer {gi} {g_z(lid)} {evqe.g_values(vs, toks)} {g_res(res, toks)}"
        # second case on the same input: the getter
        got = call(lambda: o.get_layer_parameter_values(lid_arg))
        if got[0] != "ok":
            ctx.violation("oracle", f"get-layer-raises-{got[1]}", f"get_layer_parameter_values(layer_id={lid}) raised {got[1]}: {got[2]} (layer parameter counts {counts})", case)
            return g
        return [g, f"CGetLayer {gi} {g_z(lid)} {evqe.g_values(got[1], toks)}"]

    # append
    nl, rnd, seed = case["n_layers"], case["randomize"], case["seed"]
    log = rnglog.RngLog(max_events=20000)
    with rnglog.patched(log):
        res = call(lambda: EVQEIndividual.add_random_layers(o, nl, rnd, seed))
    ctx.tally("append:ok" if nl >= 1 else "append:too-few")
    if n == 0 and nl >= 1:
        # a 0-qubit individual is valid; appending to it raises the LAYER exception (C16_random_append_zero_qubits)
        ctx.tally("append:zero-qubits")
        if res[0] != "exc" or res[1] != "EVQECircuitLayerException":
            ctx.violation("oracle", "append-zero-qubits", f"add_random_layers on a 0-qubit individual must raise EVQECircuitLayerException, got {res[:2]}", case)
    elif nl < 1:
        if res[0] != "exc" or res[1] != EXC:
            ctx.violation("oracle", "append-too-few", f"add_random_layers(n_layers={nl}) must raise {EXC}, got {res[:2]}", case)
    elif res[0] != "ok":
        ctx.violation("oracle", f"append-raises-{res[1]}", f"add_random_layers(n_layers={nl}) raised {res[1]}: {res[2]}", case)
    else:
        r = res[1]
        pr = evqe.plain_individual(r)
        new_vals = list(r.parameter_values)[len(ind["values"]):]
        if pr["layers"][:L] != ind["layers"] or hexes(pr["values"][: len(ind["values"])]) != hexes(ind["values"]) or len(pr["layers"]) != L + nl or not r.is_valid() or layer_slices(r)[:L] != expected_slices(ind):
            ctx.violation("oracle", "append-prefix", "add_random_layers does not keep all layers and parameter values as a prefix", case)
        if not rnd and any(v != 0 for v in new_vals):
            ctx.violation("oracle", "append-not-zero", "randomize_parameter_values=False but an appended parameter is not 0", case)
        back = call(lambda: EVQEIndividual.remove_layers(r, nl))
        if back[0] != "ok" or not same_ind(back[1], o):
            ctx.violation("oracle", "remove-does-not-undo-append", f"remove_layers(add_random_layers(ind, {nl}), {nl}) is not ind: {back[:2] if back[0] != 'ok' else 'different individual'}", case)
        if not rnd and n <= 4:
            ctx.tally("append:operator-equiv-checked")
            try:
                from qiskit.quantum_info import Operator

                u_before, u_after = Operator(o.get_quantum_circuit()), Operator(r.get_quantum_circuit())
                if not u_before.equiv(u_after):
                    ctx.violation("oracle", "append-changes-unitary", f"zero-initialised append of {nl} layers to an individual with {L} layers changes the unitary of the individual", case)
                if back[0] == "ok" and not Operator(back[1].get_quantum_circuit()).equiv(u_after):
                    ctx.violation("oracle", "undo-changes-unitary", f"remove_layers after a zero-initialised append of {nl} layers ({L} layers before) does not denote the unitary of the appended individual", case)
                if L + nl > 10:
                    ctx.tally("append:depth-crosses-10" if L <= 10 else "append:depth>10")
                if L + nl > 100:
                    ctx.tally("append:depth-crosses-100" if L <= 100 else "append:depth>100")
            except Exception as e:
                ctx.violation("oracle", f"append-circuit-{type(e).__name__}", f"building the circuits before/after the append raised {type(e).__name__}: {str(e)[:200]}", case)
    stream = rnglog.g_stream(log.decisions(), tok=toks.tok, value_of_random=lambda x: 2 * math.pi * x)
    return f"CAppendRandom {gi} {g_z(nl)} {g_bool(rnd)} {g_opt(None if seed is None else g_z(seed))} {stream} {g_res(res, toks)}"


# ------------------------------------------------------------------ generators
def gen_individual(rng):
    r = rng.random()
    n = rng.choice([1, 1, 1, 2, 2, 3, 3, 4, 5, 6])
    L = rng.randint(1, 6)
    counter = [0]

    def value():
        counter[0] += 1
        return rng.choice([0.0, 0.5, -1.25, -1.0, -2.0]) if rng.random() < 0.2 else round(rng.uniform(-6, 6), 5) + counter[0] * 1e-3

    if r < 0.25:
        # through the implementation's own generator (1 qubit: layers alternate rotation / identity)
        from queasars.minimum_eigensolvers.evqe.evolutionary_algorithm.individual import EVQEIndividual

        o = EVQEIndividual.random_individual(n, L, True, rng.randrange(2**31))
        ind = evqe.plain_individual(o)
        ind["values"] = [value() for _ in ind["values"]]
        return ind
    layers = []
    for _ in range(L):
        if rng.random() < 0.3:
            layers.append({"n": n, "gates": [["I", q] for q in range(n)]})
        else:
            layers.append(evqe.random_valid_layer(rng, n))
    return {"n": n, "layers": layers, "values": [value() for l in layers for _ in range(evqe.layer_n_parameters(l))]}


def gen_case(rng):
    ind = gen_individual(rng)
    L = len(ind["layers"])
    counts = [evqe.layer_n_parameters(l) for l in ind["layers"]]
    kind = rng.choice(["remove", "remove", "change_all", "change_layer", "change_layer", "append", "append"])
    fresh = lambda m: [round(rng.uniform(-3, 3), 4) + 100 + j for j in range(m)]
    if kind == "remove":
        return {"kind": kind, "ind": ind, "k": rng.choice(list(range(-1, L + 2)) + list(range(1, max(2, L))) * 2)}
    if kind == "change_all":
        m = sum(counts) + rng.choice([0, 0, 0, 0, 1, -1, 3])
        return {"kind": kind, "ind": ind, "vs": fresh(max(0, m))}
    if kind == "change_layer":
        lid = rng.randrange(-2 * L, 2 * L)
        m = counts[lid % L] + rng.choice([0, 0, 0, 0, 0, 1, -1, 3, -3])
        return {"kind": kind, "ind": ind, "layer_id": lid, "vs": fresh(max(0, m))}
    return {"kind": kind, "ind": ind, "n_layers": rng.choice([1, 1, 2, 2, 3, 4, 0, -1]), "randomize": rng.random() < 0.35, "seed": rng.randrange(2**31)}


def gen_very_deep_change(rng, target):
    """1 qubit, 258-300 layers, change_layer_parameter_values aimed at layer `target` (around 256, last, negative)"""
    L = rng.randint(258, 300)
    layers = [{"n": 1, "gates": [["R", 0]]} if rng.random() < 0.6 else {"n": 1, "gates": [["I", 0]]} for _ in range(L)]
    lid = L - 1 if target == "last" else target
    if rng.random() < 0.8:
        layers[lid % L] = {"n": 1, "gates": [["R", 0]]}
    values = [round(rng.uniform(-3, 3), 4) + j * 1e-3 for j in range(sum(evqe.layer_n_parameters(l) for l in layers))]
    return {"kind": "change_layer", "ind": {"n": 1, "layers": layers, "values": values}, "layer_id": lid, "vs": [100.5 + j for j in range(evqe.layer_n_parameters(layers[lid % L]))]}


def gen_forms_case(rng):
    while True:
        c = gen_case(rng)
        if c["kind"] in ("change_layer", "change_all"):
            return {"kind": "forms", "base": c}


def gen_typed_change(rng, k_type):
    while True:
        c = gen_case(rng)
        if c["kind"] == "change_layer":
            return dict(c, layer_id_type=k_type)


def gen_deep_case(rng, L=None, n=None):
    """1-3 qubits, 8-12 layers (or ~100 on 1 qubit) with non-zero values: the append / removal crosses a depth of
    10 (100) layers, where parameter names of different width meet"""
    n = n or rng.choice([1, 2, 2, 3])
    L = L or rng.randint(8, 12)
    layers = [evqe.random_valid_layer(rng, n) if rng.random() < 0.85 else {"n": n, "gates": [["I", q] for q in range(n)]} for _ in range(L)]
    if all(evqe.layer_n_parameters(l) == 0 for l in layers[-3:]):
        layers[-1] = {"n": n, "gates": [["R", q] for q in range(n)]}
    values = [round(rng.uniform(0.2, 6.0), 4) + j * 1e-3 for j in range(sum(evqe.layer_n_parameters(l) for l in layers))]
    ind = {"n": n, "layers": layers, "values": values}
    if rng.random() < 0.7:
        return {"kind": "append", "ind": ind, "n_layers": rng.randint(1, 4), "randomize": False, "seed": rng.randrange(2**31)}
    return {"kind": "remove", "ind": ind, "k": rng.randint(1, min(4, L - 1))}


TWIN_VALUES = {"-1.0/-2.0": (-1.0, -2.0), "-2.0/int -1/-1.0": (-2.0, -1, -1.0), "0.0/-0.0": (0.0, -0.0)}


def gen_twins(rng, how):
    """the same operation on members that are identical except for hash-equal values, either in the individual's
    parameter values or in the new value vector of change_parameter_values / change_layer_parameter_values"""
    while True:
        base = gen_case(rng)
        where = rng.choice(["values", "vs"])
        if base["kind"] == "twins" or (where == "vs" and not base.get("vs")) or (where == "values" and not base["ind"]["values"]):
            continue
        break
    vec = base["ind"]["values"] if where == "values" else base["vs"]
    pos = sorted(rng.sample(range(len(vec)), 1 if len(vec) == 1 else rng.choice([1, 2])))
    members = []
    for tv in TWIN_VALUES[how]:
        m = json.loads(json.dumps(base))
        tgt = m["ind"]["values"] if where == "values" else m["vs"]
        for q in pos:
            tgt[q] = tv
        members.append(m)
    return {"kind": "twins", "how": f"{how} in {where} of {base['kind']}", "members": members}


def fixed_cases():
    """F-C16's witness and its neighbours: 1 qubit, parameter counts [3,0,3,0]"""
    ind = {"n": 1, "layers": [{"n": 1, "gates": [["R", 0]]}, {"n": 1, "gates": [["I", 0]]}, {"n": 1, "gates": [["R", 0]]}, {"n": 1, "gates": [["I", 0]]}], "values": [1.0, 2.0, 3.0, 4.0, 5.0, 6.0]}
    out = [{"kind": "remove", "ind": ind, "k": k} for k in (-1, 0, 1, 2, 3, 4, 5)]
    out += [{"kind": "change_layer", "ind": ind, "layer_id": lid, "vs": vs} for lid, vs in ((1, []), (2, [7.0, 8.0, 9.0]), (-1, []), (-2, [7.0, 8.0, 9.0]), (6, [7.0, 8.0, 9.0]), (3, [1.0]))]
    lead = {"n": 2, "layers": [{"n": 2, "gates": [["I", 0], ["I", 1]]}, {"n": 2, "gates": [["CR", 0, 1], ["C", 1, 0]]}, {"n": 2, "gates": [["R", 0], ["R", 1]]}], "values": [float(v) for v in range(1, 10)]}
    out += [{"kind": "change_layer", "ind": lead, "layer_id": lid, "vs": vs} for lid, vs in ((1, [20.0, 21.0, 22.0]), (2, [20.0, 21.0, 22.0, 23.0, 24.0, 25.0]), (0, []))]
    out += [{"kind": "remove", "ind": lead, "k": k} for k in (1, 2)]
    # the individual on 0 qubits: valid for the constructors; every operation but the random append works on it
    empty = {"n": 0, "layers": [{"n": 0, "gates": []}, {"n": 0, "gates": []}], "values": []}
    out += [{"kind": "append", "ind": empty, "n_layers": nl, "randomize": r, "seed": 1} for nl in (1, 2, 0) for r in (False, True)]
    out += [{"kind": "remove", "ind": empty, "k": k} for k in (0, 1, 2)]
    out += [{"kind": "change_layer", "ind": empty, "layer_id": 3, "vs": []}, {"kind": "change_all", "ind": empty, "vs": []}]
    return out


def run(ctx):
    translate.check_link(ctx, "C16")
    ctx.rule = ("random valid individuals (1-6 qubits, 1-6 layers, 30% parameterless layers, a quarter from the implementation's own random_individual) x one operation: "
                "remove_layers k in [-1, L+1]; change_parameter_values with the right count or off by 1/3; change_layer_parameter_values with layer ids in [-2L, 2L) and right/wrong counts (+ the getter); "
                "add_random_layers with n_layers in {-1,0,1..4}, zero or random initialisation, followed by remove_layers of the same count; argument forms of the values arguments (list / numpy array / tuple of numpy.float64 / deque where HEAD accepts them) must give the same individual as the tuple form; one 'many parameters' individual (64 qubits x 260 layers, > 2^15 values; thorough also > 2^16) with structural checks only; very deep individuals (1 qubit, 258-300 layers) x change_layer_parameter_values aimed at layers 255..258 / last / negative ids; layer ids given as numpy.int64 / intp / int32 / an int subclass; deep individuals (1-3 qubits, 8-12 layers, and ~100 layers on 1 qubit, non-zero values) x zero-initialised append of 1-4 layers / removal, unitary compared before/after (depth crosses 10 and 100); values include -1.0 / -2.0 (equal hash); hash-collision twins: the same operation on 2-3 individuals / value vectors identical except for -1.0 / -2.0 / int -1 or 0.0 / -0.0, consecutively in one process; distinct = distinct (individual, operation, arguments); all cases non-trivial")
    if not rnglog.selftest():
        ctx.violation("correspondence", "rnglog-selftest", "the logging Random does not reproduce random.Random on this interpreter (vlib/rnglog.py)")
    cases = []
    cdir = core.ROOT / "corpus" / "C16"
    for f in sorted(cdir.glob("*.json")) if cdir.exists() else []:
        cases.append(json.loads(f.read_text()))
    cases += fixed_cases()
    for _ in range(ctx.n(1500, 12000)):
        cases.append(gen_case(ctx.rng))
    for target in ((255, 256, 257, 258, "last", -1, -2) if ctx.quick else (0, 1, 254, 255, 256, 257, 258, 259, 270, "last", -1, -2, -40, 557, -301)):
        for _ in range(ctx.n(1, 3)):
            cases.append(gen_very_deep_change(ctx.rng, target))
    for k_type in ("int64", "intp", "int32", "intsub"):
        for _ in range(ctx.n(12, 100)):
            cases.append(gen_typed_change(ctx.rng, k_type))
    for _ in range(ctx.n(60, 600)):
        cases.append(gen_forms_case(ctx.rng))
    huge = [{"kind": "huge", "n": 64, "n_layers": 260, "seed": 3}] if ctx.quick else [{"kind": "huge", "n": 64, "n_layers": 260, "seed": 3}, {"kind": "huge", "n": 33, "n_layers": 400, "seed": 4},
                                                                                   {"kind": "huge", "n": 64, "n_layers": 400, "seed": 5}, {"kind": "huge", "n": 100, "n_layers": 300, "seed": 6}]
    cases += huge
    ctx.notes["many_parameters"] = f"{len(huge)} individual(s) with more than 2^15 (thorough: also 2^16) parameter values: structural checks on the implementation only, no model comparison (the Gallina literal would hold the value tuple several times)"
    for _ in range(ctx.n(40, 400)):
        cases.append(gen_deep_case(ctx.rng))
    for L in ((99, 100) if ctx.quick else (98, 99, 100, 101)):
        cases.append(dict(gen_deep_case(ctx.rng, L=L, n=1), kind="append", n_layers=2, randomize=False, seed=L))
    for how in TWIN_VALUES:
        for _ in range(ctx.n(12, 100)):
            cases.append(gen_twins(ctx.rng, how))
    glits, kept = [], []
    for c in cases:
        g = do_case(ctx, c)
        ctx.case(c, nontrivial=True, sample=c if c["kind"] in ("remove", "change_layer") and len(c["ind"]["layers"]) <= 2 else None)  # twins: never a sample
        for gg in ([] if g is None else g if isinstance(g, list) else [g]):
            glits.append(gg)
            kept.append(c)
    bad = core.model_mismatches("C16", IMPORTS, "check_case", glits, chunk=120)
    for i in bad[:5]:
        detail = dict(gallina=glits[i][:3000])
        try:
            detail["model (repaired, legacy)"] = core.model_show("C16", IMPORTS, f"show_case ({glits[i]})")
        except Exception as e:
            detail["model"] = f"(not evaluated: {e})"
        ctx.violation("correspondence", f"model-vs-impl-{kept[i]['kind']}", f"the Coq model of {kept[i]['kind']} and the implementation answer differently", kept[i], detail=detail)
    ctx.traces = len(glits)
    operator_level(ctx)


class _OpsCtx:
    """The structural mutations are reached by users through the mutation OPERATORS (mutation.py is one of C16's files):
    the same operator objects applied repeatedly, as the solver does.  The sequences, the snapshot machinery and the
    per-index contracts are C10's (vlib/opskit.py); here only the clauses that are C16's are kept: topological search =
    the given individual plus exactly one zero-initialised layer (prefix kept), layer removal = a non-empty proper suffix
    dropped (values of the remaining layers kept), untouched individuals returned as they are.  Everything else
    (speciation, selection, model correspondence) is C10's business and is not reported here."""

    KEEP = ("mutation-topo", "mutation-removal", "mutation-writeback", "exception-topo", "exception-removal")

    def __init__(self, ctx):
        object.__setattr__(self, "_ctx", ctx)

    def __getattr__(self, name):
        return getattr(self._ctx, name)

    def __setattr__(self, name, value):
        setattr(self._ctx, name, value)

    def violation(self, kind, key, what, case=None, detail=None):
        if kind == "oracle" and key.startswith(self.KEEP):
            self._ctx.violation(kind, "operator-" + key, what, {"kind": "operator_sequence", "spec": case}, detail)


def operator_level(ctx, specs=None):
    from vlib import opskit

    if specs is None:
        specs = opskit.persistent_specs(ctx.rng, ctx.n(20, 200)) + opskit.mutation_after_speciation_specs(ctx.rng, ctx.n(8, 80)) + opskit.sparse_mutation_specs(ctx.rng, ctx.n(9, 90))
    opskit.drive(_OpsCtx(ctx), "C16ops", specs, opskit.oracle_c10, None, "check_case", "model-vs-impl")
    ctx.notes["operator_level"] = "topological search / layer removal applied through persistent operator objects (sequences and per-index contracts of vlib/opskit.py); only the structural-mutation clauses are reported under C16"


def replay(ctx, payload):
    if translate.is_link_replay(payload) and not payload.get("failing_input"):
        return translate.replay(ctx, payload, "C16")  # a replay file written for a broken translation tie
    c = payload.get("case") or payload.get("failing_input")
    if c.get("kind") == "operator_sequence":
        spec = {k: v for k, v in c["spec"].items() if k != "failing_step"}
        operator_level(ctx, [spec])
        for v in ctx.violations:
            print("oracle:", v["what"])
        print("impl-vs-property:", "FAILS" if ctx.violations else "ok")
        return
    g = do_case(ctx, c)
    for v in ctx.violations:
        print("oracle:", v["what"])
    print("impl-vs-property:", "FAILS" if ctx.violations else "ok")
    for gg in ([] if g is None else g if isinstance(g, list) else [g]):
        bad = core.model_mismatches("C16_replay", IMPORTS, "check_case", [gg])
        print("model-vs-impl:", "DIFFER" if bad else "agree")
        print("model (repaired, legacy):", core.model_show("C16", IMPORTS, f"show_case ({gg})"))
