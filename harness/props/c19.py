"""C19 — schedule verdicts match the JSSP definition; only well-formed data accepted.
Oracle: the definition evaluated pairwise here on plain data.  Correspondence: QV.Jssp.C19Check.check_case."""
from __future__ import annotations

import itertools
import json

from vlib import core, jssp, translate
from vlib.core import g_bool, g_opt, g_str, g_z

IMPORTS = "From QV Require Import Jssp.Valid Jssp.ResultObj Jssp.C19Check."
EXC = "JobShopSchedulingProblemException"


# ------------------------------------------------------------------ oracles (the documented rules, on plain data)
def _d(o):
    """an operation's duration as an exact number (plain data holds an int or a [numerator, denominator] pair)"""
    return jssp.num(o["dur"], "fraction") if isinstance(o["dur"], list) else o["dur"]


def _t(st):
    return jssp.num(st, "fraction") if isinstance(st, list) else st


def integral(case_rows):
    return all(not isinstance(o["dur"], list) and not isinstance(st, list) for _, entries in case_rows for o, st in entries)


def spec_verdict(rows):
    """rows: general schedule (dict order). Returns (valid, makespan)."""
    rows = [[j, [[dict(o, dur=_d(o)), _t(st)] for o, st in entries]] for j, entries in rows]
    flat = []
    for _, entries in rows:
        for o, st in entries:
            if st is None:
                return False, None
    for _, entries in rows:
        for (o1, s1), (o2, s2) in zip(entries, entries[1:]):
            if s2 < s1 + o1["dur"]:
                return False, None
        flat += [(o["machine"], st, st + o["dur"]) for o, st in entries]
    for (m1, s1, e1), (m2, s2, e2) in itertools.combinations(flat, 2):
        if m1 == m2 and not (e1 <= s2 or e2 <= s1):
            return False, None
    return True, max(e for _, _, e in flat)


def spec_operation(o):
    return o["name"] != "" and o["job"] != "" and _d(o) > 0


def spec_job(j):
    names = [o["name"] for o in j["ops"]]
    machines = [o["machine"] for o in j["ops"]]
    return (j["name"] != "" and len(j["ops"]) >= 1 and len(set(names)) == len(names)
            and all(o["job"] == j["name"] for o in j["ops"]) and len(set(machines)) == len(machines))


def spec_instance(i):
    jn = [j["name"] for j in i["jobs"]]
    return (i["name"] != "" and len(set(i["machines"])) == len(i["machines"]) and len(set(jn)) == len(jn)
            and all(o["machine"] in i["machines"] for j in i["jobs"] for o in j["ops"]))


def spec_result(i, rows):
    key = lambda j: json.dumps(j, sort_keys=True)
    keys = [key(j) for j, _ in rows]
    if set(keys) != {key(j) for j in i["jobs"]}:
        return False
    for j in i["jobs"]:
        entries = rows[keys.index(key(j))][1]
        if [o for o, _ in entries] != j["ops"]:
            return False
    return True


# ------------------------------------------------------------------ implementation
def impl_accepts(f):
    from queasars.job_shop_scheduling.problem_instances import JobShopSchedulingProblemException

    try:
        f()
        return True, None
    except JobShopSchedulingProblemException:
        return False, None
    except Exception as e:  # any other exception class is not the documented behaviour
        return False, type(e).__name__


def impl_queries(inst, rows, qs):
    """Read the given properties, in this order, on ONE freshly constructed result object."""
    from queasars.job_shop_scheduling.problem_instances import JobShopSchedulingProblemException, JobShopSchedulingResult

    res = JobShopSchedulingResult(jssp.impl_instance(inst), jssp.impl_general_schedule(rows))
    out = []
    for q in qs:
        if q == "valid":
            out.append(["valid", bool(res.is_valid)])
        elif q == "makespan":
            out.append(["makespan", res.makespan])
        else:
            try:
                vs = res.valid_schedule
                out.append(["accessor", False if (vs is res.schedule or vs == res.schedule) else "different-schedule"])
            except JobShopSchedulingProblemException:
                out.append(["accessor", True])
    return out


def g_answers(ans):
    out = []
    for k, v in ans:
        if k == "valid":
            out.append(f"AValid {g_bool(v)}")
        elif k == "makespan":
            out.append(f"AMakespan {g_opt(None if v is None else g_z(v))}")
        else:
            out.append(f"AAccessor {g_bool(v is True)}")
    return core.g_list(out)


def impl_verdict(inst, rows, form="int", start_form="int", pi=None):
    from queasars.job_shop_scheduling.problem_instances import JobShopSchedulingProblemException, JobShopSchedulingResult

    pi = jssp.impl_instance(inst, form) if pi is None else pi
    res = JobShopSchedulingResult(pi, jssp.impl_general_schedule(rows, form, start_form))
    valid = res.is_valid
    mk = res.makespan
    if mk is not None and mk == int(mk):
        mk = int(mk)
    try:
        vs = res.valid_schedule
        raises = False
        if vs is not res.schedule and vs != res.schedule:
            raises = "different-schedule"
    except JobShopSchedulingProblemException:
        raises = True
    return valid, mk, raises


def _plain_row(entries):
    out = []
    for e in entries:
        o = e.operation
        out.append([{"name": o.name, "job": o.job_name, "machine": o.machine.name, "dur": o.processing_duration},
                    e.start_time if e.is_scheduled else None])
    return out


def impl_stored(inst, rows):
    """What an accepted result object holds: result.schedule[k] (and result.valid_schedule[k] when valid) for every
    key k of the caller's mapping (in the caller's order) and for every job of the instance."""
    from queasars.job_shop_scheduling.problem_instances import JobShopSchedulingResult

    pi = jssp.impl_instance(inst)
    given = jssp.impl_general_schedule(rows)
    res = JobShopSchedulingResult(pi, given)
    per_key, problems = [], []
    for (jd, want), key in zip(rows, given):
        try:
            got = _plain_row(res.schedule[key])
        except KeyError:
            problems.append(f"result.schedule has no entry for job {jd['name']!r}")
            continue
        per_key.append([jd, got])
        if got != [[o, st] for o, st in want]:
            problems.append(f"result.schedule[{jd['name']!r}] holds {got}, the caller passed {want}")
    if len(res.schedule) != len(given):
        problems.append(f"result.schedule has {len(res.schedule)} entries, the caller passed {len(given)}")
    for job in pi.jobs:
        try:
            got = res.schedule[job]
        except KeyError:
            problems.append(f"result.schedule has no entry for the instance's job {job.name!r}")
            continue
        if tuple(e.operation for e in got) != tuple(job.operations):
            problems.append(f"result.schedule[{job.name!r}] wraps operations {[str(e.operation) for e in got]} instead of the job's own")
    if res.is_valid:
        vs = res.valid_schedule
        for (jd, want), key in zip(rows, given):
            if _plain_row(vs[key]) != [[o, st] for o, st in want]:
                problems.append(f"result.valid_schedule[{jd['name']!r}] differs from what the caller passed")
    return per_key, problems


# ------------------------------------------------------------------ generators
def gen_verdict_case(rng):
    inst = jssp.random_instance(rng, max_jobs=3, max_machines=3, max_dur=3)
    if rng.random() < 0.12:
        for _ in range(20):
            cand = gen_confusable_instance(rng)
            if spec_instance(cand) and all(spec_job(j) for j in cand["jobs"]):
                inst = cand
                break
    mode = rng.random()
    sched = []
    if mode < 0.45:
        # mostly feasible-looking: sequential starts per job with small jitter
        for ji, j in enumerate(inst["jobs"]):
            t = rng.randint(0, 3)
            starts = []
            for o in j["ops"]:
                t += rng.choice([0, 0, 0, 1, 2])
                starts.append(t)
                t += o["dur"] + rng.choice([0, 0, 0, -1])
            sched.append([ji, starts])
    else:
        p_none = rng.choice([0.0, 0.0, 0.1, 0.3])
        for ji, j in enumerate(inst["jobs"]):
            sched.append([ji, [None if rng.random() < p_none else rng.randint(-1, 7) for _ in j["ops"]]])
    if rng.random() < 0.5:
        rng.shuffle(sched)
    return inst, jssp.expand_sched(inst, sched)


def gen_numeric_case(rng):
    """a verdict case whose durations (and start times) are numpy integers or Fractions instead of plain ints"""
    inst, rows = gen_verdict_case(rng)
    form = rng.choice(["int64", "int32", "uint8", "uint32", "uint64", "fraction", "fraction"])
    start_form = "int"
    if form == "fraction":
        # halves: durations k/2 (k = 1..6), start times partly half-integral
        inst = json.loads(json.dumps(inst))
        rows = json.loads(json.dumps(rows))
        durs = {}
        for j in inst["jobs"]:
            for o in j["ops"]:
                durs[(j["name"], o["name"])] = [rng.randint(1, 6), 2]
                o["dur"] = durs[(j["name"], o["name"])]
        for j, entries in rows:
            for o in j["ops"]:
                o["dur"] = durs[(j["name"], o["name"])]
            for e in entries:
                e[0]["dur"] = durs[(j["name"], e[0]["name"])]
                if e[1] is not None and rng.random() < 0.5:
                    e[1] = [2 * e[1] + rng.choice([0, 1]), 2]
    else:
        if form.startswith("u"):
            for _, entries in rows:
                for e in entries:
                    if e[1] is not None and e[1] < 0:
                        e[1] = 0
        elif rng.random() < 0.5:
            start_form = "int64"
    return {"kind": "verdict", "inst": inst, "rows": rows, "form": form, "start_form": start_form}


XPROC_CODE = r"""
import sys, json, pickle, base64
spec = json.loads(sys.stdin.read())
sys.path[:] = [p for p in sys.path if "queasars" not in p.lower()]
sys.path.insert(0, spec["repo"]); sys.path.insert(0, spec["harness"])
import warnings; warnings.filterwarnings("ignore")
from vlib import jssp
out = []
for inst in spec["items"]:
    pi = jssp.impl_instance(inst)
    # use the objects the way a program does before shipping them: as dict keys and set members
    _ = {job: len(job.operations) for job in pi.jobs}; _ = {op for job in pi.jobs for op in job.operations}; _ = set(pi.machines); hash(pi)
    out.append(base64.b64encode(pickle.dumps(pi)).decode())
sys.stdout.write("XPROC-BEGIN" + json.dumps(out) + "XPROC-END")
"""
XPROC_CACHE = {}


def xproc_load(cases):
    """ONE subprocess per hash seed builds, hashes and pickles the instances of all given cases"""
    import base64
    import os
    import pickle
    import subprocess

    by_seed = {}
    for c in cases:
        by_seed.setdefault(c["hashseed"], []).append(c)
    for hs, cs in by_seed.items():
        env = dict(os.environ, PYTHONHASHSEED=str(hs), PYTHONWARNINGS="ignore")
        p = subprocess.run(["/venv/bin/python", "-c", XPROC_CODE], input=json.dumps(dict(repo=str(core.REPO), harness=str(core.ROOT / "harness"), items=[c["inst"] for c in cs])),
                           capture_output=True, text=True, env=env, timeout=600)
        if "XPROC-BEGIN" not in p.stdout:
            raise RuntimeError("cross-process producer failed: " + (p.stderr or p.stdout)[-1500:])
        blobs = json.loads(p.stdout.split("XPROC-BEGIN")[1].split("XPROC-END")[0])
        for c, b in zip(cs, blobs):
            XPROC_CACHE[json.dumps([c["inst"], c["hashseed"]], sort_keys=True)] = pickle.loads(base64.b64decode(b))


def xproc_instance(ctx, case):
    k = json.dumps([case["inst"], case["hashseed"]], sort_keys=True)
    if k not in XPROC_CACHE:
        xproc_load([case])  # replay of a single case
    return XPROC_CACHE[k]


NAMES = ["", "a", "b", "a_b", "é\"x"]
# names that are different strings (so different machines / jobs / operations by the documented rules, which speak of names)
# but that a normalising comparison (case folding, stripping, unicode normalisation) would identify
CONFUSABLE = ["m1", "M1", "m1 ", " m1", "m\u00e9", "me\u0301", "M\u00c9", "\uff4d1", "m01"]


TWINS = [("m1", "M1"), ("m1", "m1 "), ("m1", " m1"), ("m\u00e9", "me\u0301"), ("m\u00e9", "M\u00c9"), ("m1", "\uff4d1"), ("m1", "m01"), ("stra\u00dfe", "STRASSE")]


def gen_confusable_instance(rng):
    """An instance built around one pair of twin names (a, b): a is declared, b is declared in half of the cases;
    operations use a and b (so when b is not declared the rules reject; when both are declared, operations on a and on b
    run on DIFFERENT machines and one job may visit both).  Job and operation names use twins too."""
    a, b = rng.choice(TWINS)
    if rng.random() < 0.5:
        a, b = b, a
    declared = [a] + ([b] if rng.random() < 0.5 else []) + (["other"] if rng.random() < 0.3 else [])
    rng.shuffle(declared)
    jobs = []
    jnames = rng.sample(["j", "J", "j ", "\uff4a"], rng.randint(1, 3))
    for jn in jnames:
        ms = rng.sample([a, b] + (["other"] if "other" in declared else []), rng.randint(1, 2))
        onames = rng.sample(["o", "O", "o ", "\uff4f"], len(ms))
        jobs.append({"name": jn, "ops": [{"name": on, "job": jn, "machine": m, "dur": rng.randint(1, 3)} for on, m in zip(onames, ms)]})
    return {"name": "inst", "machines": declared, "jobs": jobs}


def gen_ctor_case(rng):
    kind = rng.choice(["machine", "operation", "operation-numeric", "job", "instance", "result", "result", "confusable", "confusable-job"])
    if kind == "confusable":
        return "instance", gen_confusable_instance(rng)
    if kind == "confusable-job":
        # a job whose operations visit confusable twins (different machines by name) or the same name twice
        ms = list(rng.choice(TWINS)) + [rng.choice(CONFUSABLE)] * rng.randint(0, 1)
        return "job", {"name": "a", "ops": [{"name": n, "job": "a", "machine": m, "dur": 1} for n, m in zip(["x", "X", "x "], ms)]}
    if kind == "machine":
        return kind, rng.choice(NAMES + [" "])
    if kind == "operation":
        return kind, {"name": rng.choice(NAMES), "job": rng.choice(NAMES), "machine": rng.choice(["m0", "m1"]), "dur": rng.choice([-2, 0, 1, 1, 2, 5])}
    if kind == "operation-numeric":
        # durations given as numpy integers or Fractions (incl. values strictly between 0 and 1, zero and negative ones)
        form = rng.choice(["int64", "uint8", "uint32", "fraction", "fraction", "fraction"])
        dur = rng.choice([[1, 2], [1, 4], [3, 2], [0, 1], [-1, 2], [5, 1], [1, 1000]]) if form == "fraction" else rng.choice([0, 1, 2, 5, 255] if form.startswith("u") else [-2, 0, 1, 2, 5])
        return "operation", {"name": "x", "job": "a", "machine": "m0", "dur": dur, "_form": form}
    if kind == "job":
        jn = rng.choice(["", "a", "a", "a", "a_b"])
        ops = []
        for _ in range(rng.choice([0, 1, 2, 2, 3])):
            ops.append({"name": rng.choice(["x", "y", "z", "b_x"]), "job": rng.choice([jn or "a"] * 5 + ["a", "c"]), "machine": rng.choice(["m0", "m1", "m2", "m3"]), "dur": rng.randint(1, 3)})
        return kind, {"name": jn, "ops": ops}
    inst = jssp.random_instance(rng)
    if kind == "instance":
        r = rng.random()
        if r < 0.2:
            inst["machines"].append(rng.choice(inst["machines"]))
        elif r < 0.4 and len(inst["jobs"]) > 1:
            dup = json.loads(json.dumps(inst["jobs"][0]))
            dup["ops"] = dup["ops"][:1]
            inst["jobs"].append(dup)
        elif r < 0.6:
            inst["machines"] = inst["machines"][:-1]
        elif r < 0.7:
            inst["name"] = ""
        return kind, inst
    # result
    rows = jssp.expand_sched(inst, [[ji, [rng.choice([None, 0, 1, 2, 3]) for _ in j["ops"]]] for ji, j in enumerate(inst["jobs"])])
    r = rng.random()
    if r < 0.15:
        rows.pop(rng.randrange(len(rows)))
    elif r < 0.3:
        rows.append([{"name": "extra", "ops": [{"name": "o0", "job": "extra", "machine": "m0", "dur": 1}]}, [[{"name": "o0", "job": "extra", "machine": "m0", "dur": 1}, 0]]])
    elif r < 0.45:
        row = rng.choice(rows)
        if len(row[1]) > 1:
            row[1].reverse()
        else:
            row[1][0][0] = dict(row[1][0][0], dur=row[1][0][0]["dur"] + 1)
    elif r < 0.55:
        row = rng.choice(rows)
        row[1].pop()
    elif r < 0.65:
        rng.shuffle(rows)
    return kind, (inst, rows)


# ------------------------------------------------------------------ one case -> (impl answer, oracle verdicts, gallina)
def do_case(ctx, case):
    kind = case["kind"]
    if kind in ("verdict", "xproc"):
        inst, rows = case["inst"], case["rows"]
        form, start_form, pi = case.get("form", "int"), case.get("start_form", "int"), None
        if kind == "xproc":
            try:
                pi = xproc_instance(ctx, case)
            except Exception as e:
                ctx.violation("oracle", f"xproc-setup-{type(e).__name__}", f"an instance pickled in another process (PYTHONHASHSEED={case['hashseed']}) could not be used: {str(e)[:300]}", case)
                return None
            local = jssp.impl_instance(inst)
            if not (pi == local and hash(pi) == hash(local) and all(a == b and hash(a) == hash(b) and a in {b} for a, b in zip(pi.jobs, local.jobs))):
                ctx.violation("oracle", "xproc-unpickled-not-equal", f"an instance unpickled from another process (PYTHONHASHSEED={case['hashseed']}) does not equal / hash like / look up like the same instance built here", case)
        try:
            valid, mk, raises = impl_verdict(inst, rows, form, start_form, pi)
        except Exception as e:
            ctx.violation("oracle", f"verdict-exception-{type(e).__name__}", f"verdict computation raised {type(e).__name__}: {e}" + (f" (durations as {form}, start times as {start_form})" if (form, start_form) != ("int", "int") else "") + (" (instance unpickled from another process, schedule built here)" if kind == "xproc" else ""), case)
            return None
        sv, sm = spec_verdict(rows)
        if (bool(valid), mk, raises) != (sv, sm, not sv):
            what = "is_valid" if bool(valid) != sv else ("makespan" if mk != sm else "valid_schedule accessor")
            ctx.violation("oracle", f"verdict-{what.split()[0]}", f"{what} disagrees with the JSSP definition: impl valid={valid} makespan={mk} accessor_raises={raises}, definition valid={sv} makespan={sm}", case)
        ctx.tally(("verdict:valid" if sv else "verdict:invalid") + (f":dur={form}:start={start_form}" if (form, start_form) != ("int", "int") else "") + (":xproc" if kind == "xproc" else ""))
        if not integral(rows):
            return None  # non-integral durations / start times: the Z model does not apply, the oracle decides
        return f"CVerdict {jssp.g_inst(inst)} {jssp.g_general_sched(rows)} {g_bool(valid)} {g_opt(None if mk is None else g_z(mk))} {g_bool(raises is True)}"
    if kind == "stored":
        inst, rows = case["inst"], case["rows"]
        try:
            per_key, problems = impl_stored(inst, rows)
        except Exception as e:
            ctx.violation("oracle", f"stored-exception-{type(e).__name__}", f"reading the schedule of an accepted result raised {type(e).__name__}: {e}", case)
            return None
        for pr in problems[:1]:
            ctx.violation("oracle", "stored-schedule-does-not-match", f"accepted result's schedule does not match its instance / the caller's mapping: {pr}", case)
        ctx.tally("stored:" + ("caller-order" if [j for j, _ in rows] == inst["jobs"] else "permuted"))
        return f"CStored {jssp.g_inst(inst)} {jssp.g_general_sched(rows)} {jssp.g_general_sched(per_key)}"
    if kind == "queries":
        inst, rows, qs = case["inst"], case["rows"], case["queries"]
        try:
            ans = impl_queries(inst, rows, qs)
        except Exception as e:
            ctx.violation("oracle", f"queries-exception-{type(e).__name__}", f"reading {qs} on a fresh result raised {type(e).__name__}: {e}", case)
            return None
        sv, sm = spec_verdict(rows)
        want = [["valid", sv] if q == "valid" else ["makespan", sm] if q == "makespan" else ["accessor", not sv] for q in qs]
        if ans != want:
            k = next(i for i, (a, w) in enumerate(zip(ans, want)) if a != w)
            ctx.violation("oracle", f"queries-{qs[k]}-after-{'-'.join(qs[:k]) or 'nothing'}", f"property '{qs[k]}' read after {qs[:k]} on a fresh result answers {ans[k][1]!r}, the JSSP definition says {want[k][1]!r}", case)
        ctx.tally("queries:" + (qs[0] + "-first"))
        gq = core.g_list({"valid": "QValid", "makespan": "QMakespan", "accessor": "QAccessor"}[q] for q in qs)
        return f"CQueries {jssp.g_inst(inst)} {jssp.g_general_sched(rows)} {gq} {g_answers(ans)}"
    arg = case["arg"]
    from queasars.job_shop_scheduling.problem_instances import Job, JobShopSchedulingProblemInstance, JobShopSchedulingResult, Machine, Operation

    if kind == "machine":
        acc, odd = impl_accepts(lambda: Machine(arg))
        spec, g = arg != "", f"CMachine {g_str(arg)}"
    elif kind == "operation":
        form = case.get("form", "int")
        given = jssp.num(arg["dur"], form)
        made = []
        acc, odd = impl_accepts(lambda: made.append(Operation(arg["name"], arg["job"], Machine(arg["machine"]), given)))
        spec = spec_operation(arg)
        g = f"COperation {jssp.g_op(arg)}" if not isinstance(arg["dur"], list) else None
        if acc and made:
            op = made[0]
            back = (op.name, op.job_name, op.machine.name, op.processing_duration)
            if back != (arg["name"], arg["job"], arg["machine"], given):
                ctx.violation("oracle", "ctor-operation-field-changed", f"the accepted Operation holds {back!r}, it was constructed from {(arg['name'], arg['job'], arg['machine'], given)!r}", case)
            elif not op.processing_duration > 0:
                ctx.violation("oracle", "ctor-operation-nonpositive-duration", f"accepted Operation has duration {op.processing_duration!r}", case)
        if form != "int":
            ctx.tally(f"operation:dur={form}")
    elif kind == "job":
        acc, odd = impl_accepts(lambda: jssp.impl_job(arg))
        spec, g = spec_job(arg), f"CJob {jssp.g_job(arg)}"
    elif kind == "instance":
        acc, odd = impl_accepts(lambda: jssp.impl_instance(arg))
        spec, g = spec_instance(arg), f"CInstance {jssp.g_inst(arg)}"
    else:
        inst, rows = arg
        pi = jssp.impl_instance(inst)
        acc, odd = impl_accepts(lambda: JobShopSchedulingResult(pi, jssp.impl_general_schedule(rows)))
        spec, g = spec_result(inst, rows), f"CResult {jssp.g_inst(inst)} {jssp.g_general_sched(rows)}"
    ctx.tally(f"{kind}:{'accept' if spec else 'reject'}")
    if g is None:
        g_ret = None
    else:
        g_ret = f"{g} {g_bool(acc)}"
    if odd:
        ctx.violation("oracle", f"ctor-{kind}-{odd}", f"{kind} constructor raised {odd} instead of the documented exception", case)
    elif acc != spec:
        ctx.violation("oracle", f"ctor-{kind}-{'accepts-malformed' if acc else 'rejects-wellformed'}", f"{kind} constructor {'accepts' if acc else 'rejects'} data the documented rules {'reject' if acc else 'accept'}", case)
    return g_ret


def exhaustive_small(ctx):
    """2 jobs x 2 operations on two machines (crossed), every start in {None,0..3}: 5^4 assignments x 2 duration patterns."""
    for durs in ([1, 2, 2, 1], [2, 2, 1, 3]):
        inst = {"name": "ex", "machines": ["m0", "m1"], "jobs": [
            {"name": "j0", "ops": [{"name": "a", "job": "j0", "machine": "m0", "dur": durs[0]}, {"name": "b", "job": "j0", "machine": "m1", "dur": durs[1]}]},
            {"name": "j1", "ops": [{"name": "a", "job": "j1", "machine": "m1", "dur": durs[2]}, {"name": "b", "job": "j1", "machine": "m0", "dur": durs[3]}]}]}
        for st in itertools.product([None, 0, 1, 2, 3], repeat=4):
            yield {"kind": "verdict", "inst": inst, "rows": jssp.expand_sched(inst, [[0, list(st[:2])], [1, list(st[2:])]])}


def run(ctx):
    translate.check_link(ctx, "C19")  # regenerate Gallina from /repo's current source; link lemmas coq/link/C19Link.v
    ctx.rule = ("random valid instances (1-3 jobs, 1-3 machines) x start assignments from {unscheduled,-1..7} (half near-feasible), dict order shuffled; "
                "durations / start times also as numpy integers (int32/int64/uint8/uint32/uint64) and Fractions (oracle only where non-integral); instances built, hashed and pickled in ANOTHER process (different PYTHONHASHSEED) combined with schedules built here; accepted results re-read per key (result.schedule[k], valid_schedule[k]) with the caller's mapping in permuted key order; constructor arguments from a small malformed alphabet incl. names that differ only by case / blanks / unicode normal form; distinct = distinct (kind, data); non-trivial = verdict cases with >=2 operations, constructor cases always")
    cases = []
    cdir = core.ROOT / "corpus" / "C19"
    for f in sorted(cdir.glob("*.json")) if cdir.exists() else []:
        cases.append(json.loads(f.read_text()))
    for _ in range(ctx.n(600, 12000)):
        inst, rows = gen_verdict_case(ctx.rng)
        cases.append({"kind": "verdict", "inst": inst, "rows": rows})
    for _ in range(ctx.n(300, 6000)):
        inst, rows = gen_verdict_case(ctx.rng)
        qs = [ctx.rng.choice(["valid", "makespan", "accessor"]) for _ in range(ctx.rng.randint(1, 4))]
        cases.append({"kind": "queries", "inst": inst, "rows": rows, "queries": qs})
    for _ in range(ctx.n(250, 4000)):
        inst, rows = gen_verdict_case(ctx.rng)
        if len(rows) > 1 and ctx.rng.random() < 0.8:
            perm = rows[:]
            while perm == rows:
                ctx.rng.shuffle(perm)
            rows = perm
        cases.append({"kind": "stored", "inst": inst, "rows": rows})
    for _ in range(ctx.n(500, 8000)):
        k, arg = gen_ctor_case(ctx.rng)
        c = {"kind": k, "arg": arg}
        if isinstance(arg, dict) and "_form" in arg:
            c["form"] = arg.pop("_form")
        cases.append(c)
    for _ in range(ctx.n(200, 3000)):
        cases.append(gen_numeric_case(ctx.rng))
    xp = []
    for _ in range(ctx.n(24, 300)):
        inst, rows = gen_verdict_case(ctx.rng)
        xp.append({"kind": "xproc", "inst": inst, "rows": rows, "hashseed": ctx.rng.choice([1, 4242])})
    try:
        xproc_load(xp)  # one subprocess per hash seed for the whole batch
    except Exception as e:
        ctx.violation("oracle", f"xproc-setup-{type(e).__name__}", f"the cross-process producer failed: {str(e)[:400]}", xp[0])
        xp = []
    cases += xp
    if not ctx.quick:
        cases += list(exhaustive_small(ctx))
        ctx.notes["exhaustive_small_scope"] = "all 5^4 start assignments x 2 duration patterns of the crossed 2x2 instance"
    glits, kept = [], []
    for c in cases:
        g = do_case(ctx, c)
        nontriv = c["kind"] not in ("verdict", "queries", "stored", "xproc") or sum(len(e) for _, e in c["rows"]) >= 2
        ctx.case(c, nontriv, sample=c if len(ctx.samples) < 3 or (c["kind"] != "verdict" and len(ctx.samples) < 5) else None)
        if g is not None:
            glits.append(g)
            kept.append(c)
    bad = core.model_mismatches("C19", IMPORTS, "check_case", glits)
    for i in bad[:5]:
        ctx.violation("correspondence", "model-vs-impl", "the Coq model of problem_instances.py and the implementation answer differently", kept[i],
                      detail=dict(gallina=glits[i][:3000]))
    ctx.traces = len(glits)


def replay(ctx, payload):
    if translate.is_link_replay(payload) and not payload.get("failing_input"):
        return translate.replay(ctx, payload, "C19")
    c = payload.get("case") or payload.get("failing_input")
    g = do_case(ctx, c)
    print("impl-vs-definition:", "FAILS" if ctx.violations else "ok")
    if g:
        bad = core.model_mismatches("C19_replay", IMPORTS, "check_case", [g])
        print("model-vs-impl:", "DIFFER" if bad else "agree")
