"""C06 — batching wrapper: every caller gets exactly the results of its own pubs; every pub reaches the primitive once.
Oracle + exploration + correspondence: vlib/batch.py; model: Batch/Monitor.v through the extracted binary."""
from vlib import batch


def run(ctx):
    batch.run_property(ctx, "C06")


def replay(ctx, payload):
    batch.replay_property(ctx, "C06", payload)
