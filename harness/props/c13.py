"""C13 — convergence criteria decide by the magnitude of the documented change.

Oracle: the documented decision (`terminate_at`, DESIGN.md C13) evaluated with `Fraction` on the whole history, compared
with what the implementation answered at every step; any exception on finite inputs is a violation.
Correspondence: QV.Crit.CritCheck.check_case (the Coq model run on the same operations, answers / exception classes
and, for the SPSA checker, the public properties after every call)."""
from __future__ import annotations

import itertools
import json
import sys
from fractions import Fraction

from vlib import core
from vlib import translate
from vlib.core import g_bool, g_list, g_opt, g_q, g_str, g_z

IMPORTS = "From QV Require Import Common.Base Crit.Criteria Crit.Spsa Crit.CritCheck.\nFrom Coq Require Import QArith."
MARGIN = Fraction(1, 10**9)  # quotient comparisons closer than this to the threshold (but not equal: IEEE division is
# correctly rounded, a quotient that equals the threshold exactly is computed exactly) are skipped (float rounding)
KINDS = {
    "best": ("KBest", "BestIndividualChangeTolerance"),
    "bestrel": ("KBestRel", "BestIndividualRelativeChangeTolerance"),
    "threshold": ("KThreshold", "BestIndividualExpectationValueThreshold"),
    "pop": ("KPop", "PopulationChangeTolerance"),
    "poprel": ("KPopRel", "PopulationChangeRelativeTolerance"),
}
FLAGS = ["repaired", "legacy_signed", "legacy_zero", "legacy_sentinel", "legacy_run_boundary"]


# ------------------------------------------------------------------ the documented decision, on Fractions
def somes(ev):
    return [Fraction(x) for x in ev["values"] if x is not None]


# The oracle decides by exact magnitude.  It also notes whether an INTERMEDIATE of the documented computation (a
# difference, the sum of the two middle elements of a median) exceeds the float range: there numpy/Python produce inf
# (and inf/inf = nan) although inputs and the documented change are finite.  An ANSWER disagreement on such a case is
# reported under the key of the recorded known finding OVERFLOW_KEY (the driver prints KNOWN-FINDING); it is kept away
# from the Coq model (exact rationals: the double range is not modelled).  The same holds for the UNDERFLOW sibling
# (UNDERFLOW_KEY): an exact mean of two middle values that is non-zero but below the double range.  An exception on such inputs, and any answer
# disagreement without an out-of-range exact intermediate, keep their ordinary keys and are violations.
FLOAT_MAX = Fraction(sys.float_info.max)
OVERFLOW_KEY = "answer-intermediate-overflow-beyond-double-range"  # known finding (known_findings.txt)
UNDERFLOW_KEY = "answer-intermediate-underflow-below-double-range"  # known finding (known_findings.txt)
SUBNORMAL_UNIT = Fraction(1, 2**1074)  # smallest positive double; below 2^-1022 doubles are multiples of it
_RISK = [False]
_UNDER = [False]  # an exact intermediate is non-zero but not a double: below the normal range, lost in (a+b)/2 (e.g. -> 0.0)


def _chk(x):
    if abs(x) > FLOAT_MAX:
        _RISK[0] = True
    return x


def median(l):
    s_ = sorted(l)
    n = len(s_)
    if n % 2:
        return s_[n // 2]
    m = _chk(s_[n // 2 - 1] + s_[n // 2]) / 2
    # differences and sums of doubles are exact in the subnormal range, halving is not: (0.0 + 5e-324)/2 = 0.0 in double,
    # the exact mean 2.47e-324 is non-zero (a zero / non-zero reference decides the relative criteria)
    if m != 0 and abs(m) < Fraction(1, 2**1022) and (m / SUBNORMAL_UNIT).denominator != 1:
        _UNDER[0] = True
    return m


def near_threshold(q, thr):
    """the float comparison q < thr cannot be trusted: q is within 1e-9 (relative) of thr but not equal to it"""
    return 0 < abs(q - thr) <= MARGIN * max(abs(q), abs(thr))


def directed(a, b):
    return median([min(_chk(abs(x - y)) for y in b) for x in a])


def pop_distance(p, c):
    e1, e2 = somes(p), somes(c)
    return max(directed(e1, e2), directed(e2, e1), _chk(abs(Fraction(p["best"]) - Fraction(c["best"]))))


def change_and_reference(kind, p, c):
    """(documented change in absolute magnitude, |reference| or None for the absolute criteria)"""
    if kind == "best":
        return _chk(abs(Fraction(p["best"]) - Fraction(c["best"]))), None
    if kind == "bestrel":
        return _chk(abs(Fraction(p["best"]) - Fraction(c["best"]))), abs(Fraction(p["best"]))
    if kind == "pop":
        return pop_distance(p, c), None
    if kind == "poprel":
        return pop_distance(p, c), abs(median(somes(p)))
    raise ValueError(kind)


def below(kind, thr, p, c):
    """(decision, near): near = the float quotient is too close to the threshold to be compared."""
    d, ref = change_and_reference(kind, p, c)
    if ref is None:
        return d < thr, near_threshold(d, thr)
    if ref == 0:
        return False, False  # no change is small relative to a reference of zero
    return d < thr * ref, near_threshold(d / ref, thr)  # an exactly representable quotient is computed exactly


def spec_segment(kind, thr, v, h):
    """answers of the documented decision for one uninterrupted history h; also whether any comparison was near"""
    if kind == "threshold":
        return [Fraction(e["best"]) < thr for e in h], False
    bl, near = [None], False
    for p, c in zip(h, h[1:]):
        b, n = below(kind, thr, p, c)
        bl.append(b)
        near |= n
    return [k >= v + 1 and all(bl[j] for j in range(k - v, k + 1)) for k in range(len(h))], near


def spec_crit(case):
    thr, v = Fraction(case["thr"]), case["v"]
    out, seg, near = [], [], False
    for op in case["ops"] + ["reset"]:
        if op == "reset":
            a, n = spec_segment(case["kind"], thr, v, seg)
            out += a
            near |= n
            seg = []
        else:
            seg.append(op)
    return out, near


def ctor_ok(kind, thr, v):
    if kind == "best":
        return thr > 0 and v >= 0
    if kind == "bestrel":
        return 0 < thr <= 1 and v >= 0
    if kind == "threshold":
        return True
    return v >= 0


# ------------------------------------------------------------------ implementation
def conv(x, dtype):
    import numpy as np

    if x is None:
        return None
    return np.float64(x) if dtype == "np" else float(x)


def impl_crit(case):
    """('ctor', class) if the constructor raised, else the list of answers: bool or ('err', class)."""
    from queasars.minimum_eigensolvers.base import termination_criteria as tc
    from queasars.minimum_eigensolvers.base.evolutionary_algorithm import BasePopulationEvaluationResult

    cls = getattr(tc, KINDS[case["kind"]][1])
    dt = case["dtype"]
    try:
        crit = cls(conv(case["thr"], dt)) if case["kind"] == "threshold" else cls(conv(case["thr"], dt), case["v"])
    except Exception as e:
        return ("ctor", type(e).__name__)
    out, best_so_far = [], None
    for op in case["ops"]:
        if op == "reset":
            try:
                crit.reset_state()
            except Exception as e:
                out.append(("err", "reset:" + type(e).__name__))
            continue
        b = conv(op["best"], dt)
        best_so_far = b if best_so_far is None else min(best_so_far, b)
        ev = BasePopulationEvaluationResult(population=None, expectation_values=tuple(conv(x, dt) for x in op["values"]), best_individual=None, best_expectation_value=b)
        try:
            r = crit.check_termination(ev, None, best_so_far)
            out.append(bool(r))
        except Exception as e:
            out.append(("err", type(e).__name__))
    return out


# ------------------------------------------------------------------ SPSA: specification and implementation
def rel_below(thr, pf, cf):
    d, ref = _chk(abs(Fraction(cf) - Fraction(pf))), abs(Fraction(pf))
    if ref == 0:
        return False, False
    return d < thr * ref, near_threshold(d / ref, thr)  # an exactly representable quotient is computed exactly


def spsa_run_spec(thr, v, maxfev, run):
    """documented behaviour on ONE optimiser run: per callback (answer, recorded values so far, best, criterion fired)"""
    rec, bl, out, near = [], [], [], False
    for n, f, acc in run:
        hit = maxfev is not None and n >= maxfev
        fired = False
        if hit:
            a = True
        elif not acc:
            a = False
        else:
            if rec:
                b, nr = rel_below(thr, rec[-1], f)
                bl.append(b)
                near |= nr
            rec.append(f)
            a = len(bl) >= v + 1 and all(bl[-(v + 1):])
            fired = a
        out.append(dict(answer=a, n=n, fv=list(rec), best=min(rec, key=Fraction) if rec else None, fired=fired))
    return out, near


def spsa_segments_spec(thr, v, maxfev, seq):
    """the implicit-reset rule on an arbitrary callback sequence: a new run starts after the change criterion fired or
    when the counter does not increase"""
    runs, cur, last_n, closed, near = [], [], 0, False, False
    outs = []
    for n, f, acc in seq:
        if closed or n <= last_n:
            cur = []
        cur = cur + [(n, f, acc)]
        o, nr = spsa_run_spec(thr, v, maxfev, cur)
        near |= nr
        outs.append(o[-1])
        last_n, closed = n, o[-1]["fired"]
    return outs, near


def impl_spsa(case):
    import numpy as np
    from queasars.utility.spsa_termination import SPSATerminationChecker

    dt = case["dtype"]
    ck = SPSATerminationChecker(conv(case["thr"], dt), case["v"], case["maxfev"])
    out, idx = [], 0
    for run in case["runs"]:
        for n, f, acc in run:
            idx += 1
            try:
                a = bool(ck.termination_check(n, np.array([float(idx)]), conv(f, dt), 0.125, acc))
            except Exception as e:
                a = ("err", type(e).__name__)
            try:
                par = int(ck.best_parameter_values[0])
            except ValueError:
                par = None
            b = ck.best_function_value
            out.append(dict(answer=a, n=int(ck.n_function_evaluations), fv=[float(x) for x in ck.function_value_history],
                            nh=[int(x) for x in ck.n_function_evaluation_history], best=None if b == float("inf") else float(b), par=par))
    return out


# ------------------------------------------------------------------ Gallina
def g_res_bool(a):
    return f'(Err {g_str(a[1])})' if isinstance(a, tuple) else f"(Ok {g_bool(a)})"


def g_ev(op):
    return "(mk_ev " + g_q(op["best"]) + " " + g_list(g_opt(None if x is None else g_q(x)) for x in op["values"]) + ")"


def g_crit(case, impl, flags="repaired"):
    ops = g_list("Reset" if op == "reset" else f"Step {g_ev(op)}" for op in case["ops"])
    exp = f'(Err {g_str(impl[1])})' if isinstance(impl, tuple) else "(Ok " + g_list(g_res_bool(a) for a in impl) + ")"
    return f"CCrit {flags} {KINDS[case['kind']][0]} {g_q(case['thr'])} {g_z(case['v'])} {ops} {exp}"


def g_spsa(case, impl, flags="repaired"):
    h = g_list(f"mk_in {g_z(n)} {g_z(i + 1)} {g_q(f)} {g_bool(acc)}" for i, (n, f, acc) in enumerate(c for r in case["runs"] for c in r))
    obs = g_list(
        f"mk_obs {g_res_bool(o['answer'])} {g_z(o['n'])} {g_list(g_q(x) for x in o['fv'])} {g_list(g_z(x) for x in o['nh'])} "
        f"{'Inf' if o['best'] is None else '(Fin ' + g_q(o['best']) + ')'} {g_opt(None if o['par'] is None else g_z(o['par']))}"
        for o in impl)
    mf = g_opt(None if case["maxfev"] is None else g_z(case["maxfev"]))
    return f"CSpsa {flags} {g_q(case['thr'])} {case['v']}%nat {mf} {h} {obs}"


# ------------------------------------------------------------------ generators
DYADIC = [Fraction(k, 8) for k in range(-64, 65)]
SMALL = [-2.0, -1.0, -0.5, 0.0, 0.0, 0.5, 1.0, 2.0, 4.0, -4.0]
THR_ANY = [0.5, 0.25, 0.125, 1.0, 2.0, 0.1, 0.3, 0.0, -0.5, -1.0, 1.5, 0.75]
THR_UNIT = [0.5, 0.25, 0.125, 1.0, 0.1, 0.3, 0.75, 0.01]


# finite but extreme magnitudes: subnormal, 1e-200, 1e200, near the float maximum (sums / differences of two may overflow)
EXTREME = [5e-324, 4e-310, 1e-200, 1e-100, 1.0, 3.0, 1e100, 1e200, 5e307, 8e307, 1e308, 1.5e308, 1.7e308]


def gen_value(rng, prev=None, style=0):
    r = rng.random()
    if style == 4:
        if prev is not None and r < 0.3:
            return prev
        if r < 0.4:
            return rng.choice([0.0, 1.0, -1.0, 3.0, -4.0])
        return rng.choice(EXTREME) * rng.choice([1, 1, -1])
    if prev is not None and r < 0.3:
        return prev + rng.choice([0.0, 0.0, 0.125, -0.125, 0.25, -0.25, 0.5, -0.5]) if abs(prev) < 8 else prev
    if r < 0.6:
        return rng.choice(SMALL)
    x = float(rng.choice(DYADIC))
    if style == 1:
        return -abs(x)
    if style == 2:
        return abs(x)
    return x


def gen_eval(rng, kind, prev, style):
    if kind in ("pop", "poprel") and style == 4:
        if prev is not None and rng.random() < 0.3:
            return json.loads(json.dumps(prev))
        size = rng.choice([1, 2, 2, 2, 3, 4, 4])
        if rng.random() < 0.3:  # a population of one repeated extreme value (even size: the median's middle pair sum)
            x = gen_value(rng, None, 4)
            vals = [x] * size
        else:
            base = prev["values"] if prev is not None and rng.random() < 0.5 else []
            vals = [gen_value(rng, base[i] if i < len(base) else None, 4) for i in range(size)]
        if size > 2 and rng.random() < 0.2:
            vals[rng.randrange(size)] = None
        return {"best": min(x for x in vals if x is not None), "values": vals}
    if kind in ("pop", "poprel"):
        if style == 3:  # quiet history: small nudges of the previous population, now and then a median of exactly zero
            r = rng.random()
            if prev is None or r < 0.15:
                a = rng.choice([0.125, 0.25, 0.5, 1.0])
                vals = rng.choice([[-a, 0.0, a], [0.0], [-a, 0.0, 0.0, a, None], [-a, a], [1.0, 1.125, 0.875], [-2.0, -2.0, None, -2.25], [0.0, 0.0, 3.0]])
                vals = list(vals)
            else:
                vals = list(prev["values"])
                if r < 0.6:
                    idx = [i for i, x in enumerate(vals) if x is not None]
                    i = rng.choice(idx)
                    vals[i] = vals[i] + rng.choice([0.125, -0.125, 0.0, 0.0625])
            return {"best": min(x for x in vals if x is not None), "values": vals}
        if prev is not None and rng.random() < 0.2:
            return json.loads(json.dumps(prev))  # unchanged population
        size = rng.randint(1, 6)
        base = prev["values"] if prev is not None and rng.random() < 0.5 else []
        vals = []
        for i in range(size):
            pv = base[i] if i < len(base) and base[i] is not None else None
            vals.append(None if rng.random() < 0.2 else gen_value(rng, pv, style))
        if all(x is None for x in vals):
            vals[rng.randrange(size)] = gen_value(rng, None, style)
        present = [x for x in vals if x is not None]
        best = min(present) if rng.random() < 0.7 else gen_value(rng, prev["best"] if prev else None, style)
        return {"best": best, "values": vals}
    b = gen_value(rng, prev["best"] if prev else None, style)
    return {"best": b, "values": [b]}


def gen_crit_case(rng, kind, extreme=False):
    if extreme:
        thr = rng.choice(THR_UNIT + ([0.5, 2.0, 3.0, 1e-3, 0.0] if kind != "bestrel" else [1e-3]))
        ops, prev = [], None
        for _ in range(rng.randint(2, 5)):
            prev = gen_eval(rng, kind, prev, 4)
            ops.append(prev)
        return {"type": "crit", "kind": kind, "thr": thr, "v": rng.choice([0, 0, 1, 2]), "dtype": rng.choice(["np", "np", "py"]), "ops": ops, "family": "extreme"}
    if kind == "best":
        thr = rng.choice(THR_ANY[:6] * 3 + THR_ANY)
    elif kind == "bestrel":
        thr = rng.choice(THR_UNIT * 4 + THR_ANY)
    else:
        thr = rng.choice(THR_ANY)
    v = rng.choice([0, 0, 1, 1, 2, 3]) if rng.random() < 0.97 else -1
    style = rng.choice([0, 0, 1, 2])
    if kind in ("pop", "poprel") and rng.random() < 0.4:
        style, thr = 3, rng.choice([0.125, 0.25, 0.5, 1.0, 2.0, 0.1, 0.01])
        v = rng.choice([0, 1, 1, 2, 2, 3])
    ops, prev, stored = [], None, False  # stored: the criterion holds a (well-formed) last evaluation
    for _ in range(rng.randint(1, 12)):
        if ops and ops[-1] != "reset" and rng.random() < 0.08:
            ops.append("reset")
            prev = None if rng.random() < 0.7 else prev  # sometimes the new history continues the old values
            stored = False
            continue
        ev = gen_eval(rng, kind, prev, style)
        if kind in ("pop", "poprel") and stored and rng.random() < 0.01:
            # malformed: no value at all (correspondence only). Raises ValueError and leaves the state alone; never
            # generated as a first evaluation (it would be stored, and two value-less evaluations give nan, not modelled)
            ops.append({"best": ev["best"], "values": [None] * rng.randint(0, 2)})
            continue
        ops.append(ev)
        prev, stored = ev, True
    return {"type": "crit", "kind": kind, "thr": thr, "v": v, "dtype": rng.choice(["py", "py", "np"]), "ops": ops}


def gen_spsa_case(rng, structured=True, extreme=False):
    thr = rng.choice(THR_UNIT + [0.5, 0.25, 2.0, 0.0, -0.5])
    v = rng.choice([0, 0, 1, 2, 3])
    maxfev = rng.choice([None, None, None, 7, 10, 16])
    style = 4 if extreme else rng.choice([0, 0, 1, 2])
    thrq = Fraction(thr)
    runs = []
    first = rng.choice([2, 2, 3, 4])  # one optimiser configuration: every run's first callback carries the same count
    single = rng.random() < 0.25      # SPSA(maxiter=1): every run is a single callback
    for _ in range(rng.randint(1, 5) if single else rng.randint(1, 4)):
        if structured:
            # occasionally a different (smaller or equal) first count than the previous run's last count
            start = first if not runs else (min(first, runs[-1][-1][0]) if rng.random() < 0.85 else rng.randint(1, runs[-1][-1][0]))
        run, n, f = [], start if structured else rng.randint(0, 6), None
        for j in range(1 if single else rng.choice([1, 2, 3, 4, 5, 6, 7, 8, 9])):
            f = gen_value(rng, f, style)
            run.append([n, f, rng.random() < 0.8])
            if structured:
                o, _ = spsa_run_spec(thrq, v, maxfev, run)
                if o[-1]["answer"]:
                    break  # the optimiser stops when told to
                n += rng.choice([2, 2, 3])
            else:
                n = max(0, n + rng.choice([2, 2, 3, 0, 0, 0, -1, -4]))
        runs.append(run)
    return {"type": "spsa", "thr": thr, "v": v, "maxfev": maxfev, "dtype": rng.choice(["py", "py", "np"]), "runs": runs, "structured": structured}


def exhaustive_cases():
    """all histories of length <= 4 over {-1, 0, 1, 2} (single-value populations), v in {0, 1}, two thresholds"""
    for kind in ("best", "bestrel", "pop", "poprel"):
        for L in (1, 2, 3, 4):
            for h in itertools.product([-1.0, 0.0, 1.0, 2.0], repeat=L):
                for thr in ((0.5, 1.0) if kind == "bestrel" else (0.5, 1.5)):
                    for v in (0, 1):
                        yield {"type": "crit", "kind": kind, "thr": thr, "v": v, "dtype": "py", "ops": [{"best": x, "values": [x]} for x in h]}
    for L in (1, 2, 3, 4):
        for h in itertools.product([-1.0, 0.0, 1.0, 2.0], repeat=L):
            for v in (0, 1):
                yield {"type": "spsa", "thr": 0.75, "v": v, "maxfev": None, "dtype": "py", "runs": [[[2 + 2 * i, x, True] for i, x in enumerate(h)]], "structured": False}


# ------------------------------------------------------------------ one case
def malformed(case):
    return any(op != "reset" and all(x is None for x in op["values"]) for op in case["ops"]) and case["kind"] in ("pop", "poprel")


def first_failure_crit(case, impl=None):
    """None, or (key, what, index) for the first step at which the implementation departs from the documented decision."""
    impl = impl_crit(case) if impl is None else impl
    thr, v, kind = Fraction(case["thr"]), case["v"], case["kind"]
    if isinstance(impl, tuple):
        if ctor_ok(kind, thr, v):
            return (f"ctor-{kind}-{impl[1]}", f"{KINDS[kind][1]}({case['thr']}, {v}) raised {impl[1]}", 0)
        return None if impl[1] == "ValueError" else (f"ctor-{kind}-{impl[1]}", f"constructor raised {impl[1]} instead of ValueError", 0)
    if not ctor_ok(kind, thr, v):
        return (f"ctor-{kind}-accepts", f"{KINDS[kind][1]} accepts threshold {case['thr']} / allowed violations {v} against its documented range", 0)
    if malformed(case):
        return None
    _RISK[0] = _UNDER[0] = False
    spec, near = spec_crit(case)
    if near:
        return "near"
    for i, (a, s) in enumerate(zip(impl, spec)):
        if isinstance(a, tuple):
            return (f"raises-{kind}-{a[1]}", f"{KINDS[kind][1]}.check_termination raised {a[1]} on a finite history (evaluation #{i})", i)
        if a != s and _UNDER[0] and not _RISK[0]:
            return (UNDERFLOW_KEY, f"{KINDS[kind][1]} answered {a} at evaluation #{i}; the documented change measure (exact) says {s}; an exact intermediate (mean of a median's two middle values) is non-zero but below the double range (computed as 0.0 / with lost bits)", i)
        if a != s and _RISK[0]:
            return (OVERFLOW_KEY, f"{KINDS[kind][1]} answered {a} at evaluation #{i}; the documented change measure (exact) says {s}; an exact intermediate (middle-pair sum or difference) exceeds the double range", i)
        if a != s:
            return (f"answer-{kind}-{'premature' if a else 'missed'}",
                    f"{KINDS[kind][1]} answered {a} at evaluation #{i}; the documented change measure says {s}", i)
    return None


def first_failure_spsa(case, impl=None):
    impl = impl_spsa(case) if impl is None else impl
    thr, v, mf = Fraction(case["thr"]), case["v"], case["maxfev"]
    _RISK[0] = False
    if case["structured"]:
        spec, near = [], False
        for run in case["runs"]:
            o, n = spsa_run_spec(thr, v, mf, [tuple(c) for c in run])
            spec += o
            near |= n
    else:
        spec, near = spsa_segments_spec(thr, v, mf, [tuple(c) for r in case["runs"] for c in r])
    if near:
        return "near"
    for i, (a, s) in enumerate(zip(impl, spec)):
        if isinstance(a["answer"], tuple):
            return (f"raises-spsa-{a['answer'][1]}", f"SPSATerminationChecker.termination_check raised {a['answer'][1]} on finite inputs (callback #{i})", i)
        if a["answer"] != s["answer"] and _RISK[0]:
            return (OVERFLOW_KEY, f"SPSATerminationChecker answered {a['answer']} at callback #{i}; exact magnitude says {s['answer']}; an exact difference exceeds the double range", i)
        if a["answer"] != s["answer"]:
            tag = "run-boundary" if case.get("boundary_witness") else ("premature" if a["answer"] else "missed")
            # a corpus history that reproduces a listed known finding is reported under that finding's own key
            return (case.get("finding_key") or f"answer-spsa-{tag}", f"SPSATerminationChecker answered {a['answer']} at callback #{i}; the documented change measure on the current optimiser run says {s['answer']}", i)
        if a["n"] != s["n"] or [Fraction(x) for x in a["fv"]] != [Fraction(x) for x in s["fv"]] or (None if a["best"] is None else Fraction(a["best"])) != (None if s["best"] is None else Fraction(s["best"])):
            return ("bookkeeping-spsa", f"SPSATerminationChecker bookkeeping after callback #{i}: {a} vs documented {s}", i)
    return None


def structured_ok(case):
    """a structured SPSA case is a sequence of optimiser runs as one optimiser configuration produces them: within a run
    the counter strictly grows and nothing follows a 'terminate'; the first counter of a run does not exceed the last
    counter of the previous run (or that run was ended by the change criterion).  A new run starting with a LARGER
    counter than the previous run's last one (SPSA with blocking=True) is not recognisable by the checker: that is the
    known finding answer-spsa-run-boundary-increasing-count, identified by its corpus history; the random generators do
    not produce this class, every other violation is still reported."""
    if case["type"] != "spsa" or not case["structured"] or case.get("finding_key"):
        return True  # (a corpus history kept for a known finding is evaluated against the strict per-run decision as it is)
    thr, v, mf = Fraction(case["thr"]), case["v"], case["maxfev"]
    prev = None
    for run in case["runs"]:
        if not run or any(a[0] >= b[0] for a, b in zip(run, run[1:])):
            return False
        o, _ = spsa_run_spec(thr, v, mf, [tuple(c) for c in run])
        if any(x["answer"] for x in o[:-1]):
            return False
        if prev is not None and not (prev[1] or run[0][0] <= prev[0]):
            return False
        prev = (run[-1][0], o[-1]["fired"])
    return True


def first_failure(case, impl=None):
    return first_failure_crit(case, impl) if case["type"] == "crit" else first_failure_spsa(case, impl)


def shrink(case, key):
    """greedy: drop operations / callbacks while the same kind of failure remains"""
    def fails(c):
        try:
            f = first_failure(c) if structured_ok(c) else None
        except Exception:
            return False
        return isinstance(f, tuple) and f[0] == key

    cur = json.loads(json.dumps(case))
    changed = True
    while changed:
        changed = False
        if cur["type"] == "crit":
            for i in range(len(cur["ops"])):
                c = dict(cur, ops=cur["ops"][:i] + cur["ops"][i + 1:])
                if c["ops"] and fails(c):
                    cur, changed = c, True
                    break
        else:
            for ri, run in enumerate(cur["runs"]):
                for i in range(len(run)):
                    nr = run[:i] + run[i + 1:]
                    c = dict(cur, runs=[r for r in cur["runs"][:ri] + [nr] + cur["runs"][ri + 1:] if r])
                    if c["runs"] and fails(c):
                        cur, changed = c, True
                        break
                if changed:
                    break
    return cur


def do_case(ctx, case, count=True):
    """returns the Gallina literal of the case (None if it is skipped)"""
    impl = impl_crit(case) if case["type"] == "crit" else impl_spsa(case)
    f = first_failure(case, impl)
    label = case["kind"] if case["type"] == "crit" else "spsa"
    if isinstance(f, tuple) and f[0] in (OVERFLOW_KEY, UNDERFLOW_KEY):
        # HEAD answers against the exact magnitude because an intermediate left the double range: recorded known finding;
        # decided by the oracle only, not compared with the (exact-rational) model
        ctx.tally("known-finding:intermediate-" + ("overflow" if f[0] == OVERFLOW_KEY else "underflow"))
        small = shrink(case, f[0])
        f = first_failure(small) if small != case else f
        ctx.violation("oracle", f[0], f[1], small, detail=dict(original_case=case, implementation=impl_crit(small) if small["type"] == "crit" else impl_spsa(small)))
        return None
    if case.get("family") == "extreme" or (case["type"] == "spsa" and case.get("family") == "extreme"):
        ctx.tally(f"{label}:extreme-magnitudes")
        if _RISK[0]:
            ctx.tally(f"{label}:extreme:intermediate-beyond-float-range")
    if f == "near":
        ctx.tally("skipped:near-threshold")
        return None
    if count:
        ctx.tally(f"{label}:{case['dtype']}")
        if case["type"] == "crit":
            evs = [op for op in case["ops"] if op != "reset"]
            ctx.tally(f"{label}:v={case['v']}")
            if "reset" in case["ops"]:
                ctx.tally(f"{label}:with-reset")
            if isinstance(impl, list) and any(a is True for a in impl):
                ctx.tally(f"{label}:terminates")
            if any(e["best"] < 0 for e in evs):
                ctx.tally(f"{label}:negative-values")
            if any(e["best"] == 0 for e in evs):
                ctx.tally(f"{label}:zero-best")
            if case["thr"] <= 0:
                ctx.tally(f"{label}:threshold<=0")
            if malformed(case):
                ctx.tally(f"{label}:evaluation-without-values")
            if case["kind"] in ("pop", "poprel") and any(median(somes(e)) == 0 for e in evs[:-1] if somes(e)):
                ctx.tally(f"{label}:zero-median-reference")
        else:
            ctx.tally(f"spsa:{'runs' if case['structured'] else 'arbitrary'}:{len(case['runs'])}")
            if case["structured"] and any(len(r) == 1 for r in case["runs"]) and len(case["runs"]) > 1:
                ctx.tally("spsa:single-callback-run")
            if case["structured"] and any(a[-1][0] == b[0][0] for a, b in zip(case["runs"], case["runs"][1:])):
                ctx.tally("spsa:equal-counter-boundary")
            if any(o["answer"] is True for o in impl):
                ctx.tally("spsa:terminates")
            if any(not c[2] for r in case["runs"] for c in r):
                ctx.tally("spsa:with-rejected-step")
    if isinstance(f, tuple):
        small = shrink(case, f[0])
        f = first_failure(small) if small != case else f
        ctx.violation("oracle", f[0], f[1], small, detail=dict(original_case=case, implementation=impl_crit(small) if small["type"] == "crit" else impl_spsa(small)))
    return g_crit(case, impl) if case["type"] == "crit" else g_spsa(case, impl)


def nontrivial(case):
    if case["type"] == "crit":
        return len([op for op in case["ops"] if op != "reset"]) >= 2
    return sum(len(r) for r in case["runs"]) >= 2


def run(ctx):
    translate.check_link(ctx, "C13")  # regenerate Gallina from /repo's current source; link lemmas coq/link/C13Link.v
    ctx.rule = ("per criterion: operation sequences of 1-12 evaluations (dyadic values in [-8,8], many zeros/repeats/sign changes; populations of 1-6 with None entries) "
                "with reset_state in between, an extreme-magnitude family (finite values from subnormal to 1.7e308, even-sized populations, numpy.float64), thresholds incl. 0 and negatives, allowed violations 0-3 (and -1), Python float and numpy.float64 inputs; "
                "SPSA: 1-5 optimiser runs of callbacks (same first count per run, single-callback runs, equal-counter boundaries, rejected steps, maxfev, restarts) and arbitrary callback sequences; "
                "distinct = distinct case data; non-trivial = at least two evaluations / callbacks (a change is measured)")
    cases = []
    cdir = core.ROOT / "corpus" / "C13"
    for fpath in sorted(cdir.glob("*.json")) if cdir.exists() else []:
        c = json.loads(fpath.read_text())
        cases.append(c.get("case", c))
    ctx.notes["corpus_cases"] = len(cases)
    for kind in KINDS:
        for _ in range(ctx.n(200 if kind == "threshold" else 400, 2000 if kind == "threshold" else 10000)):
            cases.append(gen_crit_case(ctx.rng, kind))
    for _ in range(ctx.n(400, 10000)):
        cases.append(gen_spsa_case(ctx.rng, structured=True))
        assert structured_ok(cases[-1]), cases[-1]
    for _ in range(ctx.n(200, 4000)):
        cases.append(gen_spsa_case(ctx.rng, structured=False))
    # finite but extreme magnitudes (subnormal .. 1.7e308), mostly numpy.float64: decided by exact magnitude, never an exception
    for kind in ("best", "bestrel", "pop", "poprel"):
        for _ in range(ctx.n(120 if kind.startswith("pop") else 50, 3000)):
            cases.append(gen_crit_case(ctx.rng, kind, extreme=True))
    for _ in range(ctx.n(60, 1500)):
        c = gen_spsa_case(ctx.rng, structured=False, extreme=True)
        c["family"] = "extreme"
        cases.append(c)
    if not ctx.quick:
        cases += list(exhaustive_cases())
        ctx.notes["exhaustive_small_scope"] = "all histories of length <= 4 over {-1,0,1,2}: four windowed criteria x 2 thresholds x v in {0,1}; SPSA x v in {0,1}"
    glits, kept = [], []
    for c in cases:
        g = do_case(ctx, c)
        ctx.case(c, nontrivial(c), sample=c if len(ctx.samples) < 2 or (c["type"] == "spsa" and len(ctx.samples) < 4) else None)
        if g is not None:
            glits.append(g)
            kept.append(c)
    # the extreme-magnitude cases carry 300-digit rationals: vm_compute needs about a second each, so they go into small
    # shards of their own (compiled in parallel) and, in the quick tier, only a sample of them is run through the model
    # (the exact-rational oracle above has judged all of them)
    ext = [i for i, c in enumerate(kept) if c.get("family") == "extreme"]
    ext_run = ext[:: max(1, len(ext) // (90 if ctx.quick else 1500))]
    ordinary = [i for i, c in enumerate(kept) if c.get("family") != "extreme"]
    bad = [ordinary[j] for j in core.model_mismatches("C13", IMPORTS, "check_case", [glits[i] for i in ordinary], chunk=250)]
    bad += [ext_run[j] for j in core.model_mismatches("C13_extreme", IMPORTS, "check_case", [glits[i] for i in ext_run], chunk=6)]
    ctx.notes["extreme_cases_through_model"] = f"{len(ext_run)} of {len(ext)}"
    for i in bad[:5]:
        ctx.violation("correspondence", "model-vs-impl", "the Coq model of the termination criteria / SPSA checker and the implementation answer differently",
                      kept[i], detail=dict(gallina=glits[i][:3000]))
    ctx.traces = len(ordinary) + len(ext_run)
    ctx.notes["skipped_near_threshold"] = ctx.dist.get("skipped:near-threshold", 0)


def replay(ctx, payload):
    if translate.is_link_replay(payload) and not payload.get("failing_input"):
        return translate.replay(ctx, payload, "C13")  # a replay file written for a broken translation tie
    c = payload.get("case") or payload.get("failing_input")
    impl = impl_crit(c) if c["type"] == "crit" else impl_spsa(c)
    print("implementation:", json.dumps(impl if c["type"] == "crit" else [o["answer"] for o in impl]))
    f = first_failure(c, impl)
    print("impl-vs-documented-decision:", "skipped (near threshold)" if f == "near" else (f"FAILS — {f[1]}" if f else "ok"))
    if isinstance(f, tuple):
        ctx.violation("oracle", f[0], f[1], c)
    for fl in FLAGS:
        g = g_crit(c, impl, fl) if c["type"] == "crit" else g_spsa(c, impl, fl)
        bad = core.model_mismatches("C13_replay", IMPORTS, "check_case", [g])
        print(f"model variant {fl}:", "differs" if bad else "agrees with the implementation")
