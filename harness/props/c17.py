"""C17 — seeded single-worker runs are bitwise reproducible; every random constructor is a function of its
arguments and seed only.

Oracle (the weight of this property; differential): every job — a whole seeded EVQE solve with deterministic fake
primitives (exact sampler / estimator of vlib.solverkit; estimator, sampler and bitstring paths, with and without
mutually_exclusive_primitives), a deterministic optimiser (solverkit.CoordinateSearch; in some configurations
qiskit's SPSA, which draws from the algorithm_globals generator the package seeds per task, or NFT) and ONE worker
thread, or one call of a random constructor (layer, individual, population, job-shop instance) — is run
  (a) three times in this process, from freshly constructed objects: run A under a freshly seeded ambient state
      (global `random` state, `numpy.random` state, algorithm_globals.random_seed); run C IMMEDIATELY afterwards,
      back to back, with the ambient generators only advanced by one draw and nothing re-seeded (a call that relies
      on state left behind by the previous identical call - e.g. re-seeding qiskit's global generator only "when the
      seed changed" - shows here; some configurations perform exactly one seeded optimiser run per solve with an
      optimiser that draws from algorithm_globals.random, so that the repetition asks for the seed that is still
      active); run B later, in a permuted call order, under a differently seeded ambient state.  The seeded
      optimisation functions of mutation.py (optimize_layer_of_individual, optimize_all_parameters_of_individual)
      are called directly as well, as a fifth constructor-like kind of job.  Every solve is additionally run under the
      two extreme LEGAL schedules of its single worker (runs E and D: reprokit.EagerExecutor runs each task to
      completion inside submit(), reprokit.DeferredExecutor queues the tasks until the first result is requested; both
      are ThreadPoolExecutor(max_workers=1) subclasses whose tasks run on the worker thread): state shared between
      the submitting thread and a task - e.g. an operator's generator drawn from inside the task - gives different
      results under different schedules (key solve:single-worker-schedule);
  (b) in three child processes started with PYTHONHASHSEED = 0, 1, 4242, each with its own ambient state and its
      own call order.
The canonical fingerprint of everything returned AND the complete decision log of every `Random` the package
created must be identical in all runs (eight for a solve) (vlib/reprokit.py).  A difference is an oracle violation; the replay
is the job, the pair of runs and the first differing place.

History independence (history_family, reprokit.run_history): reference solve with fresh objects; a solve that uses
configuration objects a user may legitimately reuse (a STATEFUL termination criterion, the optimiser, the raw primitives
and pass manager, the executor - one of them or all) and is aborted mid-evolution by an injected failure (an operator
application that raises / the evaluator's primitive breaking down inside a task, after generation 0 or 1); then a fresh
solver with the same seed and configuration and those SAME objects: its fingerprint and decision log must equal the
reference's (key solve:history-independence).

Correspondence: the logged traces replay through the Coq model (QV.Repro.ReproCheck / QV.Evqe.C20Check): from the
master generator's decisions the model predicts which seed every component and every submitted task receives, in
which order, and the initial population.  A log the model does not accept is a broken correspondence: the property is then no longer shown
to hold by the model and the check reports `VIOLATION ... no-failing-input-found` (default; VERIF_C17_STRICT=0 downgrades it to a
MODEL-DRIFT note for development).

Composition (compose_family): a few whole solves (1-3 workers, forced completion orders) are recorded by vlib/composekit.py
and replayed through QV.Repro.Compose.evqe_run = Solver/Loop.v o the EVQE operator models (Evqe/Heap.v run_op) o
RandLayer.random_population o the master seeding: every population passed to every operator application, every callback
payload, the loop's ledger / generation counter / estimate at every operator start, the population after the last
application and the final result (eigenvalue, best individual, ledger, generations, whole history) must be reproduced,
with every log used up.  A mismatch is a correspondence break (always strict).
"""
from __future__ import annotations

import json
import math
import os
import random as _random
from fractions import Fraction

from vlib import core, rnglog
from vlib import translate
from vlib import evqe as ev
from vlib import jssp as jk
from vlib.core import g_bool, g_list, g_nat, g_opt, g_q, g_str, g_z

IMPORTS = "From QV Require Import Repro.Seeding Repro.ReproCheck."
IMPORTS_C20 = "From QV Require Import Evqe.RandLayer Evqe.C20Check."
HASHSEEDS = (0, 1, 4242)
STRICT = os.environ.get("VERIF_C17_STRICT", "1") == "1"  # lead decision: a broken correspondence is reported (no-failing-input-found), as for every other property
TWO53 = 2**53


# ------------------------------------------------------------------ job generators
def solve_setups(rng, n, quick):
    """n small seeded configurations; the first ones walk systematically through the evaluator paths, selection
    modes, mutex on/off, qubit counts and generation counts, the rest are random."""
    out = []
    for k in range(n):
        evaluator = ["estimator", "sampler", "bitstring"][k % 3]
        nq = [2, 1, 3, 2, 2, 1][k % 6] if k < 12 else rng.choice([1, 2, 2, 3])
        pop = rng.randint(2, 3 if nq == 3 else 5)
        tournament = (k % 2 == 1) if k < 8 else rng.random() < 0.5
        gens = [2, 1, 3, 2][k % 4] if k < 8 else rng.randint(1, 3)
        if nq == 3:
            gens = min(gens, 2)
        out.append(dict(
            n_qubits=nq, evaluator=evaluator, population_size=pop,
            mutex=(k % 4 == 2) if k < 8 else rng.random() < 0.3,
            tournament=tournament, tournament_size=rng.randint(1, pop) if tournament else None,
            seed=rng.choice([0, 1, 7, 42, 2**31 - 1, rng.randint(0, 10**9), rng.randint(0, 2**62)]),
            n_initial_layers=[1, 2, 1, 3][k % 4] if k < 8 else rng.choice([1, 1, 2, 3]),
            randomize=(k % 5 != 3),
            p_param=rng.choice([0.0, 0.25, 0.5, 1.0]), p_topo=rng.choice([0.25, 0.5, 1.0]), p_remove=rng.choice([0.0, 0.5, 1.0]),
            distance=rng.choice([1, 2, 3]), max_generations=gens,
            aux=rng.choice([None, None, "list", "dict"]),
            coeffs=[rng.choice([-1.0, -0.5, 0.25, 0.5, 1.0, 2.0]) for _ in range(4)],
            alpha=rng.choice([1, 1, 0.5]), shots=64,
            optimizer=["coordinate", "coordinate", "coordinate", "spsa", "nft", "coordinate"][k % 6] if k < 12 else rng.choice(["coordinate", "coordinate", "spsa", "nft"]),
        ))
    # the bitstring path with NON-dyadic numbers (the others use 64 shots and dyadic weights, whose sums are exact in
    # double precision whatever the order): 100 / 37 shots, weights like 0.1 / -0.3 / 0.7, three qubits and randomised
    # two-layer individuals, so that a distribution has several states and the order in which probability * value is
    # accumulated shows in the last bits — across child processes with different PYTHONHASHSEED in particular
    nondy = []
    for j in range(2 if quick else 6):
        nondy.append(dict(
            n_qubits=3 if j % 2 == 0 else 2, evaluator="bitstring", population_size=2 + j % 2, mutex=(j % 3 == 1), tournament=(j % 2 == 1),
            tournament_size=2 if j % 2 == 1 else None, seed=[7, 42, 123456789, 5, 99, 2**40 + 3][j], n_initial_layers=2, randomize=True,
            p_param=[0.5, 1.0, 0.25][j % 3], p_topo=0.5, p_remove=[0.0, 0.5][j % 2], distance=2, max_generations=1 + j % 2, aux=[None, "dict3", "list"][j % 3],
            coeffs=[[0.1, -0.3, 0.7, 0.45], [-0.7, 0.3, 0.1, 1.1], [0.3, 0.3, -0.1, 0.9]][j % 3], alpha=[1, 0.5, 0.3][j % 3], shots=[100, 37, 1000][j % 3],
            optimizer=["coordinate", "nft", "coordinate"][j % 3]))
    out = nondy + out
    # configurations with exactly ONE seeded optimiser run per solve (one individual, one generation) and an optimiser
    # that draws from qiskit's global algorithm_globals generator: the last optimiser seed of one solve is the first
    # of its immediate repetition, so a seed that is not re-applied leaves the second solve on leftover state
    for j in range(max(2, n // 8)):
        s = out[-1 - j]
        s.update(population_size=1, max_generations=1, optimizer="spsa", n_qubits=[2, 3, 2, 1][j % 4],
                 tournament_size=1 if s["tournament"] else None, n_initial_layers=1, evaluator=["estimator", "sampler"][j % 2])
    return [{"kind": "solve", "setup": s} for s in out]


DYADIC = [[[1.0, 1.0]], [[0.5, 0.5], [1.0, 0.5]], [[0.5, 0.25], [1.0, 0.25], [0.75, 0.5]], [[1.0, 0.125], [0.5, 0.875]]]
DURS = [[[1, 1.0]], [[1, 0.5], [2, 0.5]], [[3, 0.25], [1, 0.25], [2, 0.5]], [[2, 0.5], [5, 0.375], [1, 0.125]]]


def optimize_jobs(rng, n):
    """Direct calls of optimize_layer_of_individual / optimize_all_parameters_of_individual with a seed."""
    jobs = []
    for k in range(n):
        nq = rng.randint(1, 3)
        ind = ev.random_valid_individual(rng, n=nq, n_layers=1 if k % 3 == 0 else rng.randint(1, 3), value=lambda: rng.choice([0.0, 0.5, -1.25, 2.0, rng.uniform(-3, 3)]))
        if all(g[0] in ("I", "C") for g in ind["layers"][-1]["gates"]):
            ind["layers"][-1] = ev.random_valid_layer(rng, nq, allow_empty=False)
            ind["values"] = [0.25] * sum(ev.layer_n_parameters(l) for l in ind["layers"])
        jobs.append({"kind": "optimize", "args": {
            "individual": ind, "layer": "all" if k % 2 else rng.choice([-1, 0, len(ind["layers"]) - 1]),
            "optimizer": ["spsa", "spsa", "coordinate", "nft"][k % 4], "seed": rng.choice([0, 7, rng.randint(0, 2**31 - 1)]),
            "coeffs": [rng.choice([-1.0, -0.5, 0.25, 0.5, 1.0, 2.0]) for _ in range(4)]}})
    return jobs


def constructor_jobs(rng, n):
    jobs = []
    for k in range(n):
        kind = ["layer", "individual", "population", "jssp"][k % 4]
        seed = rng.choice([0, 1, 5, 2**31 - 1, rng.randint(0, 10**6), rng.randint(0, 2**40)])
        if kind == "layer":
            nq = rng.randint(1, 4)
            prev = ev.random_valid_layer(rng, nq) if rng.random() < 0.6 else None
            jobs.append({"kind": kind, "args": {"n": nq, "prev": prev, "seed": seed}})
        elif kind == "individual":
            jobs.append({"kind": kind, "args": {"n": rng.randint(1, 3), "n_layers": rng.randint(1, 3), "randomize": rng.random() < 0.6, "seed": seed}})
        elif kind == "population":
            jobs.append({"kind": kind, "args": {"n": rng.randint(1, 3), "n_layers": rng.randint(1, 3), "n_individuals": rng.randint(1, 4), "randomize": rng.random() < 0.5, "seed": seed}})
        else:
            r = rng.random()
            rel = rng.choice([0.5, 1.0, 1, 0.75]) if r < 0.4 else rng.choice(DYADIC)
            dur = rng.choice([1, 2, 3]) if rng.random() < 0.4 else rng.choice(DURS)
            if rng.random() < 0.08:
                rel = rng.choice([2.0, [[0.5, 0.5], [1.0, 0.25]]])  # more operations than machines / probabilities not adding up
            if rng.random() < 0.05:
                dur = rng.choice([0, [[0, 0.5], [1, 0.5]]])  # a duration the Operation constructor rejects
            jobs.append({"kind": kind, "args": {"name": rng.choice(["inst", "x", "i 1"]), "n_jobs": rng.randint(1, 3), "n_machines": rng.randint(1, 4), "rel": rel, "dur": dur, "seed": seed}})
    return jobs


# ------------------------------------------------------------------ Gallina literals
def unnum(s):
    """Inverse of reprokit.num for the number kinds that occur in genomes."""
    t, _, v = s.partition(":")
    if t == "int":
        return int(v)
    if t == "bool":
        return v == "True"
    return float.fromhex(v)


def g_dec(d):
    return rnglog.g_decision(d, tok=lambda r: int(Fraction(r) * TWO53))


def g_trace(events):
    return g_list(f"({g_nat(e[0])}, {g_dec(e[1:])})" for e in events)


def g_wtrace(events):
    return g_list(f"(WAlg {g_z(e[1])})" if e[0] == "alg" else f"(WDec {g_nat(e[0])} {g_dec(e[1:])})" for e in events)


class _Tokens:
    """Token of a parameter value: k for 2*pi*(k / 2^53) as logged, 0 for the value 0, -1 for a value that is
    none of the logged random() results (the model will not accept it)."""

    def __init__(self, events):
        self.by_hex = {}
        for e in events:
            if len(e) > 1 and e[1] == "random":
                r = float.fromhex(e[2])
                self.by_hex[(2 * math.pi * r).hex()] = int(Fraction(r) * TWO53)

    def tok(self, v):
        if v == 0:
            return 0
        return self.by_hex.get(float(v).hex(), -1)


def plain_ind(c):
    return {"n": c["n"], "layers": c["layers"], "values": [unnum(v) for v in c["values"]]}


def g_solve_case(job, run):
    s = job["setup"]
    cfg = (f"(mkCfg {g_z(s['n_qubits'])} {g_z(s['n_initial_layers'])} {g_nat(s['population_size'])} {g_bool(s['randomize'])} "
           f"{g_q(s['p_param'])} {g_q(s['p_topo'])} {g_q(s['p_remove'])} {g_opt(g_nat(s['tournament_size']) if s['tournament'] else None)} {g_nat(s['max_generations'])})")
    main, worker = run["log"]["main"], run["log"]["worker"]
    toks = _Tokens(main)
    init = run["fp"]["initial_population"]
    inds = [] if not init else [plain_ind(c) for c in init[0]["individuals"]]
    return f"(CSolve {cfg} (Some {g_z(s['seed'])}) {g_trace(main)} {g_wtrace(worker)} {g_list(ev.g_individual(i, toks) for i in inds)})"


def g_vdist(x, lit):
    if isinstance(x, list):
        return "(VDist " + g_list(f"({lit(v)}, {g_q(p)})" for v, p in x) + ")"
    return f"(VConst {lit(x)})"


def g_result(fp, ok):
    if isinstance(fp, dict) and "raise" in fp:
        return f"(Err {g_str(fp['raise'])})"
    return f"(Ok {ok(fp)})"


def g_jssp_case(job, run):
    a = job["args"]
    inst = lambda fp: jk.g_inst({"name": fp["name"], "machines": fp["machines"], "jobs": [{"name": j["name"], "ops": [dict(o, dur=unnum(o["dur"])) for o in j["ops"]]} for j in fp["jobs"]]})
    stream = g_list(g_dec(e[1:]) for e in run["log"]["main"])
    return (f"(CJssp {g_str(a['name'])} {g_z(a['n_jobs'])} {g_z(a['n_machines'])} {g_vdist(a['rel'], g_q)} {g_vdist(a['dur'], g_z)} "
            f"(Some {g_z(a['seed'])}) {stream} {g_result(run['fp'], inst)})")


def g_c20_case(job, run):
    """layer / individual / population calls in the vocabulary of QV.Evqe.C20Check (tokens as above)."""
    a, kind = job["args"], job["kind"]
    events = run["log"]["main"]
    toks = _Tokens(events)
    stream = g_list(g_dec(e[1:]) for e in events)
    seed = f"(Some {g_z(a['seed'])})"
    if kind == "layer":
        prev = g_opt(None if a["prev"] is None else ev.g_layer(a["prev"]))
        return f"(CLayer {g_z(a['n'])} {prev} {seed} {stream} {g_result(run['fp'], ev.g_layer)})"
    if kind == "individual":
        return f"(CIndividual {g_z(a['n'])} {g_z(a['n_layers'])} {g_bool(a['randomize'])} {seed} {stream} {g_result(run['fp'], lambda fp: ev.g_individual(plain_ind(fp), toks))})"
    return (f"(CPopulation {g_z(a['n'])} {g_z(a['n_layers'])} {g_z(a['n_individuals'])} {g_bool(a['randomize'])} {seed} {stream} "
            f"{g_result(run['fp'], lambda fp: g_list(ev.g_individual(plain_ind(c), toks) for c in fp['individuals']))})")


# ------------------------------------------------------------------ the runs
def five_runs(ctx, jobs, rk, shards=2):
    """Returns runs[label][job index]; labels: 'A', 'B' (this process) and 'h<seed>' (children)."""
    order_rng = _random.Random(ctx.rng.getrandbits(32))
    n = len(jobs)
    solve_idx = [i for i, j in enumerate(jobs) if j["kind"] == "solve"]
    other_idx = [i for i, j in enumerate(jobs) if j["kind"] != "solve"]
    parts = [solve_idx[k::shards] for k in range(shards)]
    parts[0] = parts[0] + other_idx
    parts = [p for p in parts if p]
    children = []
    for hs in HASHSEEDS:
        for part in parts:
            order = list(range(len(part)))
            order_rng.shuffle(order)
            children.append((hs, part, rk.start_child([jobs[i] for i in part], hs, ambient=1000 + hs, order=order)))
    runs = {"A": [None] * n, "C": [None] * n, "B": [None] * n}
    for i in range(n):
        runs["A"][i] = rk.run_job(jobs[i], ambient=1 + 2 * i)
        runs["C"][i] = rk.run_job(jobs[i], ambient=None)  # immediately again, nothing re-seeded in between
        if jobs[i]["kind"] == "solve":
            # the other legal schedules of the ONE worker: every task run to completion inside submit() / all tasks
            # queued until the first result is requested (reprokit.EagerExecutor, DeferredExecutor)
            runs.setdefault("E", [None] * n)[i] = rk.run_job(jobs[i], ambient=3 + 2 * i, executor="eager")
            runs.setdefault("D", [None] * n)[i] = rk.run_job(jobs[i], ambient=4 + 2 * i, executor="deferred")
    second = list(range(n))
    order_rng.shuffle(second)
    for i in second:
        runs["B"][i] = rk.run_job(jobs[i], ambient=2 + 2 * i)
    info = {}
    for hs, part, p in children:
        res = rk.finish_child(p)
        label = f"h{hs}"
        runs.setdefault(label, [None] * n)
        for k, i in enumerate(part):
            runs[label][i] = res["results"][k]
        info[label] = dict(hashseed=res["hashseed"], repo=res["repo"], hash_probe=res["hash_probe"])
    return runs, info


def judge(ctx, jobs, runs, rk, origin="generated"):
    """Oracle: every run of a job equals run A.  Reports one violation per (kind, where)."""
    bad = set()
    for i, job in enumerate(jobs):
        a = runs["A"][i]
        for label, rs in runs.items():
            if label == "A" or rs[i] is None:
                continue
            diff = rk.compare_runs(a, rs[i])
            if diff:
                where = {"B": "in-process", "C": "back-to-back", "E": "single-worker-schedule", "D": "single-worker-schedule"}.get(label, "across-hashseed")
                bad.add(i)
                what = (f"{job['kind']}: two runs of the same seeded call differ ({where}: run A of this process vs "
                        f"{label_of(label)}); "
                        f"first difference in the {diff['where']} at {diff['path']}")
                ctx.violation("oracle", f"{job['kind']}:{where}", what,
                              case=dict(job=job, runs=["A", label], origin=origin),
                              detail=dict(diff, run_a=label_of("A"), run_b=label_of(label)))
                ctx.tally(f"differs:{job['kind']}:{where}")
    return bad


def label_of(label):
    return {"A": "this process, first pass (ambient generators freshly seeded)",
            "C": "this process, immediate back-to-back repetition (ambient generators only advanced by a draw, nothing re-seeded)",
            "B": "this process, second pass (permuted call order, ambient generators seeded differently)",
            "E": "this process, one-worker executor that runs every task to completion inside submit() (eager schedule)",
            "D": "this process, one-worker executor that queues the tasks and runs them in submission order when the first result is requested (deferred schedule)"}.get(label, f"child process PYTHONHASHSEED={label[1:]}")


def correspond(ctx, jobs, runs, skip):
    """Replay run A's traces through the Coq models."""
    own, own_idx, c20, c20_idx = [], [], [], []
    for i, job in enumerate(jobs):
        if i in skip:
            continue
        run = runs["A"][i]
        try:
            if job["kind"] == "solve":
                if isinstance(run["fp"]["result"], dict) and "raise" in run["fp"]["result"]:
                    continue
                own.append(g_solve_case(job, run)); own_idx.append(i)
            elif job["kind"] == "jssp":
                own.append(g_jssp_case(job, run)); own_idx.append(i)
            elif job["kind"] == "optimize":
                ctx.tally("not_model_replayed:optimize")  # compared between runs only
            else:
                c20.append(g_c20_case(job, run)); c20_idx.append(i)
        except Exception as e:  # a log the literal printer cannot express is itself a disagreement with the model
            drift(ctx, job, f"log cannot be expressed for the model: {type(e).__name__}: {e}", None)
    bad = core.model_mismatches("c17", IMPORTS, "check_case", own, chunk=40)
    for n_shown, b in enumerate(bad):
        shown = core.model_show("c17", IMPORTS, f"stage {own[b]}") if n_shown < 3 else "(model rejects the log; diagnosis computed for the first three cases only)"
        drift(ctx, jobs[own_idx[b]], shown, runs["A"][own_idx[b]])
    bad20 = core.model_mismatches("c17_c20", IMPORTS_C20, "check_case", c20, chunk=200)
    for b in bad20:
        drift(ctx, jobs[c20_idx[b]], "QV.Evqe.C20Check.check_case rejects the logged decisions / result", runs["A"][c20_idx[b]])
    ctx.traces += len(own) + len(c20) - len(bad) - len(bad20)
    ctx.tally("model_replays_accepted", len(own) + len(c20) - len(bad) - len(bad20))


def drift(ctx, job, what, run):
    ctx.tally("model_drift")
    ctx.notes.setdefault("model_drift", [])
    if len(ctx.notes["model_drift"]) < 5:
        ctx.notes["model_drift"].append(dict(job=job, what=what))
    if STRICT:
        ctx.violation("correspondence", f"model:{job['kind']}", f"the logged decisions of a {job['kind']} call do not replay through the Coq model: {what}",
                      case=dict(job=job), detail=dict(model=what, log=None if run is None else run["log"]))
    elif ctx.dist.get("model_drift", 0) <= 3:
        print(f"MODEL-DRIFT property=C17 {job['kind']}: {str(what)[:300]}")


def tally_job(ctx, job, run):
    k = job["kind"]
    ctx.tally(f"kind:{k}")
    if k == "solve":
        s = job["setup"]
        ctx.tally(f"evaluator:{s['evaluator']}"); ctx.tally(f"qubits:{s['n_qubits']}"); ctx.tally(f"population:{s['population_size']}")
        ctx.tally(f"generations:{s['max_generations']}"); ctx.tally("selection:tournament" if s["tournament"] else "selection:roulette")
        ctx.tally(f"mutex:{s['mutex']}"); ctx.tally(f"initial_layers:{s['n_initial_layers']}"); ctx.tally(f"optimizer:{s.get('optimizer', 'coordinate')}")
        res = run["fp"]["result"]
        ctx.tally("solve:raised" if "raise" in res else "solve:ok")
        ctx.tally("worker_generators:yes" if any(e[0] != "alg" for e in run["log"]["worker"]) else "worker_generators:none")
        if run["log"]["threads"] > 1:
            ctx.tally("more_than_one_drawing_worker_thread")
    else:
        ctx.tally(f"{k}:raised" if isinstance(run["fp"], dict) and "raise" in run["fp"] else f"{k}:ok")
    t = run.get("ambient_touched") or {}
    for name, touched in t.items():
        if touched:
            ctx.tally(f"ambient_state_advanced:{name}:{k}")


def run_jobs(ctx, jobs, origin="generated"):
    from vlib import reprokit as rk

    runs, info = five_runs(ctx, jobs, rk)
    ctx.notes["children"] = info
    for i, job in enumerate(jobs):
        a = runs["A"][i]
        nontrivial = len(a["log"]["main"]) > 1 or job["kind"] == "optimize"
        ctx.case(job, nontrivial, sample=dict(job=job, decisions=len(a["log"]["main"]) + len(a["log"]["worker"])) if i % 7 == 0 else None)
        tally_job(ctx, job, a)
    bad = judge(ctx, jobs, runs, rk, origin)
    correspond(ctx, jobs, runs, bad)
    return runs


def compose_setups(rng, n):
    """Seeded solves replayed WHOLE through the composed model: the C17 configurations (CoordinateSearch optimiser), most
    with one worker, some with 2-3 workers under opskit.ForcedOrderExecutor and forced completion orders; a few with an
    evaluation budget / an expected evaluation count per optimiser run (limit checks and estimates of the loop)."""
    out = []
    for k, job in enumerate(solve_setups(rng, n, True)):
        s = job["setup"]
        s.update(optimizer="coordinate", mutex=False, aux=None)
        s["workers"] = [1, 1, 2, 3][k % 4]
        s["order"] = [rng.randint(0, 5) for _ in range(rng.randint(0, 6))]
        if k % 5 == 4:
            s["opt_estimate"] = rng.choice([4, 7])
            s["max_evals"] = rng.choice([30, 60, 120])
            s["p_param"], s["p_topo"], s["p_remove"] = rng.choice([0.25, 0.5, 1.0]), rng.choice([0.5, 1.0]), rng.choice([0.0, 0.5])
        out.append(s)
    return out


def compose_family(ctx, n):
    """Correspondence of the composition (QV.Repro.Compose): every population, every callback payload, ledger /
    n_generations at every operator start, and the final result of a real solve must be what evqe_run computes from the
    recorded logs.  A mismatch is a correspondence break."""
    from vlib import composekit as ck

    setups = compose_setups(ctx.rng, n)
    cases, kept = [], []
    for s in setups:
        try:
            rec = ck.record(s)
            lit = ck.g_ccase(rec)
        except ck.Unrepresentable as e:
            ctx.tally("compose:unrepresentable")
            ctx.notes.setdefault("compose_unrepresentable", []).append(str(e))
            continue
        except Exception as e:  # the recording machinery itself failed on the implementation's behaviour
            ctx.violation("correspondence", "compose:record", f"a whole solve could not be recorded for the composed model: {type(e).__name__}: {e}", case=dict(setup=s, family="compose"))
            continue
        cases.append(lit)
        kept.append((s, rec))
        ctx.case(dict(family="compose", setup=s), True, sample=dict(family="compose", setup=s, applications=len(rec.steps)) if len(kept) == 1 else None)
        ctx.tally("compose:solves")
        ctx.tally(f"compose:workers:{s['workers']}")
        ctx.tally("compose:raised" if rec.exception is not None else "compose:ok")
        ctx.tally("compose:applications", len(rec.steps))
        if s.get("max_evals") is not None:
            ctx.tally("compose:with_evaluation_budget")
    bad = core.model_mismatches("c17_compose", ck.IMPORTS, "ComposeCheck.check_case", cases, chunk=4)
    for n_shown, b in enumerate(bad):
        s, rec = kept[b]
        shown = core.model_show("c17_compose", ck.IMPORTS, f"ComposeCheck.diagnose {cases[b]}") if n_shown < 3 else "(diagnosis computed for the first three cases only)"
        ctx.tally("compose:mismatch")
        ctx.violation("correspondence", "compose:model", f"the composed model (QV.Repro.Compose.evqe_run) does not reproduce a whole real solve: {shown}",
                      case=dict(setup=s, family="compose"), detail=dict(model=shown))
    ctx.traces += len(cases) - len(bad)
    ctx.tally("compose:replays_accepted", len(cases) - len(bad))


CRITERIA = [["best_abs", 1e-9, 0], ["best_abs", 0.05, 0], ["best_rel", 0.01, 0], ["pop_abs", 0.01, 0], ["pop_rel", 0.01, 1], ["best_abs", 1e-9, 1]]


def history_jobs(rng, n):
    """'History independence' sequences (reprokit.run_history): reference solve / aborted solve using shared configuration
    objects / retry by a fresh solver with the same seed and the SAME objects.  Stateful termination criteria, so that
    state left behind by the aborted solve matters; the failure is injected after generation 0 or 1."""
    from vlib import reprokit as rk

    jobs = []
    for k, job in enumerate(solve_setups(rng, n, True)):
        s = job["setup"]
        s.update(mutex=False, aux=None, max_generations=rng.choice([3, 4]), n_qubits=[2, 1, 2, 2][k % 4],
                 population_size=rng.randint(2, 3), n_initial_layers=1, tournament_size=None, tournament=False,
                 optimizer=["coordinate", "coordinate", "nft", "spsa"][k % 4], evaluator=["estimator", "sampler", "bitstring"][k % 3])
        fail = {"how": "operator", "at": rng.choice([3, 4, 5, 6, 8])} if k % 3 != 2 else {"how": "primitive", "frac": rng.choice([0.5, 0.7])}
        jobs.append({"kind": "history", "setup": s, "share": rk.SHARE_MODES[k % len(rk.SHARE_MODES)],
                     "criterion": CRITERIA[k % len(CRITERIA)], "fail": fail, "ambient": 11 + k})
    return jobs


def history_family(ctx, jobs, origin="generated"):
    """Oracle: the retry equals the reference (fingerprint of the full result and complete decision log)."""
    from vlib import reprokit as rk

    for job in jobs:
        try:
            h = rk.run_history(job)
        except Exception as e:  # the sequence could not be driven at all
            ctx.violation("oracle", "solve:history-independence", f"history sequence fails: {type(e).__name__}: {e}", case=dict(job=job, origin=origin))
            continue
        ctx.case(job, True)
        ctx.tally("history:sequences")
        ctx.tally(f"history:share:{job['share']}")
        ctx.tally(f"history:criterion:{job['criterion'][0]}")
        ctx.tally("history:aborted_by_injected_failure" if "raise" in h["aborted"]["outcome"] else "history:first_solve_completed")
        ctx.tally("history:reference_raised" if "raise" in h["reference"]["fp"]["result"] else "history:reference_ok")
        diff = rk.compare_runs(h["reference"], h["retry"])
        if diff:
            ctx.tally("differs:history")
            ctx.violation("oracle", "solve:history-independence",
                          f"a freshly constructed solver (same seed and configuration) that reuses the {job['share']} configuration object(s) of an earlier, "
                          f"aborted solve does not reproduce the reference solve; first difference in the {diff['where']} at {diff['path']}",
                          case=dict(job=job, origin=origin), detail=dict(diff, aborted=h["aborted"]))


def run(ctx):
    translate.check_link(ctx, "C17")  # regenerate Gallina from /repo's current evqe.py; link lemmas coq/link/C17Link.v
    if not rnglog.selftest():
        raise RuntimeError("logging Random does not reproduce random.Random")
    ctx.rule = ("case = one seeded call (whole single-worker EVQE solve with deterministic primitives/optimiser, or one random "
                "constructor call); distinct by the JSON of its configuration/arguments; non-trivial = the call consumed random "
                "decisions beyond constructing its generator; each case is executed 6 times (3 in-process: freshly seeded ambient state, immediate back-to-back repetition without re-seeding, "
                "later repetition in permuted call order under another ambient state; 3 child processes with PYTHONHASHSEED 0/1/4242) and all fingerprints and "
                "decision logs compared, then replayed through the Coq model")
    corpus = sorted((core.ROOT / "corpus" / "C17").glob("*.json"))
    jobs = []
    for f in corpus:
        payload = json.loads(f.read_text())
        jobs.append((payload.get("case") or payload)["job"])
    n_corpus = len(jobs)
    jobs += solve_setups(ctx.rng, ctx.n(16, 96), ctx.quick)
    jobs += constructor_jobs(ctx.rng, ctx.n(200, 2400))
    jobs += optimize_jobs(ctx.rng, ctx.n(24, 240))
    ctx.notes["corpus_cases"] = n_corpus
    run_jobs(ctx, [j for j in jobs if j["kind"] != "history"])
    history_family(ctx, [j for j in jobs if j["kind"] == "history"], origin="corpus")
    history_family(ctx, history_jobs(ctx.rng, ctx.n(10, 60)))
    compose_family(ctx, ctx.n(4, 36))


def replay(ctx, payload):
    if translate.is_link_replay(payload) and not payload.get("failing_input"):
        return translate.replay(ctx, payload, "C17")
    case = payload.get("case") or payload
    if case.get("job", {}).get("kind") == "history":
        history_family(ctx, [case["job"]], origin="replay")
        for v in ctx.violations:
            print("REPRODUCED:", v["what"])
            print(json.dumps(v["detail"], indent=1)[:3000])
        if not ctx.violations:
            print("the retry reproduces the reference")
        return
    if case.get("family") == "compose":
        from vlib import composekit as ck

        rec = ck.record(case["setup"])
        lit = ck.g_ccase(rec)
        bad = core.model_mismatches("c17_compose", ck.IMPORTS, "ComposeCheck.check_case", [lit])
        shown = core.model_show("c17_compose", ck.IMPORTS, f"ComposeCheck.diagnose {lit}")
        print("composed model:", shown)
        if bad:
            ctx.violation("correspondence", "compose:model", f"the composed model does not reproduce the solve: {shown}", case=case)
        return
    job = case["job"]
    from vlib import reprokit as rk

    runs, info = five_runs(ctx, [job], rk, shards=1)
    print(json.dumps(dict(job=job, children=info), indent=1)[:3000])
    judge(ctx, [job], runs, rk, origin="replay")
    for v in ctx.violations:
        print("REPRODUCED:", v["what"])
        print(json.dumps(v["detail"], indent=1)[:3000])
    if not ctx.violations:
        print("all five runs agree (fingerprint and decision log)")
        correspond(ctx, [job], runs, set())
