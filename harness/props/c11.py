"""C11 — operators never modify their input population or recorded history.
Oracle: vlib.opskit.oracle_c11 — a structural snapshot (custom deep copy, field by field) of every apply_operator
argument, every result_callback payload and every returned population is taken when it is observed and compared with
the live object at the end of the operator sequence.
Correspondence: QV.Evqe.OpsCheck.check_heap_case — the heap model (which representatives-list object each population
references, what every such list contains at the end) against the object-identity graph of the run; dict / member-list
objects shared between different populations are reported as a difference (the model allocates them afresh)."""
from __future__ import annotations

import json

from vlib import core, opskit
from vlib import translate

RULE = ("as C10 (random populations x operator sequences of length 1-12 x forced completion orders); every observed population / evaluation result is snapshotted at "
        "observation time and compared at the end of the sequence, the argument of every application also right after the call; plus mutation operators applied directly to freshly speciated populations with probabilities at which nobody is drawn; plus independent pipelines in one process (every finished sequence is looked at again after later sequences with fresh operator instances and fresh populations have run: the three oldest and three most recent after every sequence, all of them at the end; twin sequences on coinciding not-yet-speciated populations); plus a solver-level family (scripted-operator solvers, tiny real EVQE solvers, base-class solvers around the package's speciation/selection): two or three solves on ONE solver object, one on a fresh solver, garbage collection — the first result is snapshotted when returned and compared after each; distinct = distinct spec; non-trivial = at least two executed operators one of which is a speciation (solver family: at least two completed solves)")


def oracle(tr, report):
    opskit.oracle_c11(tr, report)


def run(ctx):
    translate.check_link(ctx, "C10")  # the C10 tie covers C11: heap-level link of speciation (list(...) copy vs alias), reference copies of selection / mutation
    ctx.rule = RULE
    specs = []
    cdir = core.ROOT / "corpus" / "C11"
    for f in sorted(cdir.glob("*.json")) if cdir.exists() else []:
        specs.append(json.loads(f.read_text()))
    specs += opskit.all_orders_specs(ctx.rng)[::6]
    specs += opskit.merge_specs(ctx.rng, ctx.n(6, 60))
    specs += opskit.mutation_after_speciation_specs(ctx.rng, ctx.n(30, 300))
    specs += opskit.persistent_specs(ctx.rng, ctx.n(20, 200))  # one operator object per kind for the whole sequence, 0 < p < 1
    specs += opskit.large_population_specs(ctx.rng, ctx.n(3, 12))
    specs += opskit.new_species_specs(ctx.rng, ctx.n(8, 80))
    specs += opskit.threshold_population_specs(ctx.rng, [257] if ctx.quick else [257, 513])
    specs += opskit.twin_pipeline_specs(ctx.rng, ctx.n(15, 150))
    for _ in range(ctx.n(110, 3000)):
        spec = opskit.random_spec(ctx.rng)
        # histories matter: make sure most sequences contain a second speciation after something was recorded
        if ctx.rng.random() < 0.5:
            spec["steps"] = (spec["steps"] + [{"op": "speciation", "thr": ctx.rng.choice([1, 2, 3]), "seed": ctx.rng.randint(0, 10**6)}])[:13]
        specs.append(spec)
    kept = opskit.drive(ctx, "C11", specs, opskit.oracle_c11_step, oracle, "check_heap_case", "heap-model-vs-impl",
                        nontrivial=lambda spec, tr: len(tr.steps) >= 2 and any(s.spec["op"] == "speciation" for s in tr.steps), pipelines=True)
    shared = 0
    for spec, tr in kept:
        for kind, s1, s2 in opskit.sharing_report(tr):
            shared += 1
            ctx.violation("correspondence", f"shared-{kind}", f"a {kind} object is shared between the populations observed at steps {s1} and {s2}; the model allocates it afresh", spec)
    ctx.notes["shared_dict_or_member_list_objects"] = shared
    ctx.notes["observations_compared"] = sum(len(tr.observations) for _, tr in kept)
    partial_speciation_family(ctx)
    solver_family(ctx)


def partial_speciation_family(ctx, cases=None):
    """Populations that carry only PART of a speciation (any proper, non-empty subset of species_representatives / species_members /
    species_membership — e.g. what a caller assembles by hand, or what is left after one map was cleared) handed to every operator:
    selection documents such input as rejected, the others ignore or overwrite the maps in their OUTPUT.  Whatever an operator
    answers (a population or an exception), the population object it was given must be what it was before the call.
    Oracle only (the heap model starts from populations without species maps)."""
    from concurrent.futures import ThreadPoolExecutor

    from queasars.minimum_eigensolvers.base.evolutionary_algorithm import OperatorContext
    from queasars.minimum_eigensolvers.evqe.evolutionary_algorithm.population import EVQEPopulation
    from vlib import evqe

    if cases is None:
        cases = []
        combos = [(1, 1, 0), (1, 0, 1), (0, 1, 1), (1, 0, 0), (0, 1, 0), (0, 0, 1)]
        for k in range(ctx.n(14, 120)):
            n, inds = opskit.random_population(ctx.rng, size=ctx.rng.randint(2, 5))
            # the first six: selection (the operator that documents the check) with every proper non-empty subset; then random
            keep = combos[k] if k < 6 else ctx.rng.choice(combos)
            op = "selection" if k < 6 else ctx.rng.choice(["selection", "selection", "topo", "removal", "speciation", "last"])
            cases.append({"n": n, "inds": inds, "keep": list(keep), "thr": ctx.rng.choice([1, 2, 3]), "seed": ctx.rng.randint(0, 10**6),
                          "step": {"op": op, "p": ctx.rng.choice([0.0, 0.5, 1.0]), "thr": 2, "alpha": 0.125, "beta": 0.25, "tournament": ctx.rng.choice([None, 2]), "seed": ctx.rng.randint(0, 10**6)}})
    for case in cases:
        table = opskit.Table()
        with opskit.install():
            ev = opskit.make_evaluator(case["n"])
            ex = ThreadPoolExecutor(max_workers=1)
            try:
                octx = OperatorContext(circuit_evaluator=ev, result_callback=lambda r: None, circuit_evaluation_count_callback=lambda k: None, parallel_executor=ex)
                base = EVQEPopulation(individuals=tuple(evqe.impl_individual(p) for p in case["inds"]), species_representatives=None, species_members=None, species_membership=None)
                full = opskit.build_operator({"op": "speciation", "thr": case["thr"], "seed": case["seed"]}, None).apply_operator(population=base, operator_context=octx)
                r, m, ms = case["keep"]
                arg = EVQEPopulation(individuals=full.individuals,
                                     species_representatives=list(full.species_representatives) if r else None,
                                     species_members={k: list(v) for k, v in full.species_members.items()} if m else None,
                                     species_membership=dict(full.species_membership) if ms else None)
                before = opskit.snapshot_population(arg, table)
                outcome = "returned"
                try:
                    opskit.build_operator(case["step"], opskit.make_optimizer()).apply_operator(population=arg, operator_context=octx)
                except Exception as e:  # noqa: BLE001 - rejecting such input is fine; changing it is not
                    outcome = f"raised {type(e).__name__}"
                after = opskit.snapshot_population(arg, table)
            finally:
                ex.shutdown(wait=True)
        kept = "+".join(nm for nm, k in zip(("representatives", "members", "membership"), case["keep"]) if k)
        ctx.tally(f"partial-speciation:{case['step']['op']}:{kept}:{outcome.split()[0]}")
        ctx.case(dict(k="partial", case=case), True)
        if after != before:
            field = next(f for f in before if before[f] != after[f])
            ctx.violation("oracle", f"argument-changed-partial-speciation-{field}",
                          f"{case['step']['op']} was given a population carrying only {kept} of a speciation and {outcome}; the population object it was given changed: "
                          f"{field} was {before[field]}, is {after[field]}", dict(partial_case=case))


def solver_family(ctx, cases=None):
    """Solver level: the result of an earlier solve (history list, every evaluation result in it, populations, species maps,
    best individual, circuit_evaluations, eigenstate, aux values) is snapshotted when it is returned and compared after
    further solves on the SAME solver object, after a solve on a fresh solver and after garbage collection."""
    if cases is None:
        cases = []
        cdir = core.ROOT / "corpus" / "C11" / "solver"
        for f in sorted(cdir.glob("*.json")) if cdir.exists() else []:
            cases.append(json.loads(f.read_text()))
        cases += opskit.criterion_cases(ctx.rng)            # every built-in termination criterion class, evaluations reporting None
        cases.append(opskit.long_run_case(600))             # 600 generations with stub operators
        cases += opskit.solver_level_cases(ctx.rng, ctx.n(12, 120), ctx.n(3, 30), ctx.n(3, 30))
    shared, solves, entries = [], 0, 0
    for case in cases:
        found = []
        try:
            notes = opskit.run_solver_case(case, lambda key, what: found.append((key, what)))
        except Exception as e:  # noqa: BLE001 - building or driving the solver failed outside the solver's own code paths
            import traceback

            ctx.violation("oracle", f"solver-harness-{type(e).__name__}", f"driving the two-solve sequence failed: {type(e).__name__}: {e}", dict(solver_case=case), detail=traceback.format_exc()[-1500:])
            continue
        for key, what in found:
            ctx.violation("oracle", key, what, dict(solver_case=case), detail=dict(shared_containers=notes["shared"][:10]))
        shared += notes["shared"]
        solves += notes["solves"]
        entries += notes["history_entries"]
        ctx.case(dict(solver_case=case), nontrivial=notes["solves"] >= 2, sample=dict(kind=case["kind"], solves=notes["solves"]))
        ctx.tally(f"solver-family:{case['kind']}")
        ctx.tally(f"solver-family:solves:{notes['solves']}")
        ctx.tally(f"solver-family:criterion:{notes.get('criterion')}")
        if case.get("with_none"):
            ctx.tally("solver-family:evaluations-reporting-None")
        if case.get("long"):
            ctx.tally(f"solver-family:long-run-history-entries:{notes['history_entries']}")
        for e in notes.get("solve_exceptions", []):
            ctx.tally("solver-family:solve-raised:" + e.split(":")[1].strip())
    ctx.notes["solver_family"] = dict(cases=len(cases), solves=solves, history_entries_compared=entries,
                                      mutable_containers_shared_between_results_of_one_solver=sorted(set(shared))[:20])


def replay(ctx, payload):
    if translate.is_link_replay(payload) and not payload.get("failing_input"):
        return translate.replay(ctx, payload, "C10")
    spec = payload.get("case") or payload.get("failing_input")
    if "pipeline_a" in spec:
        # an independent pipeline B after a finished pipeline A, in one process
        specs = [spec["pipeline_a"]] + ([spec["pipeline_b"]] if spec.get("pipeline_b") else [])
        opskit.drive(ctx, "C11_replay", [{k: v for k, v in s_.items() if k != "failing_step"} for s_ in specs], opskit.oracle_c11_step, oracle, "check_heap_case", "heap-model-vs-impl", pipelines=True)
        for v in ctx.violations:
            print(f"{v['kind']}: {v['key']}: {v['what']}")
        print("impl-vs-property:", "FAILS" if any(v["kind"] == "oracle" for v in ctx.violations) else "ok")
        return
    if "partial_case" in spec:
        partial_speciation_family(ctx, [spec["partial_case"]])
        for v in ctx.violations:
            print(f"{v['kind']}: {v['key']}: {v['what']}")
        print("impl-vs-property:", "FAILS" if any(v["kind"] == "oracle" for v in ctx.violations) else "ok")
        return
    if "solver_case" in spec:
        solver_family(ctx, [spec["solver_case"]])
        for v in ctx.violations:
            print(f"{v['kind']}: {v['key']}: {v['what']}")
        print("impl-vs-property:", "FAILS" if any(v["kind"] == "oracle" for v in ctx.violations) else "ok")
        return
    spec = {k: v for k, v in spec.items() if k != "failing_step"}
    opskit.drive(ctx, "C11_replay", [spec], opskit.oracle_c11_step, oracle, "check_heap_case", "heap-model-vs-impl")
    for v in ctx.violations:
        print(f"{v['kind']}: {v['key']}: {v['what']}")
    print("impl-vs-property:", "FAILS" if any(v["kind"] == "oracle" for v in ctx.violations) else "ok")
    print("model-vs-impl:", "DIFFER" if any(v["kind"] == "correspondence" for v in ctx.violations) else "agree")
