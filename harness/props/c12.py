"""C12 — termination limits are honoured.
Oracle: vlib.solvercases.oracle_c12 on the recorded sequence of apply_operator starts (with the ledger value at each
start), criterion answers and the outcome.  Correspondence: QV.Solver.SolverCheck.check_case."""
from __future__ import annotations

from vlib import translate

# An operator application that reports more than one result is outside the documented callback protocol
# (OperatorContext.result_callback: "marks the end of the current generation after the current operation has finished")
# and outside what C12 quantifies over (every EVQE operator reports at most one result per application).  Lead's decision:
# for such applications the max-generations and criterion clauses are evaluated per application ("the last answer given
# during an application decides", no start once n_generations >= max); theorem C12_criterion_stops carries the hypothesis
# single_result and C12_criterion_stops_needs_single_result is the two-result witness.  True = literal reading.
STRICT_MULTI = False


def run(ctx):
    translate.check_link(ctx, "C12")
    from vlib import solvercases as sc

    sc.run_property(ctx, "C12", strict_multi=STRICT_MULTI, n_scripted=ctx.n(700, 8000), n_evqe=ctx.n(12, 50), enum_events=None if ctx.quick else 5)


def replay(ctx, payload):
    if translate.is_link_replay(payload) and not payload.get("failing_input"):
        return translate.replay(ctx, payload, "C12")  # a replay file written for a broken translation tie
    from vlib import solvercases as sc

    sc.replay_property(ctx, "C12", payload, strict_multi=STRICT_MULTI)
