"""C18 — JSON round-trips preserve every serialisable object.

Oracle (on the implementation): x and json.loads(json.dumps(x, cls=Enc), cls=Dec) are described field by field
(vlib.jsonkit.to_pv: exact types, never the classes' hash-based __eq__) and compared with the `==` of the documented
field types: numbers by value (1 == 1.0), tuple != list, dict order irrelevant, objects class- and field-wise,
QuasiDistribution including shots and stddev_upper_bound, circuits with QuantumCircuit.__eq__.
Correspondence (QV.Json.JsonCheck.check_case): the tree json.loads(json.dumps(x, cls=Enc)) *without* hook equals the
model's encoding (member order, int vs float, bool, null), and the decoded object equals the model's decoding
strictly (types, tuple/list, dict order); plus decoder-only cases on damaged trees (exception classes, dispatch order)."""
from __future__ import annotations

import copy
import json
import re
import time

from vlib import core, jsonkit as jk

IMPORTS = "From QV Require Import Json.JsonCheck."
KCODEC = {"jssp": "KJssp", "layer": "KLayer", "evqe": "KEvqe", "result": "KResult"}


def codec(name):
    if name == "jssp":
        from queasars.job_shop_scheduling.serialization import JSSPJSONDecoder, JSSPJSONEncoder

        return JSSPJSONEncoder, JSSPJSONDecoder
    if name == "layer":
        from queasars.minimum_eigensolvers.evqe.quantum_circuit.serialization import EVQECircuitLayerDecoder, EVQECircuitLayerEncoder

        return EVQECircuitLayerEncoder, EVQECircuitLayerDecoder
    if name == "evqe":
        from queasars.minimum_eigensolvers.evqe.serialization import EVQEPopulationJSONDecoder, EVQEPopulationJSONEncoder

        return EVQEPopulationJSONEncoder, EVQEPopulationJSONDecoder
    from queasars.minimum_eigensolvers.base.serialization import (
        EvolvingAnsatzMinimumEigensolverResultJSONDecoder,
        EvolvingAnsatzMinimumEigensolverResultJSONEncoder,
    )

    return EvolvingAnsatzMinimumEigensolverResultJSONEncoder, EvolvingAnsatzMinimumEigensolverResultJSONDecoder


# which encoder/decoder pairs claim which classes (the nested encoders delegate downwards: the population codec handles
# bare layers and gates, the result codec bare individuals and populations).  The result codec does not claim bare
# layers/gates (its default() ends without a clause: null) - those go through it for the correspondence only.
UNCLAIMED = {("result", "Gate"), ("result", "EVQECircuitLayer")}
GENERATORS = [
    # (label, codecs, generator, weight)
    ("Machine", ["jssp"], jk.gen_machine, 1),
    ("Operation", ["jssp"], jk.gen_operation, 1),
    ("Job", ["jssp"], jk.gen_job, 2),
    ("JobShopSchedulingProblemInstance", ["jssp"], jk.gen_instance, 4),
    ("JobShopSchedulingResult", ["jssp"], jk.gen_jssp_result, 8),
    ("Gate", ["layer", "evqe", "result"], jk.gen_gate, 1),
    ("EVQECircuitLayer", ["layer", "evqe", "result"], jk.gen_layer, 3),
    ("EVQEIndividual", ["evqe", "result"], jk.gen_individual, 4),
    ("EVQEPopulation", ["evqe", "result"], jk.gen_population, 8),
    ("BasePopulationEvaluationResult", ["result"], jk.gen_popeval, 4),
    ("EvolvingAnsatzMinimumEigensolverResult", ["result"], jk.gen_solver_result, 12),
]


def exc_name(e):
    return type(e).__name__


def strip_path(d):
    """'x.schedule[{'o':...}][0].start_time: 0 != None' -> 'schedule.start_time' (stable key of what differs)"""
    p = d.split(":")[0]
    p = re.sub(r"\[.*?\]", "", p)
    return p[2:] if p.startswith("x.") else p


def roundtrip(ctx, case, x, codec_name, label):
    """x: implementation object. Runs oracle, returns the Gallina case or None."""
    Enc, Dec = codec(codec_name)
    x_pv = jk.to_pv(x)
    report = ctx.violation if (codec_name, label) not in UNCLAIMED else (lambda *a, **k: None)
    try:
        text = json.dumps(x, cls=Enc)
    except Exception as e:
        report("oracle", f"encode-raises-{label}-{exc_name(e)}", f"json.dumps of a {label} with {Enc.__name__} raises {exc_name(e)}: {e}", case)
        return None
    raw = json.loads(text)
    try:
        y = json.loads(text, cls=Dec)
        dec = ("ok", jk.to_pv(y))
    except Exception as e:
        dec = ("err", exc_name(e))
        report("oracle", f"decode-raises-{label}-{exc_name(e)}", f"decoding an encoded {label} with {Dec.__name__} raises {exc_name(e)}: {e}", case,
                      detail=dict(text=text[:2000]))
    if dec[0] == "ok":
        d = jk.py_diff(x_pv, dec[1])
        if d:
            report("oracle", f"roundtrip-{label}-{strip_path(d)}",
                          f"{label} is not equal to its JSON round trip ({Enc.__name__}/{Dec.__name__}): {d}", case,
                          detail=dict(original=x_pv, decoded=dec[1], text=text[:3000]))
    case["_raw"] = raw
    if jk.has_foreign(x_pv) or (dec[0] == "ok" and jk.has_foreign(dec[1])) or not jk.tree_finite(raw):
        ctx.tally("skipped-correspondence:value-outside-model")
        return None
    tree = jk.tokenise_circuits(raw)
    return f"CRound {KCODEC[codec_name]} {jk.g_pv(x_pv)} (Ok {jk.g_json(tree)}) {jk.g_res(dec, jk.g_pv)}"


# ------------------------------------------------------------------ decoder-only cases: damaged trees
def tree_paths(t, path=()):
    """all (path, node) of dict nodes"""
    if isinstance(t, dict):
        yield path, t
        for k, v in t.items():
            yield from tree_paths(v, path + (k,))
    elif isinstance(t, list):
        for i, v in enumerate(t):
            yield from tree_paths(v, path + (i,))


MARKERS = ["tuple", "dict", "machine_name", "evqe_gate_type", "evqe_qubit_index", "complex_number_real_value", "type",
           "evqe_individual_n_qubits", "quasidistribution_shots", "job_name", "scheduled_start_time", "unscheduled_operation"]


def damage(rng, raw):
    """One small change to an encoded tree that keeps every value of a type the documented fields have."""
    t = copy.deepcopy(raw)
    nodes = [n for _, n in tree_paths(t)]
    if not nodes:
        return None, None
    node = rng.choice(nodes)
    keys = list(node.keys())
    mode = rng.choice(["drop", "drop", "empty-name", "number", "gate-type", "extra-marker", "shorten", "reorder"])
    if mode == "drop" and keys:
        del node[rng.choice(keys)]
    elif mode == "empty-name":
        ks = [k for k in keys if isinstance(node[k], str) and k != "qiskit_quantum_circuit"]
        if not ks:
            return None, None
        node[rng.choice(ks)] = ""
    elif mode == "number":
        ks = [k for k in keys if type(node[k]) is int]
        if not ks:
            return None, None
        node[rng.choice(ks)] = rng.choice([0, -1, 1, 2, 3])
    elif mode == "gate-type":
        if "evqe_gate_type" not in node:
            return None, None
        node["evqe_gate_type"] = rng.choice(["identity", "rotation", "control", "controlled_rotation", "Rotation", ""])
    elif mode == "extra-marker":
        node[rng.choice(MARKERS)] = rng.choice([None, 0, "a", []])
    elif mode == "shorten":
        ks = [k for k in keys if isinstance(node[k], list) and node[k]]
        if not ks:
            return None, None
        node[rng.choice(ks)].pop()
    elif mode == "reorder":
        items = list(node.items())
        rng.shuffle(items)
        node.clear()
        node.update(items)
    else:
        return None, None
    return t, mode


def decode_only(ctx, case):
    _, Dec = codec(case["codec"])
    text = json.dumps(case["tree"])
    try:
        y = json.loads(text, cls=Dec)
        dec = ("ok", jk.to_pv(y))
    except Exception as e:
        dec = ("err", exc_name(e))
    if (dec[0] == "ok" and jk.has_foreign(dec[1])) or not jk.tree_finite(case["tree"]):
        return None
    ctx.tally(f"decode-only:{case.get('mode', '?')}:{'object' if dec[0] == 'ok' else dec[1]}")
    return f"CDecode {KCODEC[case['codec']]} {jk.g_json(jk.tokenise_circuits(case['tree']))} {jk.g_res(dec, jk.g_pv)}"


# ------------------------------------------------------------------ results of real solver runs
SOLVER_CONFIGS = [
    dict(path="estimator", optimizer="NFT", aux="list", seed=0, generations=1),
    dict(path="bitstring", optimizer="COBYLA", aux="dict", seed=1, generations=2, initial_state=1),
    dict(path="sampler", optimizer="COBYLA", aux="none", seed=2, generations=2),
    dict(path="estimator", optimizer="COBYLA", aux="dict", seed=3, generations=2, initial_state=2),
]


def solver_result(cfg):
    from concurrent.futures import ThreadPoolExecutor

    from qiskit.quantum_info import SparsePauliOp
    from qiskit_aer.primitives import EstimatorV2, SamplerV2
    from qiskit_algorithms.optimizers import COBYLA, NFT

    from queasars.circuit_evaluation.bitstring_evaluation import BitstringEvaluator
    from queasars.circuit_evaluation.configured_primitives import ConfiguredEstimatorV2, ConfiguredSamplerV2
    from queasars.minimum_eigensolvers.evqe.evqe import EVQEMinimumEigensolver, EVQEMinimumEigensolverConfiguration

    seed = cfg["seed"]
    opt = NFT(maxiter=6) if cfg["optimizer"] == "NFT" else COBYLA(maxiter=6)
    n = 3 if cfg.get("initial_state") == 2 else (2 if cfg.get("initial_state") == 1 else 2)
    with ThreadPoolExecutor(max_workers=1) as pool:
        conf = EVQEMinimumEigensolverConfiguration(
            configured_sampler=ConfiguredSamplerV2(sampler=SamplerV2(seed=seed), shots=64),
            configured_estimator=ConfiguredEstimatorV2(estimator=EstimatorV2(), precision=0.2) if cfg["path"] == "estimator" else None,
            pass_manager=None, optimizer=opt, optimizer_n_circuit_evaluations=6, max_generations=cfg["generations"],
            max_circuit_evaluations=None, termination_criterion=None, random_seed=seed, population_size=2,
            randomize_initial_population_parameters=True, speciation_genetic_distance_threshold=1, selection_alpha_penalty=0.1,
            selection_beta_penalty=0.1, parameter_search_probability=0.5, topological_search_probability=0.5,
            layer_removal_probability=0.2, parallel_executor=pool, mutually_exclusive_primitives=True)
        solver = EVQEMinimumEigensolver(configuration=conf)
        init = jk.circuits()[cfg["initial_state"]] if "initial_state" in cfg else None
        if cfg["path"] == "bitstring":
            ev = lambda k: BitstringEvaluator(n, lambda b, k=k: float(b.count("1") * k))
            aux = {"list": [ev(2)], "dict": {"twice": ev(2), "type": ev(3)}, "none": None}[cfg["aux"]]
            return solver.compute_minimum_function_value(ev(1), aux_operators=aux, initial_state_circuit=init)
        h = SparsePauliOp.from_list([("Z" * n, 1.0), ("I" * (n - 1) + "Z", 0.5)])
        z = SparsePauliOp("Z" + "I" * (n - 1))
        aux = {"list": [z, h], "dict": {"z": z, "values": h}, "none": None}[cfg["aux"]]
        if init is not None:
            return solver.compute_minimum_eigenvalue_with_initial_state(h, aux_operators=aux, initial_state_circuit=init) if hasattr(solver, "compute_minimum_eigenvalue_with_initial_state") else solver.compute_minimum_eigenvalue(h, aux_operators=aux)
        return solver.compute_minimum_eigenvalue(h, aux_operators=aux)


# ------------------------------------------------------------------ model evaluation
def model_eval(name, glits, chunk=120):
    """-> (indices the model disagrees on, indices of decoder-only cases outside the model's scope)"""
    # shards balanced by literal size (Coq's time goes into type-checking the literals)
    n_shards = max(1, min(16, len(glits) // 8))
    order = sorted(range(len(glits)), key=lambda i: -len(glits[i]))
    groups, sizes = [[] for _ in range(n_shards)], [0] * n_shards
    for i in order:
        k = sizes.index(min(sizes))
        groups[k].append(i)
        sizes[k] += len(glits[i])
    groups = [sorted(g) for g in groups if g]
    shards = []
    for grp in groups:
        body = ";\n  ".join(glits[i] for i in grp)
        shards.append(
            f"{IMPORTS}\nOpen Scope list_scope.\nDefinition cases : list c18case := [\n  {body}\n].\n"
            "Definition numbered := combine (seq 0 (length cases)) cases.\n"
            "Eval vm_compute in (map fst (filter (fun ic => negb (check_case (snd ic))) numbered)).\n"
            "Eval vm_compute in (map fst (filter (fun ic => out_of_scope (snd ic)) numbered)).\n")
    outs = core.coq_eval(name, shards, timeout=900)
    bad, scope = [], []
    for si, out in enumerate(outs):
        ms = re.findall(r"=\s*(\[.*?\]|nil)\s*:\s*list", out, re.S)
        if len(ms) != 2:
            raise RuntimeError("cannot parse Coq output: " + out[:600])
        bad += [groups[si][int(x)] for x in re.findall(r"\d+", ms[0])]
        scope += [groups[si][int(x)] for x in re.findall(r"\d+", ms[1])]
    return sorted(bad), sorted(scope)


def do_case(ctx, case):
    """-> Gallina case or None"""
    if case["kind"] == "round":
        x = jk.from_pv(case["x"])
        return roundtrip(ctx, case, x, case["codec"], case["label"])
    if case["kind"] == "decode":
        return decode_only(ctx, case)
    if case["kind"] == "solver":
        t0 = time.time()
        try:
            x = solver_result(case["config"])
        except Exception as e:
            ctx.notes.setdefault("solver_run_errors", []).append(f"{case['config']}: {exc_name(e)}: {e}"[:300])
            return None
        ctx.notes.setdefault("solver_run_seconds", []).append(round(time.time() - t0, 1))
        return roundtrip(ctx, case, x, "result", "solver-produced EvolvingAnsatzMinimumEigensolverResult")
    raise ValueError(case["kind"])


def public(case):
    return {k: v for k, v in case.items() if not k.startswith("_")}


def run(ctx):
    ctx.rule = ("random constructible objects of every class the four encoder/decoder pairs claim (names with quotes, unicode, control "
                "characters and marker-key spellings; ints where floats are documented, integer-valued floats, denormals; None fields; empty "
                "collections; duplicate hash-equal individuals; representatives inside/outside the population; schedule dicts in any order; "
                "start time 0; unscheduled operations), each through every codec that claims its class; damaged encoded trees for the decoders; "
                "results of real solver runs. distinct = distinct (codec, object); non-trivial = composite objects (not a bare machine/gate)")
    cases = []
    cdir = core.ROOT / "corpus" / "C18"
    for f in sorted(cdir.glob("*.json")) if cdir.exists() else []:
        c = json.loads(f.read_text())
        cases.append(c.get("case", c))
    total = sum(w for *_, w in GENERATORS)
    n_obj = ctx.n(900, 12000)
    for label, codecs, gen, w in GENERATORS:
        for _ in range(max(2, n_obj * w // total)):
            pv = gen(ctx.rng)
            for c in codecs:
                cases.append(dict(kind="round", codec=c, label=label, x=pv))
    for cfg in SOLVER_CONFIGS[: ctx.n(2, 4)]:
        cases.append(dict(kind="solver", config=cfg))
    glits, kept = [], []
    n_damage = ctx.n(1, 3)
    for c in cases:
        g = do_case(ctx, c)
        label = c.get("label", c["kind"])
        ctx.tally(f"{c.get('codec', 'result')}:{label}")
        nontriv = label not in ("Machine", "Gate")
        fp = public(c)
        ctx.case(fp, nontriv, sample=fp if (nontriv and c["kind"] == "round" and len(json.dumps(fp)) < 1500) else None)
        if g is not None:
            glits.append(g)
            kept.append(c)
        raw = c.pop("_raw", None)
        if raw is not None and c["kind"] == "round":
            for _ in range(n_damage):
                t, mode = damage(ctx.rng, raw)
                if t is None:
                    continue
                dc = dict(kind="decode", codec=c["codec"], tree=t, mode=mode)
                g = decode_only(ctx, dc)
                ctx.evaluations += 1
                if g is not None:
                    glits.append(g)
                    kept.append(dc)
    bad, scope = model_eval("C18", glits)
    ctx.notes["decoder_only_cases_outside_model_scope"] = len(scope)
    ctx.notes["model_cases"] = len(glits)
    seen = set()
    for i in bad:
        c = kept[i]
        key = f"model-vs-impl-{c['kind']}-{c['codec'] if 'codec' in c else 'result'}-{c.get('label', c.get('mode', ''))}"
        if key in seen:
            continue
        seen.add(key)
        if len(seen) > 4:
            break
        try:
            shown = core.model_show("C18", IMPORTS, f"show_case ({glits[i]})")[:3000]
        except Exception as e:  # the literal itself may be what is wrong
            shown = f"model_show failed: {e}"[:500]
        ctx.violation("correspondence", key, "the Coq model of the codec and the implementation answer differently "
                      "(encoded tree or decoded object)", public(c), detail=dict(gallina=glits[i][:3000], model=shown))
    ctx.traces = len(glits)


def replay(ctx, payload):
    c = payload.get("case") or payload.get("failing_input")
    g = do_case(ctx, c)
    for v in ctx.violations:
        print("oracle:", v["what"])
    print("impl round trip:", "FAILS" if ctx.violations else "ok")
    if g:
        bad, scope = model_eval("C18_replay", [g])
        print("model-vs-impl:", "DIFFER" if bad else ("outside model scope" if scope else "agree"))
    else:
        print("model-vs-impl: not compared (value outside the model, or the encoder raised)")
