"""C18 — JSON round-trips preserve every serialisable object.

Oracle (on the implementation): x and json.loads(json.dumps(x, cls=Enc), cls=Dec) are described field by field
(vlib.jsonkit.to_pv: exact types, never the classes' hash-based __eq__) and compared with the `==` of the documented
field types: numbers by value (1 == 1.0), tuple != list, dict order irrelevant, objects class- and field-wise,
QuasiDistribution including shots and stddev_upper_bound, circuits with QuantumCircuit.__eq__.
Correspondence (QV.Json.JsonCheck.check_case): the tree json.loads(json.dumps(x, cls=Enc)) *without* hook equals the
model's encoding (member order, int vs float, bool, null), and the decoded object equals the model's decoding
strictly (types, tuple/list, dict order); plus decoder-only cases on damaged trees (exception classes, dispatch order)."""
from __future__ import annotations

import copy
import json
import re
import time

from vlib import core, jsonkit as jk
from vlib import translate

IMPORTS = "From QV Require Import Json.JsonCheck Json.Cover."
KCODEC = {"jssp": "KJssp", "layer": "KLayer", "evqe": "KEvqe", "result": "KResult"}


def codec(name):
    if name == "jssp":
        from queasars.job_shop_scheduling.serialization import JSSPJSONDecoder, JSSPJSONEncoder

        return JSSPJSONEncoder, JSSPJSONDecoder
    if name == "layer":
        from queasars.minimum_eigensolvers.evqe.quantum_circuit.serialization import EVQECircuitLayerDecoder, EVQECircuitLayerEncoder

        return EVQECircuitLayerEncoder, EVQECircuitLayerDecoder
    if name == "evqe":
        from queasars.minimum_eigensolvers.evqe.serialization import EVQEPopulationJSONDecoder, EVQEPopulationJSONEncoder

        return EVQEPopulationJSONEncoder, EVQEPopulationJSONDecoder
    from queasars.minimum_eigensolvers.base.serialization import (
        EvolvingAnsatzMinimumEigensolverResultJSONDecoder,
        EvolvingAnsatzMinimumEigensolverResultJSONEncoder,
    )

    return EvolvingAnsatzMinimumEigensolverResultJSONEncoder, EvolvingAnsatzMinimumEigensolverResultJSONDecoder


# which encoder/decoder pairs claim which classes (the nested encoders delegate downwards: the population codec handles
# bare layers and gates, the result codec bare individuals and populations).  The result codec does not claim bare
# layers/gates (its default() ends without a clause: null) - those go through it for the correspondence only.
# A bare QuasiDistribution is a dict for json.dumps: default() is never asked, it is written as a plain object and comes
# back as a plain dict with string keys (observation reported to the lead; the property speaks of the eigenstate *of a
# result*, which goes through self.default and round-trips).  Correspondence only.
# "aux outside documented type": aux_operators_evaluated holding a QuasiDistribution (isinstance(…, dict) is True for the
# dict subclass: written as {"type": "dict", …}, comes back as a plain dict), a tuple (neither list nor dict: null) or a
# nested list - outside the property (documented: list / dict of numbers / None); compared with the model only.
# "dict document" through the job-shop / layer / population decoders: their object_hook ends without a clause for a dict it
# does not recognise, so the outer dict of the document becomes None (reported to the lead; the property lists objects, a list
# of them keeps every member; a dict of them survives only the result decoder, which hands unrecognised dicts through).
UNCLAIMED = {("result", "Gate"), ("result", "EVQECircuitLayer"), ("result", "bare QuasiDistribution"),
             ("result", "aux outside documented type"), ("jssp", "dict document"), ("evqe", "dict document"), ("layer", "dict document")}
GENERATORS = [
    # (label, codecs, generator, weight)
    ("Machine", ["jssp"], jk.gen_machine, 1),
    ("Operation", ["jssp"], jk.gen_operation, 1),
    ("Job", ["jssp"], jk.gen_job, 2),
    ("JobShopSchedulingProblemInstance", ["jssp"], jk.gen_instance, 4),
    ("JobShopSchedulingResult", ["jssp"], jk.gen_jssp_result, 8),
    ("Gate", ["layer", "evqe", "result"], jk.gen_gate, 1),
    ("EVQECircuitLayer", ["layer", "evqe", "result"], jk.gen_layer, 3),
    ("EVQEIndividual", ["evqe", "result"], jk.gen_individual, 4),
    ("EVQEPopulation", ["evqe", "result"], jk.gen_population, 8),
    ("BasePopulationEvaluationResult", ["result"], jk.gen_popeval, 4),
    ("EvolvingAnsatzMinimumEigensolverResult", ["result"], jk.gen_solver_result, 12),
    ("complex", ["result"], lambda rng: {"c": [float(rng.choice(jk.FLOATS)), float(rng.choice(jk.FLOATS))]}, 1),
    ("QuantumCircuit", ["result"], lambda rng: {"qc": f"QPY{rng.randrange(4)}"}, 1),
    ("bare QuasiDistribution", ["result"], jk.gen_quasi, 1),
    ("aux outside documented type", ["result"], jk.gen_result_odd_aux, 2),
    # several objects with colliding names (same job / operation names, other durations; same circuit structure, other parameters)
    # in ONE document: a list - and a dict with plain string keys, which only the result decoder hands through
    ("list document", ["jssp"], lambda rng: jk.gen_document(rng, rng.choice([jk.gen_instance, jk.gen_jssp_result, jk.gen_job]), "list"), 4),
    ("list document", ["evqe", "result"], lambda rng: jk.gen_document(rng, rng.choice([jk.gen_individual, jk.gen_population]), "list"), 2),
    ("list document", ["layer", "evqe"], lambda rng: jk.gen_document(rng, jk.gen_layer, "list"), 1),
    ("list document", ["result"], lambda rng: jk.gen_document(rng, rng.choice([jk.gen_solver_result, jk.gen_popeval]), "list"), 3),
    ("dict document", ["jssp"], lambda rng: jk.gen_document(rng, rng.choice([jk.gen_instance, jk.gen_jssp_result]), "dict"), 1),
    ("dict document", ["evqe", "result"], lambda rng: jk.gen_document(rng, jk.gen_population, "dict"), 1),
    ("dict document", ["result"], lambda rng: jk.gen_document(rng, jk.gen_solver_result, "dict"), 1),
]


def exc_name(e):
    return type(e).__name__


def strip_path(d):
    """'x.schedule[{'o':...}][0].start_time: 0 != None' -> 'schedule.start_time' (stable key of what differs)"""
    p = d.split(":")[0]
    p = re.sub(r"\[.*?\]", "", p)
    return p[2:] if p.startswith("x.") else p


def roundtrip(ctx, case, x, codec_name, label, encode=None, note="", decode=None):
    """x: implementation object *as it is now*. Runs the oracle, returns the Gallina case or None.
    encode: how the text is produced (default json.dumps(x, cls=Enc)); note: where in a sequence we are."""
    Enc, Dec = codec(codec_name)
    x_pv = jk.to_pv(x)
    report = ctx.violation if (codec_name, label) not in UNCLAIMED else (lambda *a, **k: None)
    if note:
        inner = report
        report = lambda kind, key, what, c=None, detail=None: inner(kind, key, f"{what} [{note}]", c, detail)
    try:
        text = json.dumps(x, cls=Enc) if encode is None else encode(x)
    except Exception as e:
        report("oracle", f"encode-raises-{label}-{exc_name(e)}", f"json.dumps of a {label} with {Enc.__name__} raises {exc_name(e)}: {e}", case)
        return None
    raw = json.loads(text)
    try:
        y = json.loads(text, cls=Dec) if decode is None else decode(text)
        dec = ("ok", jk.to_pv(y))
    except Exception as e:
        dec = ("err", exc_name(e))
        report("oracle", f"decode-raises-{label}-{exc_name(e)}", f"decoding an encoded {label} with {Dec.__name__} raises {exc_name(e)}: {e}", case,
                      detail=dict(text=text[:2000]))
    if dec[0] == "ok":
        d = jk.py_diff(x_pv, dec[1])
        if d:
            report("oracle", f"roundtrip-{label}-{strip_path(d)}",
                          f"{label} is not equal to its JSON round trip ({Enc.__name__}/{Dec.__name__}): {d}", case,
                          detail=dict(original=x_pv, decoded=dec[1], text=text[:3000]))
    case["_raw"] = raw
    if jk.has_foreign(x_pv) or (dec[0] == "ok" and jk.has_foreign(dec[1])) or not jk.tree_finite(raw):
        ctx.tally("skipped-correspondence:value-outside-model")
        return None
    tree = jk.tokenise_circuits(raw)
    return f"CRound {KCODEC[codec_name]} {jk.g_pv(x_pv)} (Ok {jk.g_json(tree)}) {jk.g_res(dec, jk.g_pv)}"


# ------------------------------------------------------------------ operation sequences in one process
# The property quantifies over every serialisable object, so the encoding must be a function of the object's *current*
# value: nothing may be remembered between calls by object identity, per encoder instance, per class or per module.
# (In the Coq model `encode` is a function of the value; that the implementation keeps no state is what these
# sequences test.)  Every step is the ordinary oracle: decode(encode(x)) equals x as it is now, field by field.
def random_circuit(rng, n=2, gates=None):
    from qiskit.circuit import QuantumCircuit

    qc = QuantumCircuit(n)
    for _ in range(rng.randint(0, 3) if gates is None else gates):
        add_gate(rng, qc)
    return qc


def add_gate(rng, qc):
    n = qc.num_qubits
    k = rng.choice(["h", "x", "rz", "cx"] if n > 1 else ["h", "x", "rz"])
    if k == "cx":
        a, b = rng.sample(range(n), 2)
        qc.cx(a, b)
    elif k == "rz":
        qc.rz(rng.choice([0.5, 0.25, -1.0, rng.random()]), rng.randrange(n))
    else:
        getattr(qc, k)(rng.randrange(n))


def encoders_for(rng, codec_name):
    """json.dumps with the class (a new encoder object per call), two long-lived encoder instances, and dumps with indent"""
    Enc, _ = codec(codec_name)
    e1, e2 = Enc(), Enc()
    return [("dumps(cls)", lambda o: json.dumps(o, cls=Enc)), ("instance-1.encode", e1.encode), ("instance-2.encode", e2.encode),
            ("dumps(cls, indent)", lambda o: json.dumps(o, cls=Enc, indent=1))]


def decoders_for(rng, codec_name):
    """json.loads with the class (a new decoder object per call) and two long-lived decoder objects used for document after document"""
    _, Dec = codec(codec_name)
    d1, d2 = Dec(), Dec()
    return [("loads(cls)", None), ("decoder-1.decode", d1.decode), ("decoder-2.decode", d2.decode), ("decoder-1.decode", d1.decode)]


def mutate_result(rng, r):
    """one in-place change of a mutable component of a solver result; returns its description"""
    from qiskit.result import QuasiDistribution

    pops = [e.population for e in (r.population_evaluation_results or [])]
    pops = [p for p in pops if p.species_representatives is not None and p.individuals]
    k = rng.choice(["circuit", "circuit", "circuit", "evaluations", "history", "aux", "eigenstate", "generations", "species", "eigenvalue"])
    if k == "circuit":
        if r.initial_state_circuit is None:
            r.initial_state_circuit = random_circuit(rng)
            return "initial_state_circuit set"
        add_gate(rng, r.initial_state_circuit)
        return "initial_state_circuit gets another gate in place"
    if k == "evaluations":
        if r.circuit_evaluations is None:
            r.circuit_evaluations = []
        r.circuit_evaluations.append(rng.randint(0, 99))
        return "circuit_evaluations.append"
    if k == "history":
        if r.population_evaluation_results is None:
            r.population_evaluation_results = []
        r.population_evaluation_results.append(jk.from_pv(jk.gen_popeval(rng, 2)))
        return "population_evaluation_results.append"
    if k == "aux":
        a = r.aux_operators_evaluated
        if isinstance(a, list):
            a.append(rng.choice([0.5, 2, None, 1 + 2j]))
            return "aux list.append"
        if isinstance(a, dict):
            a[f"k{len(a)}"] = rng.choice([0.25, 3])
            return "aux dict gets a key"
        r.aux_operators_evaluated = [1.5]
        return "aux set"
    if k == "eigenstate":
        if isinstance(r.eigenstate, QuasiDistribution) and len(r.eigenstate) > 0:
            # an outcome within the measured width (item assignment does not widen a QuasiDistribution)
            r.eigenstate[rng.randrange(2 ** min(3, len(next(iter(r.eigenstate.binary_probabilities())))))] = rng.choice([0.125, 0.5])
            r.eigenstate.shots = rng.choice([None, 7, 512])
            return "eigenstate item and shots changed in place"
        r.eigenstate = QuasiDistribution({"001": 1.0}, shots=3)
        return "eigenstate set"
    if k == "generations":
        r.generations = rng.randint(0, 50)
        return "generations set"
    if k == "species" and pops:
        p = rng.choice(pops)
        rep = rng.choice(p.individuals)
        p.species_representatives.append(rep)
        if p.species_members is not None:
            p.species_members.setdefault(rep, []).append(rng.randrange(len(p.individuals)))
        if p.species_membership is not None:
            p.species_membership[rng.randrange(len(p.individuals))] = rep
        return "a recorded population's species lists/dicts extended in place"
    r.eigenvalue = rng.choice([None, -0.75, 2, 1 - 1j])
    return "eigenvalue set"


def mutate_population(rng, p):
    if p.species_representatives is None or not p.individuals:
        p.species_representatives, p.species_members, p.species_membership = [], {}, {}
        return "species information initialised"
    rep = rng.choice(p.individuals)
    p.species_representatives.append(rep)
    if p.species_members is not None:
        p.species_members.setdefault(rep, []).append(rng.randrange(len(p.individuals)))
    if p.species_membership is not None:
        p.species_membership[rng.randrange(len(p.individuals))] = rep
    return "species lists/dicts extended in place"


def mutate_jssp_result(rng, res):
    """the schedule dict is the caller's object: re-schedule one job in place (same operations, other start times)"""
    from queasars.job_shop_scheduling.problem_instances import ScheduledOperation, UnscheduledOperation

    if not res.schedule:
        return "nothing to change"
    job = rng.choice(list(res.schedule.keys()))
    res.schedule[job] = tuple(UnscheduledOperation(p.operation) if rng.random() < 0.3 else ScheduledOperation(p.operation, rng.choice([0, 1, 4, 9]))
                              for p in res.schedule[job])
    return "schedule[job] replaced in place"


def run_sequence(ctx, case):
    """-> list of Gallina cases. The whole sequence is a function of case['seed']."""
    import gc
    import random

    rng = random.Random(case["seed"])
    jk.reset_dynamic_circuits()
    scenario, out = case["scenario"], []
    label = f"sequence:{scenario}"

    decs = {}

    def step(x, codec_name, k, what, enc=None):
        name, fn = enc if enc else ("dumps(cls)", None)
        if codec_name not in decs:
            decs[codec_name] = decoders_for(rng, codec_name)
        dname, dfn = rng.choice(decs[codec_name])
        g = roundtrip(ctx, case, x, codec_name, label, encode=fn, decode=dfn,
                      note=f"step {k}: {what}; encoded with {name}, decoded with {dname}")
        case.pop("_raw", None)
        if g:
            out.append(g)

    if scenario == "mutate-result":
        r = jk.from_pv(jk.gen_solver_result(rng))
        r.initial_state_circuit = random_circuit(rng, rng.choice([2, 3]), gates=1)
        encs = encoders_for(rng, "result")
        step(r, "result", 0, "fresh result", rng.choice(encs))
        for k in range(1, case["steps"]):
            what = mutate_result(rng, r)
            if rng.random() < 0.3:  # other codecs in between
                step(jk.from_pv(jk.gen_jssp_result(rng)), "jssp", k, "interleaved job-shop result")
            step(r, "result", k, what, rng.choice(encs))
    elif scenario == "mutate-population":
        p = jk.from_pv(jk.gen_population(rng))
        cn = rng.choice(["evqe", "result"])
        encs = encoders_for(rng, cn)
        step(p, cn, 0, "fresh population", rng.choice(encs))
        for k in range(1, case["steps"]):
            step(p, cn, k, mutate_population(rng, p), rng.choice(encs))
    elif scenario == "mutate-jssp":
        res = jk.from_pv(jk.gen_jssp_result(rng))
        encs = encoders_for(rng, "jssp")
        step(res, "jssp", 0, "fresh job-shop result", rng.choice(encs))
        for k in range(1, case["steps"]):
            step(res, "jssp", k, mutate_jssp_result(rng, res), rng.choice(encs))
    elif scenario == "short-lived":
        # many results, each with its own short-lived circuit: distinct circuits of equal size, freed before the next is built
        encs = encoders_for(rng, "result")
        for k in range(case["steps"]):
            r = jk.from_pv(jk.gen_solver_result(rng))
            qc = random_circuit(rng, 2, gates=0)
            qc.rz(0.001 * (k + 1), k % 2)  # distinct from every other iteration's circuit
            for _ in range(k % 3):
                add_gate(rng, qc)
            r.initial_state_circuit = qc
            step(r, "result", k, "new result with a new short-lived circuit", rng.choice(encs))
            if k % 4 == 1:
                step(jk.from_pv(jk.gen_population(rng)), "evqe", k, "interleaved population")
            del r, qc
            gc.collect()
    elif scenario == "colliding-documents":
        # one encoder object and one decoder object handle document after document; the documents hold objects with the same
        # names (job / operation / machine names, circuit structure) but other content
        cn = case["codec"]
        gen = {"jssp": [jk.gen_instance, jk.gen_jssp_result, jk.gen_job, jk.gen_operation], "layer": [jk.gen_layer],
               "evqe": [jk.gen_individual, jk.gen_population], "result": [jk.gen_solver_result, jk.gen_popeval, jk.gen_population]}[cn]
        base = rng.choice(gen)(rng)
        encs = encoders_for(rng, cn)
        for k in range(case["steps"]):
            pv = jk.vary(base, k)
            if rng.random() < 0.3:
                pv = [pv, jk.vary(base, k + 5)]
            step(jk.from_pv(pv), cn, k, "same names, other content" + (" (two in one list)" if isinstance(pv, list) else ""), rng.choice(encs))
    else:
        raise ValueError(scenario)
    return out


# ------------------------------------------------------------------ decoder-only cases: damaged trees
def tree_paths(t, path=()):
    """all (path, node) of dict nodes"""
    if isinstance(t, dict):
        yield path, t
        for k, v in t.items():
            yield from tree_paths(v, path + (k,))
    elif isinstance(t, list):
        for i, v in enumerate(t):
            yield from tree_paths(v, path + (i,))


MARKERS = ["tuple", "dict", "machine_name", "evqe_gate_type", "evqe_qubit_index", "complex_number_real_value", "type",
           "evqe_individual_n_qubits", "quasidistribution_shots", "job_name", "scheduled_start_time", "unscheduled_operation"]


def damage(rng, raw):
    """One small change to an encoded tree that keeps every value of a type the documented fields have."""
    t = copy.deepcopy(raw)
    nodes = [n for _, n in tree_paths(t)]
    if not nodes:
        return None, None
    node = rng.choice(nodes)
    keys = list(node.keys())
    mode = rng.choice(["drop", "drop", "empty-name", "number", "gate-type", "extra-marker", "shorten", "reorder"])
    if mode == "drop" and keys:
        del node[rng.choice(keys)]
    elif mode == "empty-name":
        ks = [k for k in keys if isinstance(node[k], str) and k != "qiskit_quantum_circuit"]
        if not ks:
            return None, None
        node[rng.choice(ks)] = ""
    elif mode == "number":
        ks = [k for k in keys if type(node[k]) is int]
        if not ks:
            return None, None
        node[rng.choice(ks)] = rng.choice([0, -1, 1, 2, 3])
    elif mode == "gate-type":
        if "evqe_gate_type" not in node:
            return None, None
        node["evqe_gate_type"] = rng.choice(["identity", "rotation", "control", "controlled_rotation", "Rotation", ""])
    elif mode == "extra-marker":
        node[rng.choice(MARKERS)] = rng.choice([None, 0, "a", []])
    elif mode == "shorten":
        ks = [k for k in keys if isinstance(node[k], list) and node[k]]
        if not ks:
            return None, None
        node[rng.choice(ks)].pop()
    elif mode == "reorder":
        items = list(node.items())
        rng.shuffle(items)
        node.clear()
        node.update(items)
    else:
        return None, None
    return t, mode


def decode_only(ctx, case):
    _, Dec = codec(case["codec"])
    text = json.dumps(case["tree"])
    try:
        y = json.loads(text, cls=Dec)
        dec = ("ok", jk.to_pv(y))
    except Exception as e:
        dec = ("err", exc_name(e))
    if (dec[0] == "ok" and jk.has_foreign(dec[1])) or not jk.tree_finite(case["tree"]):
        return None
    ctx.tally(f"decode-only:{case.get('mode', '?')}:{'object' if dec[0] == 'ok' else dec[1]}")
    return f"CDecode {KCODEC[case['codec']]} {jk.g_json(jk.tokenise_circuits(case['tree']))} {jk.g_res(dec, jk.g_pv)}"


# ------------------------------------------------------------------ results of real solver runs
SOLVER_CONFIGS = [
    dict(path="estimator", optimizer="NFT", aux="list", seed=0, generations=1),
    dict(path="bitstring", optimizer="COBYLA", aux="dict", seed=1, generations=2, initial_state=1),
    dict(path="sampler", optimizer="COBYLA", aux="none", seed=2, generations=2),
    dict(path="estimator", optimizer="COBYLA", aux="dict", seed=3, generations=2, initial_state=2),
]


def solver_result(cfg):
    from concurrent.futures import ThreadPoolExecutor

    from qiskit.quantum_info import SparsePauliOp
    from qiskit_aer.primitives import EstimatorV2, SamplerV2
    from qiskit_algorithms.optimizers import COBYLA, NFT

    from queasars.circuit_evaluation.bitstring_evaluation import BitstringEvaluator
    from queasars.circuit_evaluation.configured_primitives import ConfiguredEstimatorV2, ConfiguredSamplerV2
    from queasars.minimum_eigensolvers.evqe.evqe import EVQEMinimumEigensolver, EVQEMinimumEigensolverConfiguration

    seed = cfg["seed"]
    opt = NFT(maxiter=6) if cfg["optimizer"] == "NFT" else COBYLA(maxiter=6)
    n = 3 if cfg.get("initial_state") == 2 else (2 if cfg.get("initial_state") == 1 else 2)
    with ThreadPoolExecutor(max_workers=1) as pool:
        conf = EVQEMinimumEigensolverConfiguration(
            configured_sampler=ConfiguredSamplerV2(sampler=SamplerV2(seed=seed), shots=64),
            configured_estimator=ConfiguredEstimatorV2(estimator=EstimatorV2(), precision=0.2) if cfg["path"] == "estimator" else None,
            pass_manager=None, optimizer=opt, optimizer_n_circuit_evaluations=6, max_generations=cfg["generations"],
            max_circuit_evaluations=None, termination_criterion=None, random_seed=seed, population_size=2,
            randomize_initial_population_parameters=True, speciation_genetic_distance_threshold=1, selection_alpha_penalty=0.1,
            selection_beta_penalty=0.1, parameter_search_probability=0.5, topological_search_probability=0.5,
            layer_removal_probability=0.2, parallel_executor=pool, mutually_exclusive_primitives=True)
        solver = EVQEMinimumEigensolver(configuration=conf)
        init = jk.circuits()[cfg["initial_state"]] if "initial_state" in cfg else None
        if cfg["path"] == "bitstring":
            ev = lambda k: BitstringEvaluator(n, lambda b, k=k: float(b.count("1") * k))
            aux = {"list": [ev(2)], "dict": {"twice": ev(2), "type": ev(3)}, "none": None}[cfg["aux"]]
            return solver.compute_minimum_function_value(ev(1), aux_operators=aux, initial_state_circuit=init)
        h = SparsePauliOp.from_list([("Z" * n, 1.0), ("I" * (n - 1) + "Z", 0.5)])
        z = SparsePauliOp("Z" + "I" * (n - 1))
        aux = {"list": [z, h], "dict": {"z": z, "values": h}, "none": None}[cfg["aux"]]
        if init is not None:
            return solver.compute_minimum_eigenvalue_with_initial_state(h, aux_operators=aux, initial_state_circuit=init) if hasattr(solver, "compute_minimum_eigenvalue_with_initial_state") else solver.compute_minimum_eigenvalue(h, aux_operators=aux)
        return solver.compute_minimum_eigenvalue(h, aux_operators=aux)


# ------------------------------------------------------------------ model evaluation
def model_eval(name, glits, chunk=120):
    """-> (indices the model disagrees on, indices of decoder-only cases outside the model's scope,
    indices of round-trip cases whose object satisfies the hypotheses of the round-trip theorems)"""
    # shards balanced by literal size (Coq's time goes into type-checking the literals)
    n_shards = max(1, min(16, len(glits) // 8), sum(len(g) for g in glits) // 2_500_000)
    order = sorted(range(len(glits)), key=lambda i: -len(glits[i]))
    groups, sizes = [[] for _ in range(n_shards)], [0] * n_shards
    for i in order:
        k = sizes.index(min(sizes))
        groups[k].append(i)
        sizes[k] += len(glits[i])
    groups = [sorted(g) for g in groups if g]
    shards = []
    for grp in groups:
        body = ";\n  ".join(glits[i] for i in grp)
        shards.append(
            f"{IMPORTS}\nOpen Scope list_scope.\nDefinition cases : list c18case := [\n  {body}\n].\n"
            "Definition numbered := combine (seq 0 (length cases)) cases.\n"
            "Eval vm_compute in (map fst (filter (fun ic => negb (check_case (snd ic))) numbered)).\n"
            "Eval vm_compute in (map fst (filter (fun ic => out_of_scope (snd ic)) numbered)).\n"
            "Eval vm_compute in (map fst (filter (fun ic => case_covered (snd ic)) numbered)).\n")
    outs = core.coq_eval(name, shards, timeout=900)
    for junk in (core.BUILD / "cases" / (name + core.SCRATCH_SUFFIX)).glob("*.[vg][ol]*"):  # .vo .vok .vos .glob: large, useless
        junk.unlink()
    bad, scope, covered = [], [], []
    for si, out in enumerate(outs):
        ms = re.findall(r"=\s*(\[.*?\]|nil)\s*:\s*list", out, re.S)
        if len(ms) != 3:
            raise RuntimeError("cannot parse Coq output: " + out[:600])
        bad += [groups[si][int(x)] for x in re.findall(r"\d+", ms[0])]
        scope += [groups[si][int(x)] for x in re.findall(r"\d+", ms[1])]
        covered += [groups[si][int(x)] for x in re.findall(r"\d+", ms[2])]
    return sorted(bad), sorted(scope), set(covered)


def do_case(ctx, case):
    """-> Gallina case, list of Gallina cases (sequence) or None"""
    if case["kind"] == "sequence":
        return run_sequence(ctx, case)
    if case["kind"] == "round":
        x = jk.from_pv(case["x"])
        return roundtrip(ctx, case, x, case["codec"], case["label"])
    if case["kind"] == "decode":
        return decode_only(ctx, case)
    if case["kind"] == "solver":
        t0 = time.time()
        try:
            x = solver_result(case["config"])
        except Exception as e:
            ctx.notes.setdefault("solver_run_errors", []).append(f"{case['config']}: {exc_name(e)}: {e}"[:300])
            return None
        ctx.notes.setdefault("solver_run_seconds", []).append(round(time.time() - t0, 1))
        return roundtrip(ctx, case, x, "result", "solver-produced EvolvingAnsatzMinimumEigensolverResult")
    raise ValueError(case["kind"])


def public(case):
    return {k: v for k, v in case.items() if not k.startswith("_")}


def run(ctx):
    translate.check_link(ctx, "C18")  # regenerate Gallina from /repo's current serialization modules; link lemmas coq/link/C18Link.v
    ctx.rule = ("random constructible objects of every class the four encoder/decoder pairs claim (names with quotes, unicode, control "
                "characters and marker-key spellings; ints where floats are documented, integer-valued floats, denormals; None fields; empty "
                "collections; duplicate hash-equal individuals; representatives inside/outside the population; schedule dicts in any order; "
                "start time 0; unscheduled operations), each through every codec that claims its class; damaged encoded trees for the decoders; "
                "results of real solver runs; operation sequences in one process (encode, change a mutable component in place - circuit gate, "
                "list/dict fields, species maps, schedule dict - encode again; series of results with short-lived distinct circuits and gc "
                "between them; two encoder instances, json.dumps(cls=...) and indent; codecs interleaved). distinct = distinct (codec, object); non-trivial = composite objects (not a bare machine/gate)")
    cases = []
    cdir = core.ROOT / "corpus" / "C18"
    for f in sorted(cdir.glob("*.json")) if cdir.exists() else []:
        c = json.loads(f.read_text())
        cases.append(c.get("case", c))
    total = sum(w for *_, w in GENERATORS)
    n_obj = ctx.n(600, 6000)
    for label, codecs, gen, w in GENERATORS:
        for _ in range(max(2, n_obj * w // total)):
            pv = gen(ctx.rng)
            for c in codecs:
                cases.append(dict(kind="round", codec=c, label=label, x=pv))
    for cfg in SOLVER_CONFIGS[: ctx.n(2, 4)]:
        cases.append(dict(kind="solver", config=cfg))
    for scenario, count, steps in (("mutate-result", ctx.n(12, 80), 6), ("mutate-population", ctx.n(4, 30), 4),
                                   ("mutate-jssp", ctx.n(4, 30), 4), ("short-lived", ctx.n(2, 8), ctx.n(40, 120))):
        for _ in range(count):
            cases.append(dict(kind="sequence", scenario=scenario, seed=ctx.rng.randrange(10**9), steps=steps, label=f"sequence:{scenario}"))
    for cn, count in (("jssp", ctx.n(8, 40)), ("layer", ctx.n(2, 10)), ("evqe", ctx.n(4, 20)), ("result", ctx.n(4, 20))):
        for _ in range(count):
            cases.append(dict(kind="sequence", scenario="colliding-documents", codec=cn, seed=ctx.rng.randrange(10**9), steps=4,
                              label="sequence:colliding-documents"))
    glits, kept = [], []
    n_damage = 1
    for c in cases:
        g = do_case(ctx, c)
        label = c.get("label", c["kind"])
        ctx.tally(f"{c.get('codec', 'result')}:{label}")
        nontriv = label not in ("Machine", "Gate")
        fp = public(c)
        ctx.case(fp, nontriv, sample=fp if (nontriv and c["kind"] == "round" and len(json.dumps(fp)) < 1500) else None)
        if isinstance(g, list):
            ctx.evaluations += max(0, len(g) - 1)
            ctx.tally("sequence-steps", len(g))
            for gg in g:
                glits.append(gg)
                kept.append(c)
        elif g is not None:
            glits.append(g)
            kept.append(c)
        raw = c.pop("_raw", None)
        if raw is not None and c.get("label") == "aux outside documented type" and isinstance(raw, dict):
            # the decoder's side: the value under the aux key decodes to a QuasiDistribution (a dict for isinstance, without
            # a "type" key: KeyError), to a list (None) or to an unrecognised dict
            for sub in ({"quasidistribution_data": [[0, 0.5], [3, 0.5]], "quasidistribution_shots": 8, "quasidistribution_stdev_bound": None},
                        [1.0, 2.0], {"type": "tuple", "values": [1.0]}, {"values": [1.0]}):
                t = dict(raw)
                t["evolving_ansatz_result_aux_operators_evaluated"] = sub
                dc = dict(kind="decode", codec="result", tree=t, mode="aux-outside-type")
                g2 = decode_only(ctx, dc)
                ctx.evaluations += 1
                if g2 is not None:
                    glits.append(g2)
                    kept.append(dc)
        if raw is not None and c["kind"] == "round":
            for _ in range(n_damage):
                t, mode = damage(ctx.rng, raw)
                if t is None:
                    continue
                dc = dict(kind="decode", codec=c["codec"], tree=t, mode=mode)
                g = decode_only(ctx, dc)
                ctx.evaluations += 1
                if g is not None:
                    glits.append(g)
                    kept.append(dc)
    # Coq's time and memory go into type-checking the case literals: the model is evaluated on at most MODEL_BYTES of
    # them (corpus and solver results always, the rest drawn evenly); the oracle above has run on every case
    budget, total = ctx.n(12_000_000, 45_000_000), sum(len(g) for g in glits)
    if total > budget:
        order = list(range(len(glits)))
        ctx.rng.shuffle(order)
        order.sort(key=lambda i: kept[i]["kind"] != "solver")
        chosen, used = [], 0
        for i in order:
            if used + len(glits[i]) <= budget:
                chosen.append(i)
                used += len(glits[i])
        chosen.sort()
        glits, kept = [glits[i] for i in chosen], [kept[i] for i in chosen]
        ctx.notes["model_evaluated_on"] = f"{len(chosen)} of {len(order)} cases ({used} of {total} literal bytes)"
    bad, scope, covered = model_eval("C18", glits)
    ctx.notes["decoder_only_cases_outside_model_scope"] = len(scope)
    # every generated object of a class the theorems speak about must satisfy their hypotheses (typed view exists,
    # embeds back to the very object, constructors' checks and key distinctness hold): the theorems are about what the
    # public constructors build, not about a convenient subset
    NOT_IN_THEOREMS = {"complex", "QuantumCircuit", "bare QuasiDistribution", "aux outside documented type", "list document", "dict document"}
    should = [i for i, c in enumerate(kept) if c["kind"] in ("round", "solver") and c.get("label") not in NOT_IN_THEOREMS
              and (c.get("codec", "result"), c.get("label")) not in UNCLAIMED]
    missing = [i for i in should if i not in covered]
    ctx.notes["objects_satisfying_theorem_hypotheses"] = f"{len(should) - len(missing)}/{len(should)}"
    for i in missing[:2]:
        ctx.violation("correspondence", f"outside-theorem-hypotheses-{kept[i].get('label', 'solver')}",
                      "a constructible object of a class the round-trip theorems quantify over does not satisfy their hypotheses "
                      "(typed view / constructors' checks / key distinctness)", public(kept[i]), detail=dict(gallina=glits[i][:3000]))
    ctx.notes["model_cases"] = len(glits)
    seen = set()
    for i in bad:
        c = kept[i]
        key = f"model-vs-impl-{c['kind']}-{c['codec'] if 'codec' in c else 'result'}-{c.get('label', c.get('mode', ''))}"
        if key in seen:
            continue
        seen.add(key)
        if len(seen) > 4:
            break
        try:
            shown = core.model_show("C18", IMPORTS, f"show_case ({glits[i]})")[:3000]
        except Exception as e:  # the literal itself may be what is wrong
            shown = f"model_show failed: {e}"[:500]
        ctx.violation("correspondence", key, "the Coq model of the codec and the implementation answer differently "
                      "(encoded tree or decoded object)", public(c), detail=dict(gallina=glits[i][:3000], model=shown))
    ctx.traces = len(glits)


def replay(ctx, payload):
    if translate.is_link_replay(payload) and not payload.get("failing_input"):
        return translate.replay(ctx, payload, "C18")
    c = payload.get("case") or payload.get("failing_input")
    g = do_case(ctx, c)
    for v in ctx.violations:
        print("oracle:", v["what"])
    print("impl round trip:", "FAILS" if ctx.violations else "ok")
    if g:
        bad, scope, _ = model_eval("C18_replay", g if isinstance(g, list) else [g])
        print("model-vs-impl:", "DIFFER" if bad else ("outside model scope" if scope else "agree"))
    else:
        print("model-vs-impl: not compared (value outside the model, or the encoder raised)")
