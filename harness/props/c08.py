"""C08 — batching wrapper: every call completes under every schedule (no deadlock, no lost wake-up).
Oracle + exploration + correspondence: vlib/batch.py; model: Batch/Monitor.v through the extracted binary."""
from vlib import batch


def run(ctx):
    batch.run_property(ctx, "C08")


def replay(ctx, payload):
    batch.replay_property(ctx, "C08", payload)
