"""C08 — batching wrapper: every call completes under every schedule (no deadlock, no lost wake-up).
Oracle + exploration + correspondence: vlib/batch.py; model: Batch/Monitor.v through the extracted binary."""
from vlib import batch, translate


def run(ctx):
    translate.check_link(ctx, "C06")  # regenerate Gallina from /repo's current mutex_primitives.py; link lemmas coq/link/C06Link.v
    batch.run_property(ctx, "C08")


def replay(ctx, payload):
    if translate.is_link_replay(payload) and not payload.get("failing_input"):
        return translate.replay(ctx, payload, "C06")  # a replay file written for a broken translation tie
    batch.replay_property(ctx, "C08", payload)
