"""C14 — expectation and CVaR aggregation match their definition.

Oracle: the exact CVaR (mean over the lowest-valued alpha mass, `Fraction` arithmetic on count/shots) against both
implementation paths, with exactly the resolution derived in DESIGN.md C14 from the two isclose calls; agreement of the
paths, monotonicity in alpha and the range [smallest sampled value, plain expectation] up to that resolution.
Correspondence: QV.Agg.AggCheck.check_case (the Coq model evaluated on the float inputs' exact rational values, compared
within 1e-9 of the value scale; cases whose isclose decisions lie within 1e-12 of their boundary are skipped, counted)."""
from __future__ import annotations

import json
from fractions import Fraction

from vlib import core
from vlib import translate
from vlib.core import g_list, g_nat, g_q, g_str

IMPORTS = "From QV Require Import Common.Base Agg.Cvar Agg.AggCheck.\nFrom Coq Require Import QArith NArith."
RTOL, ATOL = Fraction(1, 10**5), Fraction(1, 10**8)
EDGE = Fraction(1, 10**12)  # an isclose decision closer than this to its boundary may go either way in floats
FLOAT_SLACK = Fraction(1, 10**12)


# ------------------------------------------------------------------ definitions on Fractions
def value_of(op, state):
    """eigenvalue of the diagonal operator [(coefficient, z-mask)] on the integer basis state"""
    return sum((Fraction(c) * (-1 if bin(mask & state).count("1") % 2 else 1) for c, mask in op), Fraction(0))


def cvar_exact(entries, alpha):
    """entries [(p, v)]: mean of v over the lowest-valued alpha mass"""
    need, tot = alpha, Fraction(0)
    for p, v in sorted(entries, key=lambda e: e[1]):
        take = min(need, p)
        tot += take * v
        need -= take
        if need <= 0:
            break
    return tot / alpha


def isclose_q(a, b):
    tol = ATOL + RTOL * abs(b)
    return abs(a - b) <= tol, abs(abs(a - b) - tol)


def accumulate_exact(entries, alpha):
    """the implementation's loop on exact rationals: (value, smallest distance of an isclose decision from its boundary)"""
    c1, edge = isclose_q(alpha, Fraction(1))
    if not c1:
        entries = sorted(entries, key=lambda e: e[1])
    g = e = Fraction(0)
    for p, v in entries:
        p = min(alpha - g, p)
        e += p * v
        g += p
        c, m = isclose_q(g, alpha)
        edge = min(edge, m)
        if c:
            break
    return e / alpha, edge


def bounds(entries, alpha):
    """(bound operator path, bound bitstring path) on |result - cvar|: the resolution of DESIGN.md C14"""
    vs = [v for _, v in entries]
    V, R = max(abs(v) for v in vs), max(vs) - min(vs)
    close1, _ = isclose_q(alpha, Fraction(1))
    if not close1:
        b = (RTOL + ATOL / alpha) * V
        return b, b
    if alpha == 1:
        return Fraction(0), (Fraction(0) if all(p > RTOL + ATOL for p, _ in entries) else (RTOL + ATOL) * V)
    return (1 - alpha) * R, (RTOL + ATOL) * (R + V) / alpha


# ------------------------------------------------------------------ implementation
def label(mask, n):
    return "".join("Z" if (mask >> q) & 1 else "I" for q in reversed(range(n)))


def bit_function(op, n):
    """the operator's diagonal as a function of the bitstring key (character i is qubit n-1-i), written independently"""
    def f(s):
        total = 0.0
        for c, mask in op:
            sign = 1.0
            for q in range(n):
                if (mask >> q) & 1 and s[n - 1 - q] == "1":
                    sign = -sign
            total += c * sign
        return total
    return f


def impl_paths(case, alpha):
    """[operator path, bitstring path]: float or ('err', class)"""
    from qiskit.quantum_info import SparsePauliOp
    from qiskit.result import ProbDistribution, QuasiDistribution

    from queasars.circuit_evaluation.bitstring_evaluation import BitstringEvaluator
    from queasars.circuit_evaluation.expectation_calculation import get_expectation_with_bitstring_evaluator, get_expectation_with_operator

    n, shots = case["n"], case["shots"]
    data = {k: c / shots for k, c in case["counts"]}
    mk = ProbDistribution if case.get("dist_type") == "prob" else QuasiDistribution
    op = SparsePauliOp.from_list([(label(m, n), c) for c, m in case["op"]])
    ev = BitstringEvaluator(case.get("len", n), bit_function(case["op"], n))
    out = []
    for f in (lambda: get_expectation_with_operator(mk(dict(data), shots=shots), op, alpha),
              lambda: get_expectation_with_bitstring_evaluator(mk(dict(data), shots=shots), ev, alpha)):
        try:
            r = f()
            r = complex(r)
            out.append(("err", "complex-result") if abs(r.imag) > 0 else float(r.real))
        except Exception as e:
            out.append(("err", type(e).__name__))
    return out


def impl_raw(case):
    from queasars.circuit_evaluation.expectation_calculation import _get_expectation

    try:
        return float(_get_expectation([(i, p, v) for i, (p, v) in enumerate(case["entries"])], case["alpha"]))
    except Exception as e:
        return ("err", type(e).__name__)


# ------------------------------------------------------------------ Gallina
def g_res(r):
    return f"(Err {g_str(r[1])})" if isinstance(r, tuple) else f"(Ok {g_q(r)})"


def g_n(k):
    return f"{int(k)}%N"


def g_agg(case, alpha, tol, res):
    shots = case["shots"]
    d = g_list(f"({g_n(int(k, 2))}, {g_q(c / shots)})" for k, c in case["counts"])
    op = g_list(f"({g_q(c)}, {g_n(m)})" for c, m in case["op"])
    return f"CAgg {g_nat(case['n'])} {d} {op} {g_nat(case.get('len', case['n']))} {g_q(alpha)} {g_q(tol)} {g_res(res[0])} {g_res(res[1])}"


def g_raw(case, tol, res):
    return f"CRaw {g_list('(' + g_q(p) + ', ' + g_q(v) + ')' for p, v in case['entries'])} {g_q(case['alpha'])} {g_q(tol)} {g_res(res)}"


# ------------------------------------------------------------------ generators
COEFFS = [0.5, 1.0, -1.0, 2.0, -0.5, 0.25, 1.5, -2.0, 3.0, -0.125]


def gen_counts(rng, n, shots, k):
    """k distinct outcomes with positive counts summing to shots, in random dictionary order"""
    k = max(1, min(k, 2**n, shots))
    states = rng.sample(range(2**n), k)
    cuts = sorted(rng.sample(range(1, shots), k - 1)) if k > 1 else []
    counts = [b - a for a, b in zip([0] + cuts, cuts + [shots])]
    return [[format(s, f"0{n}b"), c] for s, c in zip(states, counts)]


def gen_op(rng, n):
    terms = []
    for _ in range(rng.randint(1, 4)):
        terms.append([rng.choice(COEFFS), rng.randrange(2**n)])
    if rng.random() < 0.3:  # few distinct values -> ties
        terms = [[rng.choice([1.0, 2.0]), 1 << rng.randrange(n)]]
    return terms


def entries_of(case, exact=True):
    shots = case["shots"]
    return [((Fraction(c, shots) if exact else Fraction(c / shots)), value_of(case["op"], int(k, 2))) for k, c in case["counts"]]


def gen_alphas(rng, case):
    shots = case["shots"]
    ent = sorted(entries_of(case), key=lambda e: e[1])
    pool = [1.0, 1.0, 0.5, 0.25, 0.1, 1 - 1e-7, 0.99999, 0.999995, rng.randint(1, shots) / shots, rng.random() or 0.5, rng.choice([1e-3, 0.01, 0.3, 0.7, 0.9])]
    # mass exactly at the boundary / just inside the tolerance of a prefix of the value-sorted distribution
    g = Fraction(0)
    for p, _ in ent[: rng.randint(1, len(ent))]:
        g += p
    pool += [float(g), float(g)]
    for delta in (5e-7, 2e-6, 9e-6, 1.2e-5):
        if float(g) + delta <= 1:
            pool.append(float(g) + delta)
        if float(g) * (1 - delta) > 0:
            pool.append(float(g) * (1 + delta) if float(g) * (1 + delta) <= 1 else float(g) * (1 - delta))
    out = sorted(set(a for a in rng.sample(pool, rng.randint(2, 5)) if 0 < a <= 1))
    return out or [1.0]


def gen_case(rng, big=False):
    n = rng.randint(1, 4)
    if big:  # probabilities at the scale of the isclose tolerance
        shots = rng.choice([10**5, 10**6, 10**6])
        k = rng.randint(2, min(2**n, 5)) if n > 0 else 1
        case_counts = gen_counts(rng, n, shots, k)
        if rng.random() < 0.7 and len(case_counts) > 1:  # one or two outcomes with a handful of shots
            tiny = rng.randint(1, 12)
            i, j = rng.sample(range(len(case_counts)), 2)
            if case_counts[i][1] + case_counts[j][1] > tiny:
                case_counts[j][1] += case_counts[i][1] - tiny
                case_counts[i][1] = tiny
    else:
        shots = rng.choice([1, 2, 4, 8, 10, 100, 1000, 1000, 1024])
        case_counts = gen_counts(rng, n, shots, rng.randint(1, 2**n))
    case = {"type": "agg", "n": n, "shots": shots, "counts": case_counts, "op": gen_op(rng, n), "dist_type": "prob" if rng.random() < 0.15 else "quasi"}
    case["alphas"] = gen_alphas(rng, case)
    r = rng.random()
    if r < 0.02:
        case["alphas"] = [rng.choice([0.0, -0.5, 1.5, 1.0000001])]
    elif r < 0.03 and n > 1:
        case["len"] = n - 1
    return case


def gen_raw(rng):
    k = rng.randint(1, 6)
    shots = rng.choice([4, 8, 10, 100])
    cuts = sorted(rng.sample(range(1, shots), min(k, shots) - 1))
    ps = [(b - a) / shots for a, b in zip([0] + cuts, cuts + [shots])]
    return {"type": "raw", "entries": [[p, rng.choice([-2.0, -1.0, 0.0, 0.5, 1.0, 1.0, 3.0])] for p in ps], "alpha": rng.choice([1.0, 0.5, 0.25, 0.1, 0.99999, rng.randint(1, shots) / shots])}


# ------------------------------------------------------------------ one case
def scale(vs):
    return max([abs(v) for v in vs] + [Fraction(0)])


def do_agg(ctx, case, glits, kept):
    exact = entries_of(case)
    as_float = entries_of(case, exact=False)
    V = scale([v for _, v in exact])
    slack = FLOAT_SLACK * max(V, Fraction(1, 8))
    tol = float(Fraction(1, 10**9) * V + Fraction(1, 10**15))
    E = sum(p * v for p, v in exact)
    lo = min(v for _, v in exact)
    results = []
    for alpha in case["alphas"]:
        res = impl_paths(case, alpha)
        a = Fraction(alpha)
        sub = dict(case, alphas=[alpha])
        ctx.tally("alpha:" + ("invalid" if not 0 < a <= 1 else "1" if a == 1 else "isclose-1" if isclose_q(a, Fraction(1))[0] else "tail"))
        if not 0 < a <= 1:
            for r, path in zip(res, ("operator", "bitstring")):
                if r != ("err", "ValueError"):
                    ctx.violation("oracle", f"{path}-accepts-alpha-out-of-range", f"{path} path: alpha={alpha} outside (0,1] gives {r} instead of ValueError", sub)
            glits.append(g_agg(case, alpha, tol, res))
            kept.append(sub)
            continue
        if case.get("len", case["n"]) != case["n"]:
            ctx.tally("evaluator-length-mismatch")
            glits.append(g_agg(case, alpha, tol, res))  # correspondence only: the evaluator rejects the key length
            kept.append(sub)
            continue
        c = cvar_exact(exact, a)
        b_op, b_bs = bounds(exact, a)
        ok = True
        for r, b, path in zip(res, (b_op, b_bs), ("operator", "bitstring")):
            if isinstance(r, tuple):
                ctx.violation("oracle", f"raises-{path}-{r[1]}", f"{path} path raised {r[1]} for a valid distribution, operator and alpha={alpha}", sub)
                ok = False
            elif abs(Fraction(r) - c) > b + slack:
                ctx.violation("oracle", f"{path}-path-off-definition",
                              f"{path} path returns {r} for alpha={alpha}; the mean over the lowest-valued alpha mass is {float(c)} (allowed resolution {float(b):.3e})", sub,
                              detail=dict(cvar=c, bound=b))
                ok = False
        if ok:
            if abs(Fraction(res[0]) - Fraction(res[1])) > b_op + b_bs + slack:
                ctx.violation("oracle", "paths-disagree", f"operator path {res[0]} and bitstring path {res[1]} differ by more than both resolutions (alpha={alpha})", sub)
            for r, b, path in zip(res, (b_op, b_bs), ("operator", "bitstring")):
                if not lo - b - slack <= Fraction(r) <= E + b + slack:
                    ctx.violation("oracle", f"{path}-outside-range", f"{path} path value {r} outside [smallest sampled value {float(lo)}, plain expectation {float(E)}] (alpha={alpha})", sub)
            results.append((a, res, (b_op, b_bs)))
        # correspondence: skip when an isclose decision is within EDGE of its boundary
        _, e1 = accumulate_exact(as_float, a)
        _, e2 = accumulate_exact(sorted(as_float, key=lambda e: e[1]), a)
        if min(e1, e2) <= EDGE:
            ctx.tally("skipped:isclose-boundary")
        else:
            early = accumulate_exact(as_float, a)[0] != cvar_exact(as_float, a) if not isclose_q(a, Fraction(1))[0] else False
            if early:
                ctx.tally("branch:tolerance-break-drops-mass")
            glits.append(g_agg(case, alpha, tol, res))
            kept.append(sub)
    for (a1, r1, b1), (a2, r2, b2) in zip(results, results[1:]):
        for i, path in enumerate(("operator", "bitstring")):
            if Fraction(r1[i]) > Fraction(r2[i]) + b1[i] + b2[i] + slack:
                ctx.violation("oracle", f"{path}-not-monotone", f"{path} path decreases in alpha: {r1[i]} at {float(a1)} > {r2[i]} at {float(a2)}", dict(case, alphas=[float(a1), float(a2)]))
    ctx.tally(f"shots:{case['shots']}")
    ctx.tally(f"outcomes:{len(case['counts'])}")
    if len({v for _, v in exact}) < len(exact):
        ctx.tally("ties-in-value")


def do_raw(ctx, case, glits, kept):
    ent = [(Fraction(p), Fraction(v)) for p, v in case["entries"]]
    a = Fraction(case["alpha"])
    r = impl_raw(case)
    V = scale([v for _, v in ent])
    _, edge = accumulate_exact(ent, a)
    ctx.tally("raw")
    if isinstance(r, tuple):
        ctx.violation("oracle", f"raises-raw-{r[1]}", f"_get_expectation raised {r[1]}", case)
    else:
        c = cvar_exact(ent, a)  # float probabilities sum to 1 within rounding
        b = bounds(ent, a)[1]
        if abs(Fraction(r) - c) > b + FLOAT_SLACK * max(V, 1) * 1000:
            ctx.violation("oracle", "raw-off-definition", f"_get_expectation returns {r}, definition {float(c)}", case)
    if edge <= EDGE:
        ctx.tally("skipped:isclose-boundary")
        return
    glits.append(g_raw(case, float(Fraction(1, 10**9) * V + Fraction(1, 10**15)), r))
    kept.append(case)


def do_case(ctx, case, glits, kept):
    (do_agg if case["type"] == "agg" else do_raw)(ctx, case, glits, kept)


def run(ctx):
    translate.check_link(ctx, "C14")  # regenerate Gallina from /repo's current source; link lemmas coq/link/C14Link.v
    ctx.rule = ("distributions from shot counts (shots in {1,2,4,8,10,100,1000,1024} and 1e5/1e6 for the tolerance branch; 1..2^n outcomes, n<=4, random dictionary order, ties) x diagonal "
                "SparsePauliOp with small dyadic coefficients and its diagonal as bitstring function x 2-5 alphas from {1, 1/2, 1/4, 0.1, 1-1e-7, 0.99999, c/shots, prefix masses of the "
                "sorted distribution and values just beside them, random}; both paths per alpha; distinct = distinct (distribution, operator, alphas); non-trivial = at least two outcomes")
    cases = []
    cdir = core.ROOT / "corpus" / "C14"
    for fpath in sorted(cdir.glob("*.json")) if cdir.exists() else []:
        c = json.loads(fpath.read_text())
        cases.append(c.get("case", c))
    for _ in range(ctx.n(450, 14000)):
        cases.append(gen_case(ctx.rng))
    for _ in range(ctx.n(150, 5000)):
        cases.append(gen_case(ctx.rng, big=True))
    for _ in range(ctx.n(100, 2000)):
        cases.append(gen_raw(ctx.rng))
    glits, kept = [], []
    for c in cases:
        do_case(ctx, c, glits, kept)
        ctx.case(c, len(c["counts"] if c["type"] == "agg" else c["entries"]) >= 2, sample=c if len(ctx.samples) < 3 else None)
    bad = core.model_mismatches("C14", IMPORTS, "check_case", glits, chunk=200)
    for i in bad[:5]:
        ctx.violation("correspondence", "model-vs-impl", "the Coq model of expectation_calculation.py and the implementation return different values", kept[i],
                      detail=dict(gallina=glits[i][:3000]))
    ctx.traces = len(glits)
    ctx.notes["skipped_isclose_boundary"] = ctx.dist.get("skipped:isclose-boundary", 0)
    ctx.notes["evaluations_per_case"] = "every case evaluates both implementation paths for each of its alphas; traces_validated counts (case, alpha) pairs compared with the model"


def replay(ctx, payload):
    if translate.is_link_replay(payload) and not payload.get("failing_input"):
        return translate.replay(ctx, payload, "C14")  # a replay file written for a broken translation tie
    c = payload.get("case") or payload.get("failing_input")
    glits, kept = [], []
    do_case(ctx, c, glits, kept)
    for v in ctx.violations:
        print("FAILS —", v["what"])
    print("impl-vs-definition:", "FAILS" if ctx.violations else "ok")
    if glits:
        bad = core.model_mismatches("C14_replay", IMPORTS, "check_case", glits)
        print("model-vs-impl:", "DIFFER" if bad else "agree")
        print("model:", core.model_show("C14_replay", IMPORTS, "map show_case " + g_list(glits)))
