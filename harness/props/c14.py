"""C14 — expectation and CVaR aggregation match their definition.

Oracle: the exact CVaR (mean over the lowest-valued alpha mass, `Fraction` arithmetic on count/shots) against both
implementation paths, with exactly the resolution derived in DESIGN.md C14 from the two isclose calls; agreement of the
paths, monotonicity in alpha and the range [smallest sampled value, plain expectation] up to that resolution.
Correspondence: QV.Agg.AggCheck.check_case (the Coq model evaluated on the float inputs' exact rational values, compared
within 1e-9 of the value scale; cases whose isclose decisions lie within 1e-12 of their boundary are skipped, counted)."""
from __future__ import annotations

import json
from fractions import Fraction

from vlib import core
from vlib import translate
from vlib.core import g_list, g_nat, g_q, g_str

IMPORTS = "From QV Require Import Common.Base Agg.Cvar Agg.AggCheck.\nFrom Coq Require Import QArith NArith."
RTOL, ATOL = Fraction(1, 10**5), Fraction(1, 10**8)
EDGE = Fraction(1, 10**12)  # an isclose decision closer than this (relative to its reference) to its boundary may go either way in floats
FLOAT_SLACK = Fraction(1, 10**12)


# ------------------------------------------------------------------ definitions on Fractions
def value_of(op, state):
    """eigenvalue of the diagonal operator [(coefficient, z-mask)] on the integer basis state"""
    return sum((Fraction(c) * (-1 if bin(mask & state).count("1") % 2 else 1) for c, mask in op), Fraction(0))


def cvar_exact(entries, alpha):
    """entries [(p, v)]: mean of v over the lowest-valued alpha mass"""
    need, tot = alpha, Fraction(0)
    for p, v in sorted(entries, key=lambda e: e[1]):
        take = min(need, p)
        tot += take * v
        need -= take
        if need <= 0:
            break
    return tot / alpha


def isclose_q(a, b, atol=ATOL):
    tol = atol + RTOL * abs(b)
    # second component: distance of the decision from its boundary, relative to |b| (float errors are relative)
    return abs(a - b) <= tol, abs(abs(a - b) - tol) / (abs(b) if b else 1)


def accumulate_exact(entries, alpha):
    """the implementation's loop on exact rationals: (value, smallest distance of an isclose decision from its boundary)"""
    c1, edge = isclose_q(alpha, Fraction(1))
    if not c1:
        entries = sorted(entries, key=lambda e: e[1])
    g = e = Fraction(0)
    for p, v in entries:
        p = min(alpha - g, p)
        e += p * v
        g += p
        c, m = isclose_q(g, alpha, atol=0)  # isclose(gathered, alpha, atol=0)
        edge = min(edge, m)
        if c:
            break
    return e / alpha, edge


def no_break_possible(entries, alpha):
    """premise of C14_exact_when_no_break (entries in dictionary order, sorted stably like the code does): alpha is not
    isclose to 1 and after every non-empty prefix of the value-sorted states that does not yet reach alpha the missing
    mass is larger than the isclose tolerance, so the accumulation can only stop by reaching alpha exactly.  Then the
    result IS the definition (no resolution allowance); in particular for alpha below every probability it is the
    smallest value (C14_exact_below_smallest_probability)."""
    if isclose_q(alpha, Fraction(1))[0]:
        return False
    # States of EQUAL exact value may be visited in any order: the implementation computes their values in floats, which
    # can differ in the last bit for non-dyadic coefficients, so its stable sort need not keep the dictionary order.
    # The premise is therefore demanded for every order of the ties: every sum of a subset of a tie group is a
    # possible prefix mass.
    groups = {}
    for p, v in entries:
        groups.setdefault(v, []).append(p)
    g = Fraction(0)
    for v in sorted(groups):
        ps = groups[v]
        if len(ps) > 10:
            return False  # too many orders to enumerate: no exactness claimed
        sums = {Fraction(0)}
        for p in ps:
            sums |= {x + p for x in sums}
        for x in sums:
            if x and g + x < alpha and alpha - (g + x) <= (RTOL + EDGE) * alpha:
                return False
        g += sum(ps)
        if g >= alpha:
            return True
    return False  # the mass never reaches alpha (float probabilities summing to slightly less than alpha)


def break_can_differ(entries, alpha):
    """model and implementation may stop the accumulation at different states: there are ties in value (whose order the
    float evaluation of the values may change) and a tolerance break is possible.  Both results are then within the
    proved resolution of the definition, but not necessarily of each other at 1e-9."""
    vs = [v for _, v in entries]
    return len(set(vs)) < len(vs) and not isclose_q(alpha, Fraction(1))[0] and not no_break_possible(entries, alpha)


def bounds(entries, alpha):
    """(bound operator path, bound bitstring path) on |result - cvar|: the resolution of DESIGN.md C14"""
    vs = [v for _, v in entries]
    V, R = max(abs(v) for v in vs), max(vs) - min(vs)
    close1, _ = isclose_q(alpha, Fraction(1))
    if not close1:
        b = RTOL * V  # C14_exact_or_close: within the relative resolution 1e-5 of the value scale
        return b, b
    if alpha == 1:
        return Fraction(0), (Fraction(0) if all(p > RTOL for p, _ in entries) else RTOL * V)  # C14_alpha_one_bitstring_sharp
    return (1 - alpha) * R, (RTOL + ATOL) * (R + V) / alpha


# ------------------------------------------------------------------ implementation
def label(mask, n):
    return "".join("Z" if (mask >> q) & 1 else "I" for q in reversed(range(n)))


def bit_function(op, n):
    """the operator's diagonal as a function of the bitstring key (character i is qubit n-1-i), written independently"""
    def f(s):
        total = 0.0
        for c, mask in op:
            sign = 1.0
            for q in range(n):
                if (mask >> q) & 1 and s[n - 1 - q] == "1":
                    sign = -sign
            total += c * sign
        return total
    return f


def read_result(r):
    """an implementation output as a finite float, or ('err', reason): nothing the implementation returns may crash the
    harness (nan, inf, None, complex, arrays, strings ...)"""
    import math

    import numpy as np

    try:
        if r is None or isinstance(r, (str, bytes, bool, np.bool_)):
            return ("err", "unreadable-result-" + type(r).__name__)
        if isinstance(r, np.ndarray):
            if r.size != 1:
                return ("err", "unreadable-result-ndarray")
            r = r.reshape(()).item()
        c = complex(r)
    except Exception:
        return ("err", "unreadable-result-" + type(r).__name__)
    if c.imag != 0:  # also true for a nan imaginary part
        return ("err", "complex-result")
    if not math.isfinite(c.real):
        return ("err", "non-finite-result")
    return float(c.real)


def build_operator(case):
    """the SparsePauliOp of the case: from_list of all terms, or SparsePauliOp.sum of its parts (unsimplified), with
    complex coefficients of zero imaginary part for the 'complex' family"""
    from qiskit.quantum_info import SparsePauliOp

    n = case["n"]
    cx = (lambda c: complex(c, 0.0)) if case.get("op_family") == "complex-coefficients" else (lambda c: c)
    if case.get("op_parts"):
        return SparsePauliOp.sum([SparsePauliOp.from_list([(label(m, n), cx(c)) for c, m in part]) for part in case["op_parts"]])
    return SparsePauliOp.from_list([(label(m, n), cx(c)) for c, m in case["op"]])


def conv_alpha(case, alpha):
    import numpy as np

    return np.float64(alpha) if case.get("alpha_np") else alpha


def impl_paths(case, alpha):
    """[operator path, bitstring path]: float or ('err', class)"""
    from qiskit.result import ProbDistribution, QuasiDistribution

    from queasars.circuit_evaluation.bitstring_evaluation import BitstringEvaluator
    from queasars.circuit_evaluation.expectation_calculation import get_expectation_with_bitstring_evaluator, get_expectation_with_operator

    n, shots = case["n"], case["shots"]
    data = {k: c / shots for k, c in case["counts"]}
    mk = ProbDistribution if case.get("dist_type") == "prob" else QuasiDistribution
    op = build_operator(case)
    alpha = conv_alpha(case, alpha)
    ev = BitstringEvaluator(case.get("len", n), bit_function(case["op"], n))
    out = []
    for f in (lambda: get_expectation_with_operator(mk(dict(data), shots=shots), op, alpha),
              lambda: get_expectation_with_bitstring_evaluator(mk(dict(data), shots=shots), ev, alpha)):
        try:
            out.append(read_result(f()))
        except Exception as e:
            out.append(("err", type(e).__name__))
    return out


def impl_ctor(case):
    """the two circuit evaluators' constructors check alpha as well: 'ok' or ('err', class) for [operator, bitstring]"""
    from qiskit.primitives import StatevectorSampler

    from queasars.circuit_evaluation.bitstring_evaluation import BitstringEvaluator
    from queasars.circuit_evaluation.circuit_evaluation import BitstringCircuitEvaluator, OperatorSamplerCircuitEvaluator

    alpha = conv_alpha(case, case["alpha"])
    op = build_operator(dict(n=1, op=[[1.0, 1]]))
    out = []
    for f in (lambda: OperatorSamplerCircuitEvaluator(StatevectorSampler(), 16, op, alpha),
              lambda: BitstringCircuitEvaluator(StatevectorSampler(), 16, BitstringEvaluator(1, lambda s: 1.0), alpha)):
        try:
            f()
            out.append("ok")
        except Exception as e:
            out.append(("err", type(e).__name__))
    return out


def impl_raw(case):
    from queasars.circuit_evaluation.expectation_calculation import _get_expectation

    try:
        return read_result(_get_expectation([(i, p, v) for i, (p, v) in enumerate(case["entries"])], case["alpha"]))
    except Exception as e:
        return ("err", type(e).__name__)


# ------------------------------------------------------------------ Gallina
def g_res(r):
    return f"(Err {g_str(r[1])})" if isinstance(r, tuple) else f"(Ok {g_q(r)})"


def g_n(k):
    return f"{int(k)}%N"


def g_agg(case, alpha, tol, res):
    shots = case["shots"]
    d = g_list(f"({g_n(int(k, 2))}, {g_q(c / shots)})" for k, c in case["counts"])
    op = g_list(f"({g_q(c)}, {g_n(m)})" for c, m in case["op"])
    return f"CAgg {g_nat(case['n'])} {d} {op} {g_nat(case.get('len', case['n']))} {g_q(alpha)} {g_q(tol)} {g_res(res[0])} {g_res(res[1])}"


def g_raw(case, tol, res):
    return f"CRaw {g_list('(' + g_q(p) + ', ' + g_q(v) + ')' for p, v in case['entries'])} {g_q(case['alpha'])} {g_q(tol)} {g_res(res)}"


# ------------------------------------------------------------------ generators
COEFFS = [0.5, 1.0, -1.0, 2.0, -0.5, 0.25, 1.5, -2.0, 3.0, -0.125]


def gen_counts(rng, n, shots, k):
    """k distinct outcomes with positive counts summing to shots, in random dictionary order"""
    k = max(1, min(k, 2**n, shots))
    states = rng.sample(range(2**n), k)
    cuts = sorted(rng.sample(range(1, shots), k - 1)) if k > 1 else []
    counts = [b - a for a, b in zip([0] + cuts, cuts + [shots])]
    return [[format(s, f"0{n}b"), c] for s, c in zip(states, counts)]


OP_FAMILIES = ["distinct-strings", "distinct-strings", "single-z", "duplicate-strings", "cancelling-duplicates", "identity-repeated",
               "unsimplified-sum", "complex-coefficients", "scaled", "scaled"]
SCALES = [1e-12, 1e-9, 1e-6, 1e-3, 1e3, 1e6, 1e12]


def gen_op(rng, n, family=None):
    """(family, terms [[coefficient, z-mask]], parts or None).  The value of a state is the SUM over ALL terms: repeated
    Pauli strings add up (the library's own JSSP encoder produces such unsimplified operators)."""
    family = family or rng.choice(OP_FAMILIES)
    masks = rng.sample(range(2**n), min(2**n, rng.randint(1, 4)))
    terms = [[rng.choice(COEFFS), m] for m in masks]
    parts = None
    if family == "single-z":  # few distinct values -> ties
        terms = [[rng.choice([1.0, 2.0]), 1 << rng.randrange(n)]]
    elif family == "duplicate-strings":  # the same Pauli string in several terms, different coefficients
        for _ in range(rng.randint(1, 3)):
            terms.append([rng.choice(COEFFS), rng.choice(masks)])
        rng.shuffle(terms)
    elif family == "cancelling-duplicates":  # a repeated string whose coefficients cancel to zero (last one non-zero)
        c, m = rng.choice(terms)
        terms += [[-c, m]] if rng.random() < 0.5 else [[c, m], [-2 * c, m]]
        rng.shuffle(terms)
    elif family == "identity-repeated":  # the identity string (constant offset) several times
        terms += [[rng.choice(COEFFS), 0] for _ in range(rng.randint(2, 3))]
        rng.shuffle(terms)
    elif family == "unsimplified-sum":  # SparsePauliOp.sum of partial operators sharing strings, not simplified
        parts = [[[rng.choice(COEFFS), rng.choice(masks)] for _ in range(rng.randint(1, 3))] for _ in range(rng.randint(2, 4))]
        terms = [t for part in parts for t in part]
    elif family == "scaled":  # the property is relative: the same operator at an overall scale of 1e-12 .. 1e12
        sc = rng.choice(SCALES)
        terms += [[rng.choice(COEFFS), rng.choice(masks)]] if rng.random() < 0.5 else []
        terms = [[c * sc, m] for c, m in terms]
    elif family == "complex-coefficients":  # complex coefficients with zero imaginary part, one string repeated
        terms.append([rng.choice(COEFFS), rng.choice(masks)])
    return family, terms, parts


def entries_of(case, exact=True):
    shots = case["shots"]
    return [((Fraction(c, shots) if exact else Fraction(c / shots)), value_of(case["op"], int(k, 2))) for k, c in case["counts"]]


ALPHA_TINY = [1e-12, 1e-10, 1e-9, 5e-9, 1e-8, 2e-8, 1e-7, 1e-6]


def gen_alphas(rng, case):
    shots = case["shots"]
    ent = sorted(entries_of(case), key=lambda e: e[1])
    pool = [1.0, 1.0, 0.5, 0.25, 0.1, 1 - 1e-7, 0.99999, 0.999995, rng.randint(1, shots) / shots, rng.random() or 0.5, rng.choice([1e-3, 0.01, 0.3, 0.7, 0.9])]
    # mass exactly at the boundary / just inside the tolerance of a prefix of the value-sorted distribution
    g = Fraction(0)
    for p, _ in ent[: rng.randint(1, len(ent))]:
        g += p
    pool += [float(g), float(g)]
    for delta in (5e-7, 2e-6, 9e-6, 1.2e-5):
        if float(g) + delta <= 1:
            pool.append(float(g) + delta)
        if float(g) * (1 - delta) > 0:
            pool.append(float(g) * (1 + delta) if float(g) * (1 + delta) <= 1 else float(g) * (1 - delta))
    out = sorted(set(a for a in rng.sample(pool, rng.randint(2, 5)) if 0 < a <= 1))
    return out or [1.0]


def gen_case(rng, big=False):
    n = rng.randint(1, 4)
    if big:  # probabilities at the scale of the isclose tolerance
        shots = rng.choice([10**5, 10**6, 10**6])
        k = rng.randint(2, min(2**n, 5)) if n > 0 else 1
        case_counts = gen_counts(rng, n, shots, k)
        if rng.random() < 0.7 and len(case_counts) > 1:  # one or two outcomes with a handful of shots
            tiny = rng.randint(1, 12)
            i, j = rng.sample(range(len(case_counts)), 2)
            if case_counts[i][1] + case_counts[j][1] > tiny:
                case_counts[j][1] += case_counts[i][1] - tiny
                case_counts[i][1] = tiny
    else:
        shots = rng.choice([1, 2, 4, 8, 10, 100, 1000, 1000, 1024])
        case_counts = gen_counts(rng, n, shots, rng.randint(1, 2**n))
    family, terms, parts = gen_op(rng, n)
    case = {"type": "agg", "n": n, "shots": shots, "counts": case_counts, "op": terms, "op_family": family, "dist_type": "prob" if rng.random() < 0.15 else "quasi"}
    if parts:
        case["op_parts"] = parts
    case["alphas"] = gen_alphas(rng, case)
    if rng.random() < 0.15:  # tail fractions far below every probability (and below numpy's atol): the value is the minimum
        case["alphas"] = sorted(rng.sample(ALPHA_TINY, rng.randint(2, 4)))
    r = rng.random()
    if r < 0.04:
        case["alphas"] = [rng.choice(ALPHA_OUTSIDE)]
        case["alpha_np"] = rng.random() < 0.3
    elif r < 0.07 and n > 1:
        case["len"] = n - 1  # the evaluator's input length differs from the key width: BitstringEvaluatorException
    return case


# alpha outside (0, 1]: every public entry point documents and raises ValueError("alpha must be in the range (0, 1]!")
ALPHA_OUTSIDE = [0, 0.0, -0.0, -1e-300, -5e-324, -0.5, -1.0, 1.0000000000000002, 1.0000001, 1.5, 2, 1e300]
ALPHA_EDGE_INSIDE = [1, 1.0, 0.9999999999999999, 1e-3]


def boundary_cases():
    """every boundary value of alpha on a fixed small distribution (both aggregation functions) and on both circuit
    evaluator constructors, as Python number and as numpy.float64"""
    for np_ in (False, True):
        for a in ALPHA_OUTSIDE + ALPHA_EDGE_INSIDE:
            yield {"type": "agg", "n": 2, "shots": 4, "counts": [["01", 1], ["10", 2], ["11", 1]], "op": [[1.0, 1], [0.5, 2], [1.0, 1]],
                   "op_family": "duplicate-strings", "dist_type": "quasi", "alphas": [a], "alpha_np": np_}
            yield {"type": "ctor", "alpha": a, "alpha_np": np_}


def gen_bits(rng):
    """correspondence only: an int-keyed distribution (not what measure_quasi_distributions produces); Qiskit pads the
    keys to the bit length of the LARGEST key, so an evaluator for a wider register rejects them"""
    n = rng.randint(1, 4)
    k = rng.randint(1, min(3, 2**n))
    width = rng.randint(0, n)  # largest key below 2**width
    keys = rng.sample(range(2**width), min(k, 2**width))
    shots = rng.choice([2, 4, 8, 10])
    cuts = sorted(rng.sample(range(1, shots), min(len(keys), shots) - 1))
    counts = [b - a for a, b in zip([0] + cuts, cuts + [shots])]
    keys = keys[: len(counts)]
    family, terms, parts = gen_op(rng, n, rng.choice(["distinct-strings", "duplicate-strings", "single-z"]))
    return {"type": "bits", "n": n, "shots": shots, "int_counts": [[k_, c] for k_, c in zip(keys, counts)], "op": terms, "op_family": family,
            "alpha": rng.choice([1.0, 0.5, 0.25, 1.0])}


def impl_bits(case):
    from qiskit.result import QuasiDistribution

    from queasars.circuit_evaluation.bitstring_evaluation import BitstringEvaluator
    from queasars.circuit_evaluation.expectation_calculation import get_expectation_with_bitstring_evaluator

    n, shots = case["n"], case["shots"]
    dist = QuasiDistribution({int(k): c / shots for k, c in case["int_counts"]}, shots=shots)
    try:
        return read_result(get_expectation_with_bitstring_evaluator(dist, BitstringEvaluator(n, bit_function(case["op"], n)), case["alpha"]))
    except Exception as e:
        return ("err", type(e).__name__)


def do_bits(ctx, case, glits, kept):
    shots = case["shots"]
    r = impl_bits(case)
    vs = [value_of(case["op"], int(k)) for k, _ in case["int_counts"]]
    widest = max(max(int(k) for k, _ in case["int_counts"]).bit_length(), 1)
    ctx.tally("int-keys:" + ("full-width" if widest == case["n"] else "narrower-than-register"))
    d = g_list(f"({g_n(int(k))}, {g_q(c / shots)})" for k, c in case["int_counts"])
    op = g_list(f"({g_q(c)}, {g_n(m)})" for c, m in case["op"])
    tol = float(Fraction(1, 10**9) * scale(vs) + Fraction(1, 10**15))
    glits.append(f"CBits None {d} {op} {g_nat(case['n'])} {g_q(case['alpha'])} {g_q(tol)} {g_res(r)}")
    kept.append(case)


def gen_wide(rng):
    """wide registers (54-80 qubits): a handful of outcomes with high bits set that differ in their LOW bits, operators
    acting on low and on high qubits — integer states beyond 2^53 must keep every bit (no detour through floats)"""
    n = rng.randint(54, 80)
    k = rng.randint(2, 5)
    high = (1 << (n - 1)) | (rng.getrandbits(n - 60) << 59 if n > 60 else 0) | (1 << 53)
    lows = rng.sample(range(64), k)
    states = [high | lo for lo in lows]
    if rng.random() < 0.3:
        states[-1] = rng.getrandbits(n - 1)  # one unrelated state
    states = list(dict.fromkeys(states))
    shots = rng.choice([8, 100, 1000])
    cuts = sorted(rng.sample(range(1, shots), len(states) - 1))
    counts = [[format(s_, f"0{n}b"), b - a] for s_, a, b in zip(states, [0] + cuts, cuts + [shots])]
    rng.shuffle(counts)
    terms = [[rng.choice(COEFFS), 1 << rng.randrange(6)] for _ in range(rng.randint(1, 3))]          # low qubits
    terms += [[rng.choice(COEFFS), rng.choice([1 << (n - 1), 1 << 53, (1 << (n - 2)) | 1, 3])] for _ in range(rng.randint(0, 2))]
    rng.shuffle(terms)
    case = {"type": "agg", "n": n, "shots": shots, "counts": counts, "op": terms, "op_family": "wide-register", "dist_type": "quasi"}
    case["alphas"] = sorted(set(rng.sample([1e-3, 0.25, 0.5, rng.randint(1, shots) / shots, 0.99999, 1.0, 0.75], rng.randint(2, 4))))
    return case


EVALUATOR_FORMS = ["plain", "subclass-overrides-evaluate_bitstring", "instance-evaluate_bitstring-wrapped", "callable-object", "functools-partial", "bound-method"]


def gen_evalform(rng):
    """the bitstring path must use what evaluate_bitstring returns — also for a subclass overriding it (here: a penalty on
    top of super()) or an instance whose evaluate_bitstring was wrapped; and any callable is a valid evaluation function"""
    n = rng.randint(1, 4)
    shots = rng.choice([4, 8, 10, 100, 1000])
    form = rng.choice(EVALUATOR_FORMS + EVALUATOR_FORMS[1:3])
    _, terms, _ = gen_op(rng, n, rng.choice(["distinct-strings", "duplicate-strings", "single-z"]))
    pen = []
    if form in EVALUATOR_FORMS[1:3]:  # the penalty, itself a diagonal function of the key
        pen = [[rng.choice([2.0, 4.0, -3.0, 0.5]), 1 << rng.randrange(n)], [rng.choice([1.0, 2.0]), 0]]
    return {"type": "evalform", "n": n, "shots": shots, "counts": gen_counts(rng, n, shots, rng.randint(2, 2**n) if n > 1 else 2), "op": terms, "penalty": pen, "form": form,
            "alpha": rng.choice([1.0, 0.5, 0.25, 0.1, rng.randint(1, shots) / shots, 0.99999])}


def build_evaluator(case):
    import functools

    from queasars.circuit_evaluation.bitstring_evaluation import BitstringEvaluator

    n, form = case["n"], case["form"]
    f, pen = bit_function(case["op"], n), bit_function(case["penalty"], n)
    if form == "plain":
        return BitstringEvaluator(n, f)
    if form == "subclass-overrides-evaluate_bitstring":
        class PenalisedEvaluator(BitstringEvaluator):
            def evaluate_bitstring(self, bitstring: str) -> float:
                return super().evaluate_bitstring(bitstring=bitstring) + pen(bitstring)

        return PenalisedEvaluator(n, f)
    if form == "instance-evaluate_bitstring-wrapped":
        ev = BitstringEvaluator(n, f)
        original = ev.evaluate_bitstring
        ev.evaluate_bitstring = lambda bitstring: original(bitstring=bitstring) + pen(bitstring)
        return ev
    if form == "callable-object":
        class Objective:
            def __call__(self, bitstring):
                return f(bitstring)

        return BitstringEvaluator(n, Objective())
    if form == "functools-partial":
        return BitstringEvaluator(n, functools.partial(lambda scale_, bitstring: scale_ * f(bitstring), 1.0))

    class Holder:
        def objective(self, bitstring):
            return f(bitstring)

    return BitstringEvaluator(n, Holder().objective)


def do_evalform(ctx, case, glits, kept):
    from qiskit.result import QuasiDistribution

    from queasars.circuit_evaluation.expectation_calculation import get_expectation_with_bitstring_evaluator

    n, shots, alpha = case["n"], case["shots"], case["alpha"]
    total = case["op"] + case["penalty"]  # what evaluate_bitstring returns for this evaluator
    try:
        r = read_result(get_expectation_with_bitstring_evaluator(QuasiDistribution({k: c / shots for k, c in case["counts"]}, shots=shots), build_evaluator(case), alpha))
    except Exception as e:
        r = ("err", type(e).__name__)
    ctx.tally("evaluator-form:" + case["form"])
    exact = [(Fraction(c, shots), value_of(total, int(k, 2))) for k, c in case["counts"]]
    as_float = [(Fraction(c / shots), v) for (k, c), (_, v) in zip(case["counts"], exact)]
    a = Fraction(alpha)
    S = sum((abs(Fraction(c_)) for c_, _ in total), Fraction(0))
    slack = FLOAT_SLACK * S
    if isinstance(r, tuple):
        ctx.violation("oracle", f"raises-bitstring-{r[1]}", f"bitstring path raised {r[1]} with evaluator form '{case['form']}'", case)
    else:
        c, b = cvar_exact(exact, a), bounds(exact, a)[1]
        if no_break_possible(as_float, a):
            c, b = cvar_exact(as_float, a), Fraction(0)
            slack += Fraction(1, 10**15) / a * S
        if abs(Fraction(r) - c) > b + slack:
            ctx.violation("oracle", "bitstring-path-ignores-evaluate_bitstring" if case["penalty"] else "bitstring-path-off-definition",
                          f"bitstring path returns {r} with evaluator form '{case['form']}'; aggregating what evaluate_bitstring returns gives {float(c)} (alpha={alpha})", case)
    _, e1 = accumulate_exact(as_float, a)
    if e1 <= EDGE:
        ctx.tally("skipped:isclose-boundary")
        return
    d = g_list(f"({g_n(int(k, 2))}, {g_q(c / shots)})" for k, c in case["counts"])
    op = g_list(f"({g_q(c)}, {g_n(m)})" for c, m in total)
    tol = Fraction(1, 10**9) * S + Fraction(1, 10**40) + (2 * bounds(exact, a)[1] if break_can_differ(as_float, a) else 0)
    glits.append(f"CBits (Some {g_nat(n)}) {d} {op} {g_nat(n)} {g_q(alpha)} {g_q(tol)} {g_res(r)}")
    kept.append(case)


def gen_small_tail(rng):
    """a handful of shots on the lowest value, alpha just beyond their mass: the missing mass (a few 1e-9) is far above
    the relative tolerance rtol*alpha but within numpy's absolute tolerance 1e-8 — the pre-fix break (fix 254e190)
    stopped here and was off by up to 1e-3 of the value scale"""
    n = rng.randint(1, 3)
    shots = rng.choice([10**5, 10**6])
    c = rng.randint(1, 8 if shots == 10**5 else 80)
    low = rng.randrange(2**n)
    others = [s_ for s_ in range(2**n) if s_ != low]
    rng.shuffle(others)
    others = others[: rng.randint(1, len(others))]
    cuts = sorted(rng.sample(range(1, shots - c), len(others) - 1))
    counts = [[format(low, f"0{n}b"), c]] + [[format(s_, f"0{n}b"), b - a] for s_, a, b in zip(others, [0] + cuts, cuts + [shots - c])]
    rng.shuffle(counts)
    # value -a on `low`, +a*(something positive) elsewhere: Z-string with all qubits so that parity separates `low`
    a = rng.choice([1.0, 2.0, 0.5])
    sign = -1.0 if bin(low).count("1") % 2 == 0 else 1.0  # value of `low` under the full Z string is (-1)^popcount
    op = [[sign * a, 2**n - 1], [rng.choice([0.0, 0.5, -1.0]), 0]]
    if n > 1:  # make every other state strictly larger than `low`: large positive offset on states of the same parity
        op = [[-3.0 * a, 0]] + [[a if ((low >> q) & 1) == 0 else -a, 1 << q] for q in range(n)]
        # value(state) = -3a + sum_q +-a: minimal (= -3a - n*a) exactly at... the state with every term negative
        low_state = sum(1 << q for q in range(n) if ((low >> q) & 1) == 0)
        counts = [[format(low_state, f"0{n}b") if k == format(low, f"0{n}b") else (format(low, f"0{n}b") if k == format(low_state, f"0{n}b") else k), v] for k, v in counts]
    delta = rng.choice([2e-9, 3e-9, 5e-9, 8e-9, 1e-8])
    case = {"type": "agg", "n": n, "shots": shots, "counts": counts, "op": op, "op_family": "small-tail", "dist_type": "quasi"}
    lowest = min(entries_of(case), key=lambda e: e[1])
    case["alphas"] = sorted({float(lowest[0]) + delta, float(lowest[0]) + rng.choice([2e-9, 5e-9]), float(lowest[0])})
    return case


def gen_raw(rng):
    k = rng.randint(1, 6)
    shots = rng.choice([4, 8, 10, 100])
    cuts = sorted(rng.sample(range(1, shots), min(k, shots) - 1))
    ps = [(b - a) / shots for a, b in zip([0] + cuts, cuts + [shots])]
    return {"type": "raw", "entries": [[p, rng.choice([-2.0, -1.0, 0.0, 0.5, 1.0, 1.0, 3.0])] for p in ps], "alpha": rng.choice([1.0, 0.5, 0.25, 0.1, 0.99999, rng.randint(1, shots) / shots])}


# ------------------------------------------------------------------ one case
def scale(vs):
    return max([abs(v) for v in vs] + [Fraction(0)])


def do_agg(ctx, case, glits, kept):
    exact = entries_of(case)
    as_float = entries_of(case, exact=False)
    V = scale([v for _, v in exact])
    # float rounding is relative to the magnitude of the terms: S = sum of |coefficients| (>= V); everything below is
    # relative to it, so that operators of overall scale 1e-12 .. 1e12 are judged as strictly as those of scale 1
    S = sum((abs(Fraction(c_)) for c_, _ in case["op"]), Fraction(0))
    slack = FLOAT_SLACK * S
    tol_q = Fraction(1, 10**9) * S + Fraction(1, 10**40)
    tol = tol_q  # exact rational literal for the model comparison
    E = sum(p * v for p, v in exact)
    lo = min(v for _, v in exact)
    results = []
    for alpha in case["alphas"]:
        res = impl_paths(case, alpha)
        a = Fraction(alpha)
        sub = dict(case, alphas=[alpha])
        ctx.tally("alpha:" + ("invalid" if not 0 < a <= 1 else "1" if a == 1 else "isclose-1" if isclose_q(a, Fraction(1))[0] else "tail"))
        if not 0 < a <= 1:
            for r, path in zip(res, ("operator", "bitstring")):
                if r != ("err", "ValueError"):
                    ctx.violation("oracle", f"{path}-accepts-alpha-out-of-range", f"{path} path: alpha={alpha} outside (0,1] gives {r} instead of ValueError", sub)
            glits.append(g_agg(case, alpha, tol, res))
            kept.append(sub)
            continue
        if case.get("len", case["n"]) != case["n"]:
            ctx.tally("evaluator-length-mismatch")
            glits.append(g_agg(case, alpha, tol, res))  # correspondence only: the evaluator rejects the key length
            kept.append(sub)
            continue
        c = cvar_exact(exact, a)
        b_op, b_bs = bounds(exact, a)
        slack = FLOAT_SLACK * S
        if no_break_possible(as_float, a):
            # sharper clause (C14_exact_when_no_break / C14_exact_below_smallest_probability): exact equality with the
            # definition on the float probabilities, up to float rounding (the last take alpha - gathered is rounded)
            c, b_op, b_bs = cvar_exact(as_float, a), Fraction(0), Fraction(0)
            slack += Fraction(1, 10**15) / a * S
            ctx.tally("oracle:exact-clause")
            if all(a <= p for p, _ in as_float):
                ctx.tally("oracle:alpha-below-every-probability")
        else:
            ctx.tally("oracle:resolution-bound")
        ok = True
        for r, b, path in zip(res, (b_op, b_bs), ("operator", "bitstring")):
            if isinstance(r, tuple):
                ctx.violation("oracle", f"raises-{path}-{r[1]}", f"{path} path raised {r[1]} for a valid distribution, operator and alpha={alpha}", sub)
                ok = False
            elif abs(Fraction(r) - c) > b + slack:
                ctx.violation("oracle", f"{path}-path-off-definition",
                              f"{path} path returns {r} for alpha={alpha}; the mean over the lowest-valued alpha mass is {float(c)} "
                              + (f"(allowed resolution {float(b):.3e})" if b else "(exactly: the accumulation reaches alpha without a tolerance break)"), sub,
                              detail=dict(cvar=c, bound=b))
                ok = False
        if ok:
            if abs(Fraction(res[0]) - Fraction(res[1])) > b_op + b_bs + slack:
                ctx.violation("oracle", "paths-disagree", f"operator path {res[0]} and bitstring path {res[1]} differ by more than both resolutions (alpha={alpha})", sub)
            for r, b, path in zip(res, (b_op, b_bs), ("operator", "bitstring")):
                if not lo - b - slack <= Fraction(r) <= E + b + slack:
                    ctx.violation("oracle", f"{path}-outside-range", f"{path} path value {r} outside [smallest sampled value {float(lo)}, plain expectation {float(E)}] (alpha={alpha})", sub)
            results.append((a, res, (b_op, b_bs)))
        # correspondence: skip when an isclose decision is within EDGE of its boundary
        _, e1 = accumulate_exact(as_float, a)
        _, e2 = accumulate_exact(sorted(as_float, key=lambda e: e[1]), a)
        if min(e1, e2) <= EDGE:
            ctx.tally("skipped:isclose-boundary")
        else:
            early = accumulate_exact(as_float, a)[0] != cvar_exact(as_float, a) if not isclose_q(a, Fraction(1))[0] else False
            if early:
                ctx.tally("branch:tolerance-break-drops-mass")
            # model comparison: 1e-9 of the scale, except where the accumulation of model and implementation may stop at
            # different states (ties + possible tolerance break): there each is within the proved resolution of the
            # definition (C14_exact_or_close), so they may differ by twice that
            tol_here = tol
            if break_can_differ(as_float, a):
                tol_here = tol + 2 * bounds(exact, a)[1]
                ctx.tally("model-comparison:resolution-tolerance(ties+break)")
            glits.append(g_agg(case, alpha, tol_here, res))
            kept.append(sub)
    for (a1, r1, b1), (a2, r2, b2) in zip(results, results[1:]):
        for i, path in enumerate(("operator", "bitstring")):
            if Fraction(r1[i]) > Fraction(r2[i]) + b1[i] + b2[i] + slack:
                ctx.violation("oracle", f"{path}-not-monotone", f"{path} path decreases in alpha: {r1[i]} at {float(a1)} > {r2[i]} at {float(a2)}", dict(case, alphas=[float(a1), float(a2)]))
    ctx.tally(f"operator:{case.get('op_family', 'corpus')}")
    if len({m for _, m in case["op"]}) < len(case["op"]):
        ctx.tally("operator:has-repeated-pauli-string")
    ctx.tally(f"shots:{case['shots']}")
    ctx.tally(f"outcomes:{len(case['counts'])}")
    if len({v for _, v in exact}) < len(exact):
        ctx.tally("ties-in-value")


def do_raw(ctx, case, glits, kept):
    ent = [(Fraction(p), Fraction(v)) for p, v in case["entries"]]
    a = Fraction(case["alpha"])
    r = impl_raw(case)
    V = scale([v for _, v in ent])
    _, edge = accumulate_exact(ent, a)
    ctx.tally("raw")
    if isinstance(r, tuple):
        ctx.violation("oracle", f"raises-raw-{r[1]}", f"_get_expectation raised {r[1]}", case)
    else:
        c = cvar_exact(ent, a)  # float probabilities sum to 1 within rounding
        b = bounds(ent, a)[1]
        if abs(Fraction(r) - c) > b + FLOAT_SLACK * max(V, 1) * 1000:
            ctx.violation("oracle", "raw-off-definition", f"_get_expectation returns {r}, definition {float(c)}", case)
    if edge <= EDGE:
        ctx.tally("skipped:isclose-boundary")
        return
    glits.append(g_raw(case, float(Fraction(1, 10**9) * V + Fraction(1, 10**15)), r))
    kept.append(case)


def do_ctor(ctx, case, glits, kept):
    a = Fraction(case["alpha"])
    valid = 0 < a <= 1
    res = impl_ctor(case)
    ctx.tally("ctor-alpha:" + ("valid" if valid else "outside"))
    for r, which in zip(res, ("OperatorSamplerCircuitEvaluator", "BitstringCircuitEvaluator")):
        if valid and r != "ok":
            ctx.violation("oracle", f"ctor-rejects-valid-alpha-{r[1]}", f"{which}(alpha={case['alpha']!r}) raised {r[1]}", case)
        if not valid and r != ("err", "ValueError"):
            ctx.violation("oracle", "ctor-accepts-alpha-out-of-range", f"{which}(alpha={case['alpha']!r}) outside (0,1] gives {r} instead of ValueError", case)
        glits.append(f"CAlpha {g_q(case['alpha'])} {'true' if r == 'ok' else 'false'}")
        kept.append(case)


def do_case(ctx, case, glits, kept):
    {"agg": do_agg, "raw": do_raw, "ctor": do_ctor, "bits": do_bits, "evalform": do_evalform}[case["type"]](ctx, case, glits, kept)


def run(ctx):
    translate.check_link(ctx, "C14")  # regenerate Gallina from /repo's current source; link lemmas coq/link/C14Link.v
    ctx.rule = ("distributions from shot counts (shots in {1,2,4,8,10,100,1000,1024} and 1e5/1e6 for the tolerance branch; 1..2^n outcomes, n<=4, random dictionary order, ties) x diagonal "
                "SparsePauliOp with small dyadic coefficients (families: distinct strings, single Z, duplicate strings, cancelling duplicates, repeated identity, unsimplified SparsePauliOp.sum, complex "
                "coefficients with zero imaginary part; a state's value is the sum over all terms) and its diagonal as bitstring function x 2-5 alphas from {1, 1/2, 1/4, 0.1, 1-1e-7, 0.99999, c/shots, prefix masses of the "
                "sorted distribution and values just beside them, random}; a tiny-alpha family {1e-12 .. 1e-6} (below every probability: the exact minimum is demanded); every boundary value of alpha (0, -0.0, tiny negatives, 1+ulp, >1; int/float/numpy) on both functions and both evaluator constructors expecting ValueError; wide registers (54-80 qubits, states beyond 2^53 differing in low bits); evaluator forms (plain, subclass overriding evaluate_bitstring, wrapped instance method, callable object, partial, bound method: the aggregation uses what evaluate_bitstring returns); a correspondence-only family of int-keyed distributions narrower than the register (outside the property: Qiskit pads int keys to the largest key); both paths per alpha; distinct = distinct (distribution, operator, alphas); non-trivial = at least two outcomes")
    cases = []
    cdir = core.ROOT / "corpus" / "C14"
    for fpath in sorted(cdir.glob("*.json")) if cdir.exists() else []:
        c = json.loads(fpath.read_text())
        cases.append(c.get("case", c))
    cases += list(boundary_cases())
    for _ in range(ctx.n(450, 14000)):
        cases.append(gen_case(ctx.rng))
    for _ in range(ctx.n(150, 5000)):
        cases.append(gen_case(ctx.rng, big=True))
    for _ in range(ctx.n(100, 2000)):
        cases.append(gen_raw(ctx.rng))
    for _ in range(ctx.n(60, 1000)):
        cases.append(gen_bits(ctx.rng))
    for _ in range(ctx.n(60, 1500)):
        cases.append(gen_small_tail(ctx.rng))
    for _ in range(ctx.n(60, 1500)):
        cases.append(gen_wide(ctx.rng))
    for _ in range(ctx.n(80, 1500)):
        cases.append(gen_evalform(ctx.rng))
    glits, kept = [], []
    for c in cases:
        do_case(ctx, c, glits, kept)
        size = len(c["counts"]) if c["type"] == "agg" else len(c["entries"]) if c["type"] == "raw" else len(c["int_counts"]) if c["type"] == "bits" else len(c["counts"]) if c["type"] == "evalform" else 0
        ctx.case(c, size >= 2, sample=c if len(ctx.samples) < 3 and c["type"] == "agg" and size >= 2 else None)
    bad = core.model_mismatches("C14", IMPORTS, "check_case", glits, chunk=200)
    for i in bad[:5]:
        ctx.violation("correspondence", "model-vs-impl", "the Coq model of expectation_calculation.py and the implementation return different values", kept[i],
                      detail=dict(gallina=glits[i][:3000]))
    ctx.traces = len(glits)
    ctx.notes["skipped_isclose_boundary"] = ctx.dist.get("skipped:isclose-boundary", 0)
    ctx.notes["evaluations_per_case"] = "every case evaluates both implementation paths for each of its alphas; traces_validated counts (case, alpha) pairs compared with the model"


def replay(ctx, payload):
    if translate.is_link_replay(payload) and not payload.get("failing_input"):
        return translate.replay(ctx, payload, "C14")  # a replay file written for a broken translation tie
    c = payload.get("case") or payload.get("failing_input")
    glits, kept = [], []
    do_case(ctx, c, glits, kept)
    for v in ctx.violations:
        print("FAILS —", v["what"])
    print("impl-vs-definition:", "FAILS" if ctx.violations else "ok")
    if glits:
        bad = core.model_mismatches("C14_replay", IMPORTS, "check_case", glits)
        print("model-vs-impl:", "DIFFER" if bad else "agree")
        print("model:", core.model_show("C14_replay", IMPORTS, "map show_case " + g_list(glits)))
