"""C09 — a failed primitive job reaches exactly the callers of its batch; the wrapper stays usable.
Oracle + exploration + correspondence: vlib/batch.py; model: Batch/Monitor.v through the extracted binary."""
from vlib import batch


def run(ctx):
    batch.run_property(ctx, "C09")


def replay(ctx, payload):
    batch.replay_property(ctx, "C09", payload)
