"""C03 — circuit evaluators return the true objective through every primitive wrapper.

Oracle (independent of the Coq model): Statevector(init.compose(bound circuit)) -> exact objective (expectation value of
the operator / CVaR of the exact distribution computed with Fractions), compared with what the real evaluator returned
through the real wrappers around exact primitives (vlib.exactprims).
Correspondence: the classical-instance cases are also run through QV.Eval.EvalCheck.check_case (vm_compute).

A case is one configuration (evaluator kind, objective, alpha, shots, optional initial state, wrapper stack) and 1-4
concurrent callers (more than one only with a batching wrapper), each calling evaluate_circuits once.
"""
from __future__ import annotations

import functools
import json
import math
import threading
from fractions import Fraction

from vlib import core
from vlib import translate
from vlib.core import g_bool, g_list, g_nat, g_opt, g_pair, g_q, g_z

IMPORTS = "From QV Require Import Eval.Pipeline Eval.ClassicalInst Eval.EvalCheck."
PI = math.pi
C14_SLACK = 2.2e-5  # the two isclose() calls of expectation_calculation.py (rtol 1e-5, atol 1e-8): C14's resolution


# ----------------------------------------------------------------------------------------------- circuits
def gen_classical_gates(rng, n, fresh, n_params, max_gates=6):
    """Gate list over {x, cx, swap, rx(param j), h on a fresh qubit}; `fresh` (set) is updated in place."""
    gates = []
    for _ in range(rng.randint(1, max_gates)):
        kinds = ["x"] + (["rx", "rx"] if n_params else ["x"]) + (["cx", "cx", "swap"] if n >= 2 else []) + (["h", "h"] if fresh else [])
        k = rng.choice(kinds)
        if k == "h":
            q = rng.choice(sorted(fresh))
            fresh.discard(q)
            gates.append(["h", q])
        elif k in ("x", "rx"):
            q = rng.randrange(n)
            fresh.discard(q)
            gates.append(["x", q] if k == "x" else ["rx", rng.randrange(n_params), q])
        else:
            a, b = rng.sample(range(n), 2)
            fresh.discard(a)
            fresh.discard(b)
            gates.append([k, a, b])
    return gates


def gen_random_gates(rng, n, n_params, max_gates=6):
    """Non-classical circuits: u / cu with random angles (some angles are parameters), cx."""
    gates = []

    def ang():
        return ["p", rng.randrange(n_params)] if n_params and rng.random() < 0.4 else ["c", rng.uniform(-PI, PI)]

    for _ in range(rng.randint(1, max_gates)):
        if n >= 2 and rng.random() < 0.45:
            a, b = rng.sample(range(n), 2)
            gates.append(["cx", a, b] if rng.random() < 0.4 else ["cu", a, b, ang(), ang(), ang()])
        else:
            gates.append(["u", rng.randrange(n), ang(), ang(), ang()])
    return gates


def used_params(gates):
    s = set()
    for g in gates:
        if g[0] == "rx":
            s.add(g[1])
        for a in g[1:]:
            if isinstance(a, list) and a[0] == "p":
                s.add(a[1])
    return s


def share_objects(circuits, same_as):
    """Position i holds the circuit OBJECT of position same_as[i] (the case generator made their gate lists equal)."""
    if same_as:
        for i, j in enumerate(same_as):
            if j is not None and i < len(circuits):
                circuits[i] = circuits[j]
    return circuits


def build_circuit(n, gates, n_params, name="c", metadata=None):
    """Qiskit circuit; parameter j is named p{j:02d} so that circuit.parameters order is index order.  Every parameter
    0..n_params-1 is made to occur (an unused one enters through rx(0 * p) = identity), so that the value list binds
    positionally."""
    from qiskit import QuantumCircuit
    from qiskit.circuit import Parameter

    ps = [Parameter(f"p{j:02d}") for j in range(n_params)]
    qc = QuantumCircuit(n, name=name, metadata=dict(metadata or {}))

    def val(a):
        return ps[a[1]] if a[0] == "p" else a[1]

    for g in gates:
        k = g[0]
        if k == "x":
            qc.x(g[1])
        elif k == "h":
            qc.h(g[1])
        elif k == "cx":
            qc.cx(g[1], g[2])
        elif k == "swap":
            qc.swap(g[1], g[2])
        elif k == "rx":
            qc.rx(ps[g[1]], g[2])
        elif k == "u":
            qc.u(val(g[2]), val(g[3]), val(g[4]), g[1])
        elif k == "cu":
            qc.cu(val(g[3]), val(g[4]), val(g[5]), 0.0, g[1], g[2])
        else:
            raise ValueError(k)
    for j in sorted(set(range(n_params)) - used_params(gates)):
        qc.rx(0 * ps[j], 0)
    return qc


# ----------------------------------------------------------------------------------------------- objectives
JSSP_SPECS = [  # (jobs as [(machine, duration), ...], makespan limit): 2-4 qubits, 20-40 unsimplified terms with 4-11 distinct strings
    ([[("m0", 1), ("m1", 1)]], 3),
    ([[("m0", 1)], [("m0", 1)]], 3),
    ([[("m0", 1), ("m1", 1)], [("m1", 1)]], 3),
    ([[("m0", 1), ("m1", 1)]], 4),
]


@functools.lru_cache(maxsize=None)
def jssp_hamiltonian(spec_index):
    """The library's own (unsimplified) JSSP problem Hamiltonian of a tiny instance, with dyadic penalties."""
    from queasars.job_shop_scheduling.domain_wall_hamiltonian_encoder import JSSPDomainWallHamiltonianEncoder
    from queasars.job_shop_scheduling.problem_instances import Job, JobShopSchedulingProblemInstance, Machine, Operation

    spec, limit = JSSP_SPECS[spec_index]
    jobs = tuple(Job(f"j{ji}", tuple(Operation(f"o{k}", f"j{ji}", Machine(m), d) for k, (m, d) in enumerate(ops))) for ji, ops in enumerate(spec))
    inst = JobShopSchedulingProblemInstance("i", (Machine("m0"), Machine("m1")), jobs)
    enc = JSSPDomainWallHamiltonianEncoder(inst, limit, encoding_penalty=4, overlap_constraint_penalty=2, precedence_constraint_penalty=2, max_opt_value=1)
    return enc.n_qubits, enc.get_problem_hamiltonian()


def operator_terms(op):
    """Every term of a SparsePauliOp, unsimplified and in order, as [coefficient (Fraction string), [[qubit, letter], ...]]."""
    out = []
    for label, qubits, coeff in op.to_sparse_list():
        assert abs(complex(coeff).imag) < 1e-15
        out.append([str(Fraction(float(complex(coeff).real))), [[int(q), l] for q, l in zip(qubits, label)]])
    return out


def build_operator(n, objective):
    """objective["form"]: "plain" (from_sparse_list + simplify), "dup" (from_sparse_list, NOT simplified: repeated strings,
    cancelling pairs, repeated identity), "sum" (SparsePauliOp.sum of one-term operators, not simplified), "jssp" (the
    library's JSSPDomainWallHamiltonianEncoder(...).get_problem_hamiltonian(), unsimplified).  objective["op"] always lists
    every term; the objective is the SUM over all of them."""
    from qiskit.quantum_info import SparsePauliOp

    terms, form = objective["op"], objective.get("form", "plain")
    if form == "jssp":
        nq, op = jssp_hamiltonian(objective["jssp"])
        assert nq == n
        return op
    sparse = [("".join(p for _, p in t), [q for q, _ in t], float(Fraction(c))) for c, t in terms]
    if not sparse:
        return SparsePauliOp("I" * n, [0.0])
    if form == "sum":
        return SparsePauliOp.sum([SparsePauliOp.from_sparse_list([t], n) for t in sparse])
    op = SparsePauliOp.from_sparse_list(sparse, n)
    return op.simplify(atol=0.0, rtol=0.0) if form == "plain" else op  # merge equal strings, never drop a small term


def gen_objective_op(rng, n, letters, diagonal):
    """Operator objective with a named form (tallied as opform:<form>)."""
    form = rng.choice(["plain", "plain", "dup", "dup", "sum"] + (["jssp", "jssp"] if diagonal else []))
    if form == "jssp":
        fits = [i for i in range(len(JSSP_SPECS)) if jssp_hamiltonian(i)[0] == n]
        if fits:
            k = rng.choice(fits)
            return {"op": operator_terms(jssp_hamiltonian(k)[1]), "form": "jssp", "jssp": k}
        form = "dup"
    terms = gen_terms(rng, n, letters)
    if form in ("dup", "sum"):
        base = list(terms)
        for _ in range(rng.randint(1, 3)):  # the same Pauli string again, with another weight
            c, t = rng.choice(base)
            terms.append([str(Fraction(rng.randint(-8, 8), rng.choice([1, 2, 4]))), [list(x) for x in t]])
        c, t = rng.choice(base)  # a pair cancelling to zero
        w = Fraction(rng.randint(1, 8), 2)
        terms += [[str(w), [list(x) for x in t]], [str(-w), [list(x) for x in t]]]
        terms += [[str(Fraction(rng.randint(-4, 4), 2)), []], [str(Fraction(rng.randint(1, 4), 4)), []]]  # identity twice
        rng.shuffle(terms)
    return scale_objective(rng, {"op": terms, "form": form}, estimator=not diagonal)


SCALE_EXPONENTS = [-12, -9, -6, 6, 12]


def scale_objective(rng, objective, estimator=False):
    """Operator-scale family: the whole objective times 10^k, or (operators) some terms times 1e-9 next to O(1) terms.
    The oracle and the model comparison are relative to the objective's scale.
    Estimator path: Qiskit's own pub coercion (ObservablesArray.coerce -> observable.simplify(), atol 1e-8) drops every
    merged coefficient <= 1e-8 and raises "Empty observable was detected" if nothing is left — that absolute resolution
    belongs to the Qiskit estimator interface, before any primitive runs; there the family stays above it (1e-6)."""
    r = rng.random()
    small = 6 if estimator else 9
    if r < 0.35:
        k = rng.choice([-6, -6, 6, 12] if estimator else SCALE_EXPONENTS)
        f = Fraction(10) ** k
        if "op" in objective:
            objective["op"] = [[str(Fraction(c) * f), t] for c, t in objective["op"]]
        else:
            objective["table"] = [str(Fraction(x) * f) for x in objective["table"]]
        objective["scale"] = f"1e{k}"
    elif r < 0.5 and "op" in objective and len(objective["op"]) >= 2:
        idx = set(rng.sample(range(len(objective["op"])), rng.randint(1, len(objective["op"]) - 1)))
        objective["op"] = [[str(Fraction(c) * Fraction(1, 10 ** small)) if i in idx else c, t] for i, (c, t) in enumerate(objective["op"])]
        objective["scale"] = f"mixed-1e-{small}"
    return objective


def objective_scale(objective):
    """Sum of |coefficients| of an operator / max |entry| of a table: what 'resolution' is relative to."""
    if "op" in objective:
        return sum(abs(Fraction(c)) for c, _ in objective["op"])
    return max(abs(Fraction(x)) for x in objective["table"])


REL_EXACT = Fraction(1, 10 ** 12)    # dyadic distributions + exact primitives: only float rounding is left
REL_FLOAT = Fraction(1, 10 ** 9)


def gen_terms(rng, n, letters):
    terms = []
    for _ in range(rng.randint(1, 4)):
        qs = rng.sample(range(n), rng.randint(0, min(n, 3)))
        terms.append([str(Fraction(rng.randint(-8, 8), rng.choice([1, 2, 4]))), [[q, rng.choice(letters)] for q in qs]])
    # one single-qubit term with an odd weight makes the operator asymmetric under qubit reversal
    terms.append([str(Fraction(2 * rng.randint(1, 4) + 1, 8)), [[rng.randrange(n), letters[-1]]]])
    return terms


def diag_value(terms, bitstring):
    """Value of an I/Z operator on a Qiskit bitstring (qubit q is character n-1-q)."""
    n = len(bitstring)
    v = Fraction(0)
    for c, t in terms:
        s = 1
        for q, _ in t:
            if bitstring[n - 1 - q] == "1":
                s = -s
        v += Fraction(c) * s
    return v


def cvar(pairs, alpha):
    """pairs: [(value, probability)] as Fractions; mean over the lowest-valued alpha mass."""
    rem, acc = alpha, Fraction(0)
    for v, p in sorted(pairs):
        q = min(p, rem)
        acc += q * v
        rem -= q
        if rem <= 0:
            break
    return acc / alpha


# ----------------------------------------------------------------------------------------------- pass managers / stacks
def build_pass_manager(spec):
    from qiskit.transpiler import CouplingMap, generate_preset_pass_manager

    kw = dict(optimization_level=spec.get("level", 0), seed_transpiler=spec.get("seed", 1))
    if spec.get("line"):
        kw["coupling_map"] = CouplingMap.from_line(spec["line"])
    if spec.get("initial_layout") is not None:
        kw["initial_layout"] = list(spec["initial_layout"])
    if spec.get("basis"):
        kw["basis_gates"] = list(spec["basis"])
    return generate_preset_pass_manager(**kw)


def gen_pm_spec(rng, n, layout_changing):
    if not layout_changing:
        return {"level": 0}
    m = n + rng.choice([0, 0, 1, 2])
    spec = {"level": rng.choice([0, 0, 0, 1]), "line": m, "seed": rng.randint(1, 5)}
    if rng.random() < 0.8:
        spec["initial_layout"] = rng.sample(range(m), n)
    spec["model_swaps"] = [rng.sample(range(m), 2)] if m >= 2 and rng.random() < 0.5 else []
    return spec


STACK_SHAPES = [
    ("raw", []),
    ("T0", ["T0"]),
    ("TL", ["TL"]),
    ("M", ["M"]),
    ("B", ["B"]),
    ("TL(B)", ["TL", "B"]),   # as the solver installs them with a ThreadPoolExecutor
    ("TL(M)", ["TL", "M"]),   # as the solver installs them with a dask Client
    ("T0(B)", ["T0", "B"]),
    ("M(TL)", ["M", "TL"]),
    ("B(TL)", ["B", "TL"]),
]


def gen_stack(rng, n, shape):
    layers = []
    for s in shape:
        if s == "M":
            layers.append({"w": "mutex"})
        elif s == "B":
            layers.append({"w": "batch", "wait": 0.03})
        else:
            layers.append({"w": "transpile", "pm": gen_pm_spec(rng, n, s == "TL")})
    return layers


def build_stack(layers, raw, sampler):
    """Wrap `raw` by the layers (outermost first).  Returns the outermost primitive."""
    from queasars.circuit_evaluation import mutex_primitives as mp
    from queasars.circuit_evaluation import transpiling_primitives as tp

    prim = raw
    for layer in reversed(layers):
        if layer["w"] == "mutex":
            prim = mp.MutexSampler(prim) if sampler else mp.MutexEstimator(prim)
        elif layer["w"] == "batch":
            prim = mp.BatchingMutexSampler(prim, layer["wait"]) if sampler else mp.BatchingMutexEstimator(prim, layer["wait"])
        else:
            pm = build_pass_manager(layer["pm"])
            prim = tp.TranspilingSamplerV2(prim, pm) if sampler else tp.TranspilingEstimatorV2(prim, pm)
    return prim


def layout_transpositions(initial_layout, m):
    """A list of transpositions (applied left to right to a position) that maps i to initial_layout[i]."""
    sigma = list(initial_layout) + [x for x in range(m) if x not in initial_layout]
    cur = list(range(m))
    ts = []
    for i in range(m):
        if cur[i] != sigma[i]:
            a, b = cur[i], sigma[i]
            ts.append([a, b])
            cur = [b if x == a else a if x == b else x for x in cur]
    assert cur == sigma
    return ts


# ----------------------------------------------------------------------------------------------- case generation
def gen_case(rng, family, kind, shape_name, shape):
    n = rng.randint(1, 4) if family == "classical" else rng.randint(1, 3)
    if any(s in ("TL",) for s in shape) and n == 1 and rng.random() < 0.7:
        n = rng.randint(2, 4)
    n_params = rng.randint(1, 3)
    fresh = set(range(n))
    use_init = rng.random() < 0.5
    init = None
    if use_init:
        init = gen_classical_gates(rng, n, fresh, 0, 3) if family == "classical" else gen_random_gates(rng, n, 0, 3)
        init = [g for g in init if g[0] != "rx"] or [["x", 0]]
        if family == "classical":
            fresh -= {q for g in init for q in g[1:]}
    n_callers = rng.choice([1, 1, 2, 2, 3, 4]) if "B" in shape else 1
    callers = []

    def gen_call(count):
        circuits, params = [], []
        ptypes = []
        for _ in range(count):
            f = set(fresh)
            r = rng.random()
            npi = 0 if r < 0.25 else n_params      # a parameter-free circuit: its parameter vector is [] or ()
            if r < 0.07:
                circuits.append([])                  # a gate-free circuit (len(circuit) == 0)
            else:
                circuits.append(gen_classical_gates(rng, n, f, npi) if family == "classical" else gen_random_gates(rng, n, npi))
            params.append([rng.randint(-2, 3) for _ in range(npi)] if family == "classical" else [rng.uniform(-PI, PI) for _ in range(npi)])
            ptypes.append(rng.choice(["list", "tuple"] + (["numpy", "numpy"] if npi else [])))
        same_as = [None] * count
        if count >= 2 and rng.random() < 0.4:
            # the same circuit OBJECT at several positions of one call, each position with its own parameter values (the optimiser
            # callbacks pass [circuit] * k): adjacent repeats and repeats with other circuits in between, e.g. [A, B, A], [A, B, A, B]
            for i in range(1, count):
                if rng.random() < 0.6:
                    j = rng.randrange(0, i)
                    j = same_as[j] if same_as[j] is not None else j
                    same_as[i] = j
                    circuits[i] = circuits[j]
                    params[i] = ([rng.randint(-2, 3) for _ in params[j]] if family == "classical" else [rng.uniform(-PI, PI) for _ in params[j]])
                    ptypes[i] = rng.choice(["list", "tuple"] + (["numpy", "numpy"] if params[j] else []))
        return {"circuits": circuits, "params": params, "ptypes": ptypes, "same_as": same_as}

    for _ in range(n_callers):
        cl = gen_call(rng.choice([1, 1, 2, 3, 4]) if rng.random() < 0.97 else 0)
        if n_callers == 1 and rng.random() < (0.85 if "B" in shape else 0.4):
            # the ONE evaluator / wrapper stack is used again: after a call whose primitive job failed (flaky backend), and
            # with other circuit counts (1, then 5, then 1); every ordinary call must return its own objective
            steps = []
            if rng.random() < (0.85 if "B" in shape else 0.6):
                steps.append(dict(gen_call(rng.choice([1, 2, 3])), fail=True))
            steps.append(gen_call(rng.choice([1, 2, 5])))
            steps.append(gen_call(rng.choice([1, 1, 3])))
            if rng.random() < 0.3:
                steps.insert(rng.randrange(1, len(steps) + 1), dict(gen_call(rng.choice([1, 2])), fail=True))
                steps.append(gen_call(rng.choice([1, 4])))
            cl["sequence"] = steps
        if rng.random() < 0.35:
            cl["repeat"] = rng.choice([2, 3])        # the same list object is evaluated again: values repeat, the list is untouched
        if rng.random() < 0.15:
            cl["container"] = "tuple"
        callers.append(cl)
    case = {"family": family, "kind": kind, "n": n, "n_params": n_params, "init": init, "callers": callers,
            "stack_name": shape_name, "stack": gen_stack(rng, n, shape)}
    if kind == "est":
        case["precision"] = rng.choice([0.0, 0.0, 0.0, 0.125])   # 0.0 is the legal boundary "exact"
        case["objective"] = gen_objective_op(rng, n, ["X", "Y", "Z"], diagonal=False)
        if n_callers > 1 and rng.random() < 0.8:
            # different evaluators share the one wrapped estimator: every caller has its own observable (own Pauli strings and
            # weights, each asymmetric under qubit relabelling through gen_terms' odd single-qubit term)
            for cl in callers:
                cl["cfg"] = {"kind": "est", "objective": gen_objective_op(rng, n, ["X", "Y", "Z"], diagonal=False)}
    else:
        case["alpha"] = rng.choice(["1", "1/2", "1/4"])
        if family == "classical":
            case["shots"] = rng.choice([64, 256, 1024])
            case["sampler_mode"] = "integer"
        else:
            case["sampler_mode"] = rng.choice(["fractional", "fractional", "integer"])
            case["shots"] = rng.choice([1, 1 << 10, 1 << 14]) if case["sampler_mode"] == "fractional" else 1 << 16  # 1 = smallest legal shots
        if kind == "opsampler":
            case["objective"] = gen_objective_op(rng, n, ["Z"], diagonal=True)
        else:
            case["objective"] = scale_objective(rng, {"table": [str(Fraction(rng.randint(-16, 16), rng.choice([1, 2, 4]))) for _ in range(2 ** n)]})
        if n_callers > 1 and rng.random() < 0.75:
            # different evaluators share the one wrapped sampler: own shots (every caller a different power of two), kind, alpha
            pool = [64, 256, 1024, 4096] if family == "classical" or case["sampler_mode"] == "fractional" else [1 << 14, 1 << 15, 1 << 16, 1 << 17]
            for cl, sh in zip(callers, rng.sample(pool, n_callers)):
                k = rng.choice(["opsampler", "bits"])
                c = {"kind": k, "shots": sh, "alpha": rng.choice(["1", "1/2", "1/2", "1/4"])}
                c["objective"] = gen_objective_op(rng, n, ["Z"], diagonal=True) if k == "opsampler" else scale_objective(rng, {"table": [str(Fraction(rng.randint(-16, 16), rng.choice([1, 2, 4]))) for _ in range(2 ** n)]})
                cl["cfg"] = c
    return case


# ----------------------------------------------------------------------------------------------- implementation run
def cfg(case, ci):
    """Evaluator configuration of caller ci: the case's kind/objective/alpha/shots unless the caller overrides them
    (callers of one batching sampler may be different evaluators: own kind, objective, alpha and sampler_shots)."""
    d = {k: case.get(k) for k in ("kind", "objective", "alpha", "shots")}
    d.update(case["callers"][ci].get("cfg", {}))
    return d


def param_container(values, kind):
    """The parameter vector as the caller hands it over: list, tuple or numpy array (all are list[float]-like)."""
    if kind == "tuple":
        return tuple(values)
    if kind == "numpy":
        import numpy

        return numpy.array(values, dtype=float)
    return list(values)


def angle_values(case, params):
    return [k * PI for k in params] if case["family"] == "classical" else list(params)


def run_impl(case, timeout=90.0):
    """Run every caller's evaluate_circuits through the real evaluator + wrappers.  Returns (results per caller
    [list[float] | ('EXC', class name, text)], batches observed at the raw primitive [[(caller, index), ...], ...])."""
    from vlib import exactprims
    from queasars.circuit_evaluation.bitstring_evaluation import BitstringEvaluator
    from queasars.circuit_evaluation.circuit_evaluation import BitstringCircuitEvaluator, OperatorCircuitEvaluator, OperatorSamplerCircuitEvaluator

    from queasars.circuit_evaluation import circuit_evaluation as ce_module

    n, npar, kind = case["n"], case["n_params"], case["kind"]
    batches = []
    pub_shots = []   # (caller, shots of the coerced pub as the raw sampler received it)
    pub_precisions = []   # (caller, precision of the coerced pub as the raw estimator received it)
    precision = float(case.get("precision", 0.0))
    lock = threading.Lock()

    def observer(pubs):
        seen = {}
        row = []
        for p in pubs:
            c = (p.circuit.metadata or {}).get("caller")
            row.append((c, seen.get(c, 0)))
            seen[c] = seen.get(c, 0) + 1
            if hasattr(p, "shots"):
                pub_shots.append((c, p.shots))
            else:
                pub_precisions.append((c, p.precision))
        with lock:
            batches.append(row)

    # the quasi-distributions each evaluator aggregates: measure_quasi_distributions is looked up in the module's
    # namespace at call time and runs in the caller's thread; record what it returns per thread
    quasi_sums = {}
    if not hasattr(ce_module.measure_quasi_distributions, "_verif_original"):
        original = ce_module.measure_quasi_distributions

        def recording(*args, **kwargs):
            out = original(*args, **kwargs)
            sink = getattr(recording, "sink", None)
            if sink is not None:
                sink.setdefault(threading.get_ident(), []).extend(float(sum(Fraction(v) for v in d.values())) for d in out)
            return out

        recording._verif_original = original
        ce_module.measure_quasi_distributions = recording
    ce_module.measure_quasi_distributions.sink = quasi_sums
    thread_of = {}
    repeat_outs, mutated, sequence = {}, {}, {}

    sampler = kind != "est"
    # the raw primitives' DEFAULTS differ from everything a caller asks for: an option a wrapper fails to forward shows up
    raw = (exactprims.ExactSampler(default_shots=777, mode=case["sampler_mode"], observer=observer) if sampler
           else exactprims.ExactEstimator(observer=observer, default_precision=0.25))
    prim = build_stack(case["stack"], raw, sampler)  # multi-caller cases share the one real pass manager, as in the solver
    results = [None] * len(case["callers"])

    def make_evaluator(ci):
        init = build_circuit(n, case["init"], 0, name="init", metadata={"caller": ci}) if case["init"] is not None else None
        c = cfg(case, ci)
        if c["kind"] == "est":
            return OperatorCircuitEvaluator(prim, precision, build_operator(n, c["objective"]), initial_state_circuit=init)
        alpha = float(Fraction(c["alpha"]))
        if c["kind"] == "opsampler":
            return OperatorSamplerCircuitEvaluator(prim, c["shots"], build_operator(n, c["objective"]), alpha=alpha, initial_state_circuit=init)
        table = [float(Fraction(x)) for x in c["objective"]["table"]]
        return BitstringCircuitEvaluator(prim, c["shots"], BitstringEvaluator(n, lambda b: table[int(b, 2)]), alpha=alpha, initial_state_circuit=init)

    barrier = threading.Barrier(len(case["callers"]))

    def call(ci):
        try:
            ev = make_evaluator(ci)
            cl = case["callers"][ci]
            circuits = share_objects([build_circuit(n, g, len(p), name=f"c{ci}_{i}", metadata={"caller": ci}) for i, (g, p) in enumerate(zip(cl["circuits"], cl["params"]))], cl.get("same_as"))
            values = [param_container(angle_values(case, p), t) for p, t in zip(cl["params"], cl.get("ptypes") or ["list"] * len(cl["params"]))]
            originals = list(circuits)
            if cl.get("container") == "tuple":
                circuits = tuple(circuits)
            thread_of[ci] = threading.get_ident()
            barrier.wait(timeout=30)
            outs = []
            for _ in range(cl.get("repeat", 1)):
                out = ev.evaluate_circuits(circuits, values)
                outs.append([float(x) for x in out])
            results[ci] = outs[0]
            if len(outs) > 1:
                repeat_outs[ci] = outs   # compared in do_case with the value oracle's scale-relative tolerance, never bit for bit
            for si, step in enumerate(cl.get("sequence", [])):
                sc = share_objects([build_circuit(n, g, len(p), name=f"c{ci}_s{si}_{i}", metadata={"caller": ci}) for i, (g, p) in enumerate(zip(step["circuits"], step["params"]))], step.get("same_as"))
                sv = [param_container(angle_values(case, p), t) for p, t in zip(step["params"], step["ptypes"])]
                if step.get("fail"):
                    raw.fail_next = 1
                try:
                    sequence.setdefault(ci, []).append([float(x) for x in ev.evaluate_circuits(sc, sv)])
                except Exception as e:
                    sequence.setdefault(ci, []).append(("EXC", type(e).__name__, str(e)[:300]))
                raw.fail_next = 0
            if len(circuits) != len(originals) or any(a is not b for a, b in zip(circuits, originals)):
                mutated[ci] = {"length_before": len(originals), "length_after": len(circuits),
                               "replaced_positions": [i for i, (a, b) in enumerate(zip(circuits, originals)) if a is not b]}
        except Exception as e:  # turned into a violation by the caller
            results[ci] = ("EXC", type(e).__name__, str(e)[:300])

    if True:  # also a single caller runs in its own thread: a wrapper that hangs must not hang the check
        ths = [threading.Thread(target=call, args=(ci,), daemon=True) for ci in range(len(case["callers"]))]
        for t in ths:
            t.start()
        for t in ths:
            t.join(timeout)
        for ci, t in enumerate(ths):
            if t.is_alive():
                results[ci] = ("EXC", "Hang", f"evaluate_circuits did not return within {timeout}s")
    ce_module.measure_quasi_distributions.sink = None
    extra = {"sequence": sequence, "pub_precisions": pub_precisions, "precision": precision, "repeat_outs": repeat_outs, "mutated": mutated, "pub_shots": pub_shots, "quasi_sums": {ci: quasi_sums.get(t, []) for ci, t in thread_of.items()}}
    return results, batches, extra


# ----------------------------------------------------------------------------------------------- oracle
def oracle_values(case, ci, step=None):
    """Exact objective of every (circuit, parameters) of caller ci, with the tolerance the comparison may use."""
    from qiskit.quantum_info import Statevector

    n, npar = case["n"], case["n_params"]
    c = cfg(case, ci)
    kind, objective = c["kind"], c["objective"]
    cl = case["callers"][ci] if step is None else step
    init = build_circuit(n, case["init"], 0) if case["init"] is not None else None
    out = []
    for gates, params in zip(cl["circuits"], cl["params"]):
        qc = build_circuit(n, gates, len(params)).assign_parameters(angle_values(case, params))
        full = init.compose(qc) if init is not None else qc
        sv = Statevector(full)
        if kind == "est":
            op = build_operator(n, objective)
            v = float(sv.expectation_value(op).real)
            out.append((v, float((REL_EXACT if case["family"] == "classical" else REL_FLOAT) * objective_scale(objective))))
            continue
        probs = sv.probabilities_dict()
        alpha = Fraction(c["alpha"])
        if case["family"] == "classical":
            fr = {}
            for k, p in probs.items():
                f = Fraction(p).limit_denominator(1 << 12)
                assert abs(float(f) - p) < 1e-12
                if f > 0:
                    fr[k] = f
        else:
            fr = {k: Fraction(p) for k, p in probs.items() if p > 0}
        tot = sum(fr.values())
        fr = {k: p / tot for k, p in fr.items()}
        if kind == "opsampler":
            vals = {k: diag_value(objective["op"], k) for k in fr}
            V = float(sum(abs(Fraction(c)) for c, _ in objective["op"]))
        else:
            table = [Fraction(x) for x in objective["table"]]
            vals = {k: table[int(k, 2)] for k in fr}
            V = float(max(abs(x) for x in table))
        v = float(cvar([(vals[k], fr[k]) for k in fr], alpha))
        V = float(objective_scale(objective))  # tolerances are relative to the objective's scale
        if case["family"] == "classical":
            tol = float(REL_EXACT) * V
        else:
            tol = C14_SLACK * 2 * V / float(alpha) + 1e-9 * V
            if case["sampler_mode"] == "integer":  # every probability is off by < 1/shots
                tol += 2 * V * (2 ** n) / c["shots"] / float(alpha)
        out.append((v, tol))
    return out


# ----------------------------------------------------------------------------------------------- Gallina
def g_n(q):
    return f"{int(q)}%N"


def g_gates(gates):
    out = []
    for g in gates:
        k = g[0]
        if k == "x":
            out.append(f"GX {g_n(g[1])}")
        elif k == "h":
            out.append(f"GH {g_n(g[1])}")
        elif k == "cx":
            out.append(f"GCX {g_n(g[1])} {g_n(g[2])}")
        elif k == "swap":
            out.append(f"GSWAP {g_n(g[1])} {g_n(g[2])}")
        elif k == "rx":
            out.append(f"GRX {g_nat(g[1])} {g_n(g[2])}")
        else:
            raise ValueError(k)
    return g_list(out)


def g_circ(n, gates):
    return g_pair(g_nat(n), g_gates(gates))


def g_obs(terms):
    return g_list(g_pair(g_q(Fraction(c)), g_list(g_pair(g_n(q), "P" + p) for q, p in t)) for c, t in terms)


def g_layout(ts):
    return g_list(g_pair(g_n(a), g_n(b)) for a, b in ts)


def g_params(p):
    return g_list(g_z(k) for k in p)


def g_case(case, ci, batches, expected, legacy=False):
    """Gallina literal of caller ci's call.  `batches`: what the raw primitive saw (to place the caller in its batch)."""
    n = case["n"]
    cl = case["callers"][ci]
    me = cfg(case, ci)

    def g_obs_of(c):
        return g_obs(c["objective"]["op"]) if "op" in c["objective"] else "[]"

    obs0 = g_obs_of(me)
    layers = []
    for layer in case["stack"]:
        if layer["w"] == "mutex":
            layers.append("LMutex")
        elif layer["w"] == "transpile":
            pm = layer["pm"]
            m = pm.get("line") or n
            il = pm.get("initial_layout")
            ts = layout_transpositions(il, m) if il is not None else []
            layers.append(f"LTr {g_layout(ts)} {g_layout([] if legacy else pm.get('model_swaps', []))}")
        else:
            row = next((r for r in batches if any(c == ci for c, _ in r)), [])
            idx = [i for i, (c, _) in enumerate(row) if c == ci]
            before = row[: idx[0]] if idx else []
            after = row[idx[-1] + 1 :] if idx else []

            def pubs(entries):
                out = []
                for c, i in entries:
                    oc = case["callers"][c]
                    gates = (case["init"] or []) + oc["circuits"][i]
                    occ = cfg(case, c)
                    out.append(g_pair(g_circ(n, gates), g_obs_of(occ), g_params(oc["params"][i]), g_z(occ["shots"] or 0)))
                return g_list(out)

            layers.append(f"LBatch {pubs(before)} {pubs(after)}")
    if me["kind"] == "est":
        kind = f"KEst {obs0}"
    elif me["kind"] == "opsampler":
        kind = f"KOpSampler {obs0} {g_q(Fraction(me['alpha']))} {g_z(me['shots'])}"
    else:
        kind = f"KBits {g_list(g_q(Fraction(x)) for x in me['objective']['table'])} {g_q(Fraction(me['alpha']))} {g_z(me['shots'])}"
    init = g_opt(g_circ(n, case["init"]) if case["init"] is not None else None)
    exp = f"(Ok {g_list(g_q(x) for x in expected)})" if not (isinstance(expected, tuple)) else f'(Err "{expected[1]}"%string)'
    return (f"mkcase ({kind}) {init} {g_list(g_circ(n, g) for g in cl['circuits'])} {g_list(g_params(p) for p in cl['params'])} "
            f"{g_list(layers)} {g_bool(legacy)} {g_q(REL_FLOAT * objective_scale(me['objective']))} {exp}")


# ----------------------------------------------------------------------------------------------- one case
def describe(case, ci=None, pos=None):
    d = dict(case)
    if ci is not None:
        d["failing_caller"] = ci
        d["failing_position"] = pos
        cl = case["callers"][ci]
        if pos is not None and pos < len(cl["circuits"]):
            d["replay_summary"] = {
                "circuit": cl["circuits"][pos], "params": cl["params"][pos], "params_unit": "pi" if case["family"] == "classical" else "rad",
                "initial_state": case["init"], "observable_or_function": cfg(case, ci)["objective"], "alpha": cfg(case, ci).get("alpha"),
                "evaluator": cfg(case, ci)["kind"], "shots": cfg(case, ci).get("shots"), "shots_of_all_callers": [cfg(case, k).get("shots") for k in range(len(case["callers"]))],
                "layout": [l["pm"] for l in case["stack"] if l["w"] == "transpile"], "stack": case["stack_name"],
            }
    return d


def do_case(ctx, case, want_gallina=True):
    """Runs the implementation and the oracle; returns the Gallina literals [(caller, literal)] for classical cases."""
    try:
        results, batches, extra = run_impl(case)
    except Exception as e:
        ctx.violation("oracle", f"{case['kind']}:{case['stack_name']}:setup-{type(e).__name__}", f"building the wrapped evaluator raised {type(e).__name__}: {e}", describe(case))
        return []
    lits = []
    # every pub the raw sampler receives carries the shots of the evaluator that submitted it
    for c, sh in extra["pub_shots"]:
        if c is not None and c < len(case["callers"]) and sh != cfg(case, c)["shots"]:
            ctx.violation("oracle", f"sampler:{case['stack_name']}:pub-shots",
                          f"through {case['stack_name']} the raw sampler received a pub of caller {c} with shots={sh}, the evaluator asked for {cfg(case, c)['shots']} "
                          f"(callers' shots: {[cfg(case, k)['shots'] for k in range(len(case['callers']))]}): the counts are divided by the wrong shot number",
                          describe(case, c, 0), detail={"pub_shots_seen_by_raw_sampler": extra["pub_shots"]})
            break
    # ... and the precision the evaluator asked for (the boundary 0.0 = exact included)
    for c, pr in extra["pub_precisions"]:
        if pr != extra["precision"]:
            ctx.violation("oracle", f"est:{case['stack_name']}:pub-precision",
                          f"through {case['stack_name']} the raw estimator received a pub with precision={pr!r}, the evaluator asked for estimator_precision={extra['precision']!r} "
                          f"(the raw estimator's own default is 0.25): the value is estimated at another resolution than requested", describe(case, c if c is not None else 0, 0),
                          detail={"precisions_seen_by_raw_estimator": extra["pub_precisions"][:20]})
            break
    # the quasi-distribution every evaluator aggregates is normalised (exactly with the exact sampler)
    for c, sums in extra["quasi_sums"].items():
        tol = 1e-12 if case.get("sampler_mode") == "integer" else 1e-9
        bad = [x for x in sums if abs(x - 1.0) > tol]
        if bad:
            ctx.violation("oracle", f"sampler:{case['stack_name']}:quasi-not-normalised",
                          f"through {case['stack_name']} the distribution caller {c} aggregates sums to {bad[0]!r}, not 1 (shots requested {cfg(case, c)['shots']}; "
                          f"callers' shots: {[cfg(case, k)['shots'] for k in range(len(case['callers']))]})", describe(case, c, 0), detail={"sums": sums})
            break
    for ci, outcomes in extra["sequence"].items():
        steps = case["callers"][ci]["sequence"]
        kind_ci = cfg(case, ci)["kind"]
        failed_before = False
        for si, (step, got) in enumerate(zip(steps, outcomes)):
            if step.get("fail"):
                failed_before = True
                if not isinstance(got, tuple):
                    ctx.violation("oracle", f"{kind_ci}:{case['stack_name']}:failed-job-returned-values",
                                  f"the primitive job of call {si + 2} failed, yet evaluate_circuits returned {got} through {case['stack_name']}", describe(case, ci, 0))
                continue
            when = "after a call whose primitive job failed" if failed_before else "on the reused evaluator"
            key = f"{kind_ci}:{case['stack_name']}:" + ("after-failed-call" if failed_before else "reused-evaluator")
            if isinstance(got, tuple):
                ctx.violation("oracle", key + "-" + got[1], f"call {si + 2} {when} raised {got[1]} ({got[2]}) through {case['stack_name']}", describe(case, ci, 0), detail={"sequence": outcomes})
                break
            want = oracle_values(case, ci, step)
            if len(got) != len(want) or any(not (abs(g - w) <= tol) for g, (w, tol) in zip(got, want)):
                ctx.violation("oracle", key,
                              f"call {si + 2} on the same {kind_ci} evaluator through {case['stack_name']}, {when}, returned {got}; the objectives of ITS circuits are {[w for w, _ in want]} "
                              f"(circuit counts of the calls so far: {[len(case['callers'][ci]['circuits'])] + [len(s_['circuits']) for s_ in steps[: si + 1]]})",
                              describe(case, ci, 0), detail={"sequence": outcomes, "steps": steps})
                break
    repeat_mismatch = {}
    for ci, outs in extra["repeat_outs"].items():
        # "up to the resolution of the primitive": a later call may differ from the first by float summation order; the
        # tolerance is the one the value oracle uses for that position (relative to the objective's scale)
        tols = [t for _, t in oracle_values(case, ci)]
        for r, o in enumerate(outs[1:], start=2):
            if len(o) != len(outs[0]) or (len(o) == len(tols) and any(not (abs(a - b) <= 2 * t) for a, b, t in zip(o, outs[0], tols))):
                repeat_mismatch[ci] = {"call": r, "first_call": outs[0], "that_call": o, "tolerances": [2 * t for t in tols]}
                break
    for ci, m in repeat_mismatch.items():
        ctx.violation("oracle", f"{cfg(case, ci)['kind']}:repeated-call",
                      f"call {m['call']} of evaluate_circuits on the SAME circuit list returned {m['that_call']}, the first call returned {m['first_call']} "
                      f"(initial state {'given' if case['init'] is not None else 'absent'}): the objective of a circuit does not depend on how often it was evaluated",
                      describe(case, ci, 0), detail=m)
    for ci, m in extra["mutated"].items():
        ctx.violation("oracle", f"{cfg(case, ci)['kind']}:caller-list-mutated",
                      f"evaluate_circuits replaced elements of the caller's circuit list (positions {m['replaced_positions']}); a later evaluation of that list prepares a different state",
                      describe(case, ci, 0), detail=m)
    for ci, res in enumerate(results):
        cl = case["callers"][ci]
        kind_ci = cfg(case, ci)["kind"]
        if isinstance(res, tuple):
            key = f"{case['kind']}:{case['stack_name']}:{res[1]}"
            if res[1] == "AttributeError" and "'SamplerPub' object" in res[2]:
                key = "transpiling-sampler-rejects-pub-objects"  # TranspilingSamplerV2.run treats a SamplerPub as a tuple/circuit
            ctx.violation("oracle", key,
                          f"evaluate_circuits raised {res[1]} ({res[2]}) through the stack {case['stack_name']} instead of returning the objective",
                          describe(case, ci, 0), detail={"exception": res})
            continue
        want = oracle_values(case, ci)
        if len(res) != len(want):
            ctx.violation("oracle", f"{kind_ci}:{case['stack_name']}:length",
                          f"{len(res)} values returned for {len(want)} submitted circuits (parameter vectors {[(t, len(p)) for t, p in zip(cl.get('ptypes', []), cl['params'])]}, "
                          f"gate counts {[len(g) for g in cl['circuits']]}): one value per circuit, position by position", describe(case, ci, 0),
                          detail={"returned": res, "objective": [w for w, _ in want]})
            continue
        for pos, (got, (w, tol)) in enumerate(zip(res, want)):
            if not (abs(got - w) <= tol):
                ctx.violation("oracle", f"{kind_ci}:{case['stack_name']}:value",
                              f"{kind_ci} evaluator through {case['stack_name']} returned {got!r}, the objective of the prepared state is {w!r} (tolerance {tol:.3g})",
                              describe(case, ci, pos), detail={"returned": res, "objective": [x for x, _ in want], "batches_seen_by_raw_primitive": batches})
                break
        if want_gallina and case["family"] == "classical":
            lits.append((ci, g_case(case, ci, batches, res), g_case(case, ci, batches, res, legacy=True) if case["kind"] == "est" else None))
    return lits


def probe_concurrent_transpile(ctx, case):
    """The transpiling wrappers are installed OUTSIDE the mutex/batching wrappers (as the solver does), so several caller
    threads run the one shared pass manager at the same time.  Real preset pass manager, real wrappers, `threads`
    callers evaluating the same circuits over and over; every returned value is compared with the objective.
    Probabilistic: a wrong value needs an unlucky interleaving inside PassManager.run."""
    from vlib import exactprims
    from qiskit.quantum_info import Statevector
    from queasars.circuit_evaluation import mutex_primitives as mp
    from queasars.circuit_evaluation import transpiling_primitives as tp
    from queasars.circuit_evaluation.circuit_evaluation import OperatorCircuitEvaluator

    n, gates_list = case["n"], case["circuits"]
    op = build_operator(n, case["objective"])
    circuits = [build_circuit(n, g, 0, name=f"c{i}") for i, g in enumerate(gates_list)]
    want = [float(Statevector(c).expectation_value(op).real) for c in circuits]
    pm = build_pass_manager(case["pm"])
    # Transpiling(BatchingMutex(raw)) is what the solver installs for a ThreadPoolExecutor: the batching wrapper consumes the
    # transpiling wrapper's pub generator in the caller's thread, before any of its locks.  (Through MutexEstimator the
    # generator happens to be consumed inside the mutex.)
    ev = OperatorCircuitEvaluator(tp.TranspilingEstimatorV2(mp.BatchingMutexEstimator(exactprims.ExactEstimator(), case.get("wait")), pm), 0.0, op)
    wrong, errors = [], []
    stop = threading.Event()
    done = [0]

    def worker(k):
        idx = list(range(k, len(circuits), case["threads"]))
        for _ in range(case["rounds"]):
            if stop.is_set():
                return
            try:
                vals = ev.evaluate_circuits([circuits[i] for i in idx], [[] for _ in idx])
            except Exception as e:
                errors.append((type(e).__name__, str(e)[:200]))
                stop.set()
                return
            done[0] += len(idx)
            for i, v in zip(idx, vals):
                if abs(v - want[i]) > 1e-9:
                    wrong.append((i, float(v), want[i]))
                    stop.set()

    import sys

    old_interval = sys.getswitchinterval()
    sys.setswitchinterval(case.get("switchinterval", 1e-4))  # many thread switches inside PassManager.run: measured hit rate ~20% per evaluation when unlocked
    try:
        ths = [threading.Thread(target=worker, args=(k,), daemon=True) for k in range(case["threads"])]
        for t in ths:
            t.start()
        for t in ths:
            t.join(600)
    finally:
        sys.setswitchinterval(old_interval)
    ctx.notes["concurrent_transpile_probe"] = {
        "threads": case["threads"], "evaluations": done[0], "wrong": len(wrong), "errors": len(errors),
        "detection": "probabilistic; with sys.setswitchinterval(1e-4) and an unlocked shared preset pass manager (line coupling map, initial_layout) 150-250 of 1200 concurrent "
                     "transpilations were wrong or raised (5 of 1200 at the default switch interval); an observed wrong value is a definite violation"}
    ctx.tally("probe:concurrent-transpile-evaluations", done[0])
    if wrong or errors:
        i = wrong[0][0] if wrong else None
        d = dict(case)
        d["replay_summary"] = {"circuit": gates_list[i] if i is not None else None, "params": [], "observable_or_function": case["objective"], "layout": [case["pm"]],
                               "stack": f"T(B(raw)) called by {case['threads']} threads concurrently", "note": "probabilistic: re-run the probe"}
        what = (f"OperatorCircuitEvaluator through TranspilingEstimatorV2(BatchingMutexEstimator(exact)) called from {case['threads']} threads returned {wrong[0][1]!r} for circuit {i}, "
                f"the objective is {wrong[0][2]!r} (after {done[0]} evaluations; the shared PassManager is run concurrently)") if wrong else f"evaluate_circuits raised {errors[0]} under concurrent callers"
        ctx.violation("oracle", "transpile-wrapper-concurrent-passmanager", what, d, detail={"wrong": wrong[:5], "errors": errors[:3]})


def gen_probe_case(rng, rounds):
    n = 3
    circuits = []
    for _ in range(40):
        circuits.append(gen_classical_gates(rng, n, set(range(n)), 0, 7))
    return {"probe": "concurrent-transpile", "n": n, "circuits": circuits, "threads": 8, "rounds": rounds,
            "objective": {"op": [[str(Fraction(1, 2 ** (q + 1))), [[q, "Z"]]] for q in range(n)]},
            "pm": {"level": 0, "line": 5, "initial_layout": [4, 0, 2], "seed": 4}}


def fingerprint(case):
    return json.dumps(case, sort_keys=True)


def nontrivial(case):
    return any(len(c["circuits"]) > 0 for c in case["callers"])


def corpus_cases():
    d = core.ROOT / "corpus" / "C03"
    return [json.loads(f.read_text()) for f in sorted(d.glob("*.json"))] if d.exists() else []


def run(ctx):
    translate.check_link(ctx, "C03")  # regenerate Gallina from /repo's current source; link lemmas coq/link/C03Link.v
    ctx.rule = ("random classical-instance circuits (x, cx, swap, rx(k*pi), h on fresh qubits; 1-4 qubits) and random non-classical circuits (u/cu/cx with "
                "random angles, 1-3 qubits) x {operator+sampler, bitstring, operator+estimator} x alpha in {1,1/2,1/4} x optional initial state x wrapper stacks "
                "{raw, T0, TL, M, B, TL(B), TL(M), T0(B), M(TL), B(TL)} (T0 level-0 preset, TL line coupling map with random initial_layout / wider device / routing, "
                "B with 1-4 concurrent callers); distinct = distinct case JSON; non-trivial = at least one circuit evaluated")
    cases = corpus_cases()
    n_corpus = len(cases)
    kinds = ["opsampler", "bits", "est"]
    total = ctx.n(150, 2000)
    i = 0
    while len(cases) - n_corpus < total:
        shape_name, shape = STACK_SHAPES[i % len(STACK_SHAPES)]
        kind = kinds[(i // len(STACK_SHAPES)) % 3]
        family = "classical" if (i // 3) % 3 != 2 else "random"
        i += 1
        cases.append(gen_case(ctx.rng, family, kind, shape_name, shape))
    lits, owners = [], []
    for case in cases:
        ctx.tally(f"{case['family']}:{case['kind']}:{case['stack_name']}")
        ctx.tally(f"callers:{len(case['callers'])}")
        ctx.tally("init:" + ("yes" if case["init"] is not None else "no"))
        shots_set = {cfg(case, k).get("shots") for k in range(len(case["callers"]))}
        if len(case["callers"]) > 1 and case["kind"] == "est":
            ctx.tally("multi-caller-estimator:" + ("own-observable-per-caller" if any("cfg" in c for c in case["callers"]) else "shared-observable"))
        if len(case["callers"]) > 1 and case["kind"] != "est":
            ctx.tally("multi-caller-sampler:" + ("different-shots-per-caller" if len(shots_set) > 1 else "same-shots"))
            if len({cfg(case, k)["kind"] for k in range(len(case["callers"]))}) > 1:
                ctx.tally("multi-caller-sampler:mixed-evaluator-kinds")
        for cl in case["callers"]:
            for g, p_, t in zip(cl["circuits"], cl["params"], cl.get("ptypes") or []):
                ctx.tally("paramvector:" + ("empty-" if not p_ else "") + t)
                if not g:
                    ctx.tally("circuit:gate-free")
            if cl.get("sequence"):
                ctx.tally("reused-evaluator-sequence:" + ("with-failed-job" if any(s_.get("fail") for s_ in cl["sequence"]) else "ordinary-only"))
                ctx.tally("reused-evaluator-sequence:calls", 1 + len(cl["sequence"]))
            if cl.get("repeat", 1) > 1:
                ctx.tally("same-list-evaluated-again:" + ("with-initial-state" if case["init"] is not None else "no-initial-state"))
            if cl.get("container") == "tuple":
                ctx.tally("circuits-given-as-tuple")
        if "alpha" in case:
            ctx.tally("alpha:" + case["alpha"])
        if case["kind"] == "est":
            ctx.tally(f"estimator-precision:{case.get('precision', 0.0)}")
        for k in range(len(case["callers"])):
            ctx.tally("objective-scale:" + cfg(case, k)["objective"].get("scale", "1"))
        if "op" in case["objective"]:
            ctx.tally("opform:" + case["objective"].get("form", "plain"))
            labels = [json.dumps(sorted(t)) for _, t in case["objective"]["op"]]
            if len(set(labels)) < len(labels):
                ctx.tally("operator-with-repeated-pauli-strings" + (":opsampler:alpha<1" if case["kind"] == "opsampler" and case["alpha"] != "1" else ""))
        got = do_case(ctx, case)
        ctx.case(fingerprint(case), nontrivial(case), sample={k: case[k] for k in ("family", "kind", "n", "stack_name", "init", "callers", "objective")} if len(ctx.samples) < 3 else None)
        for ci, lit, legacy_lit in got:
            lits.append(lit)
            owners.append((case, ci, legacy_lit))
    probe = gen_probe_case(ctx.rng, ctx.n(40, 400))   # 8 threads x rounds x 5 circuits each
    probe_concurrent_transpile(ctx, probe)
    ctx.case(fingerprint(probe), True)
    bad = core.model_mismatches("C03", IMPORTS, "check_case", lits, chunk=60)
    for i in bad[:5]:
        case, ci, legacy_lit = owners[i]
        legacy_agrees = None
        if legacy_lit is not None:  # (the legacy variant depends on the layout: run it with the real layout, no model swaps)
            legacy_agrees = not core.model_mismatches("C03_legacy", IMPORTS, "check_case", [legacy_lit])
        what = "the Coq model of the evaluation pipeline and the implementation return different values"
        if legacy_agrees:
            what += " (the implementation agrees with the LEGACY transpiling estimator: observable left on the virtual qubits)"
        ctx.violation("correspondence", "model-vs-impl" + ("-legacy" if legacy_agrees else ""), what, describe(case, ci, 0), detail=dict(gallina=lits[i][:3000]))
    ctx.traces = len(lits)
    ctx.notes["model_cases"] = len(lits)
    ctx.notes["corpus_cases"] = n_corpus


def replay(ctx, payload):
    if translate.is_link_replay(payload) and not payload.get("failing_input"):
        return translate.replay(ctx, payload, "C03")
    c = payload.get("case") or payload.get("failing_input")
    if c.get("probe") == "concurrent-transpile":
        probe_concurrent_transpile(ctx, {k: v for k, v in c.items() if k != "replay_summary"})
        print("concurrent-transpile probe:", "FAILS " + ctx.violations[0]["what"] if ctx.violations else "no wrong value this time (probabilistic)")
        return
    case = {k: v for k, v in c.items() if k not in ("failing_caller", "failing_position", "replay_summary")}
    lits = do_case(ctx, case)
    for v in ctx.violations:
        print("  ", v["what"])
    print("impl-vs-objective:", "FAILS" if ctx.violations else "ok")
    if lits:
        bad = core.model_mismatches("C03_replay", IMPORTS, "check_case", [l[1] for l in lits])
        print("model-vs-impl:", "DIFFER" if bad else "agree")
        print("model:", core.model_show("C03_replay", IMPORTS, f"show_case ({lits[0][1]})"))
