"""C05 — the solver result is consistent with its own evaluation history.
Oracle: vlib.solvercases.oracle_c05 / oracle_c05_tokens / oracle_evqe_c05 on what the implementation returned.
Correspondence: QV.Solver.SolverCheck.check_case (the loop model fed the same script)."""
from __future__ import annotations

from vlib import translate


def run(ctx):
    translate.check_link(ctx, "C12")
    translate.check_link(ctx, "C10")   # the evaluation operator (selection) and the other EVQE operators: which value is recorded at which index
    from vlib import solvercases as sc

    sc.run_property(ctx, "C05", strict_multi=False, n_scripted=ctx.n(600, 6000), n_evqe=ctx.n(18, 60), enum_events=None if ctx.quick else 5)


def replay(ctx, payload):
    if translate.is_link_replay(payload) and not payload.get("failing_input"):
        return translate.replay(ctx, payload, "C12")  # a replay file written for a broken translation tie
    from vlib import solvercases as sc

    sc.replay_property(ctx, "C05", payload, strict_multi=False)
