"""C04 — all circuit views of an individual denote the same unitary.
Implementation side: the real QuantumCircuit objects of every view are built and read off as instruction
lists (name, qubit indices, parameters: names for symbolic ones, float.hex() tokens for bound ones).
Oracle: the views agree as DAGs for all sizes and by Operator.equiv for <= 4 qubits.
Correspondence: QV.Evqe.C04Check.check_case - the model (Evqe/Circuit.v) yields the same DAGs and the same
ORDER of circuit.parameters (the trusted string-order assumption, incl. q10 < q2 and lambda < phi < theta)."""
from __future__ import annotations

import json

from vlib import core, evqe
from vlib import translate

IMPORTS = "From QV Require Import Evqe.Circuit Evqe.C04Check.\nOpen Scope Z_scope.\nOpen Scope string_scope."


# ------------------------------------------------------------------ reading circuits
def read_circuit(c):
    """[(name, [qubit indices], [param]), ...] with param = ("n", name) | ("v", float.hex())"""
    out = []
    for inst in c.data:
        ps = []
        for p in inst.operation.params:
            if isinstance(p, (int, float)):
                ps.append(("v", float(p).hex()))
            elif getattr(p, "parameters", None) is not None and len(p.parameters) == 0:
                ps.append(("v", float(p).hex()))
            elif hasattr(p, "name"):
                ps.append(("n", p.name))
            else:
                ps.append(("n", "<expr:" + str(p) + ">"))
        out.append((inst.operation.name, [c.find_bit(q).index for q in inst.qubits], ps))
    return out


def wires(instrs, n):
    return [[i for i in instrs if q in i[1]] for q in range(n)]


def same_dag(a, b, n):
    return len(a) == len(b) and wires(a, n) == wires(b, n)


def zlit(k):
    return str(k) if k >= 0 else f"({k})"


def g_angle(p, toks):
    return f'(nm "{p[1]}")' if p[0] == "n" else f"(av {zlit(toks.tok(float.fromhex(p[1])))})"


def g_circuit(instrs, toks):
    out = []
    for name, qs, ps in instrs:
        a = " ".join(g_angle(p, toks) for p in ps)
        if name == "id" and len(qs) == 1 and not ps:
            out.append(f"IId {zlit(qs[0])}")
        elif name == "u" and len(qs) == 1 and len(ps) == 3:
            out.append(f"IU {zlit(qs[0])} {a}")
        elif name == "cu3" and len(qs) == 2 and len(ps) == 3:
            out.append(f"ICU3 {zlit(qs[0])} {zlit(qs[1])} {a}")
        else:
            return None
    return "[" + "; ".join(out) + "]"


def g_strings(names):
    return "[" + "; ".join(f'"{s}"' for s in names) + "]"


# ------------------------------------------------------------------ one case
def equiv(c1, c2):
    from qiskit.quantum_info import Operator

    return bool(Operator(c1).equiv(Operator(c2)))


def do_case(ctx, case):
    """case = {"ind": plain individual, "S": [ints], "k": int, "new": [floats]}, or
    {"kind": "twins", "members": [case, ...]}: several such cases evaluated consecutively in this one process"""
    if case.get("kind") == "twins":
        return do_twins_case(ctx, case)
    if case.get("kind") == "argreuse":
        return do_argreuse_case(ctx, case)
    return do_single_case(ctx, case)


def do_twins_case(ctx, case):
    """Hash-collision twins: individuals (or replacement vectors) identical except for values with equal hash
    (-1.0 / -2.0 / the int -1; 0.0 / -0.0).  EVQEIndividual.__eq__ is hash equality, so anything keyed by the
    individual confuses them.  Every member's views must still agree among themselves."""
    ctx.tally(f"twins:{case.get('how', '?')}")
    before = len(ctx.violations)
    out = []
    for m in case["members"]:
        g = do_single_case(ctx, m)
        if g is not None:
            out.append(g)
    for v in ctx.violations[before:]:
        v["what"] = f"with hash-equal twin individuals evaluated consecutively in one process ({case.get('how')}): " + v["what"] + f" [member values {v['case']['ind']['values'][:8]}, new {v['case']['new'][:6]}]"
        v["case"] = case
    return out


def typed_int(k, k_type):
    """layer ids as the integer types callers use: HEAD accepts numpy integers and int subclasses like plain ints"""
    if k_type in (None, "int"):
        return k
    import numpy as np

    if k_type == "int64":
        return np.int64(k)
    if k_type == "intp":
        return np.intp(k)
    if k_type == "int32":
        return np.int32(k)

    class LayerId(int):
        pass

    return LayerId(k)


def do_argreuse_case(ctx, case):
    """One set object (with negative ids) and one tuple of new values are passed to SEVERAL individuals of different
    depth in sequence: the callee must not change the caller's objects, and every individual's views must agree."""
    ctx.tally("argreuse")
    S_obj = set(case["S"])
    snapshot = set(S_obj)
    before, out, mutated = len(ctx.violations), [], False
    for m in case["members"]:
        g = do_single_case(ctx, dict(m, S=list(case["S"])), S_obj=S_obj)
        if g is not None:
            out.append(g)
        if S_obj != snapshot and not mutated:
            mutated = True  # reported once; the sequence goes on with the caller's (now changed) object, as a caller would
            ctx.violation("oracle", "caller-set-mutated", f"get_partially_parameterized_quantum_circuit changed the caller's set of layer ids: {sorted(snapshot)} became {sorted(S_obj)} "
                          f"(individual with {len(m['ind']['layers'])} layers)", case)
    for v in ctx.violations[before:]:
        if v["case"] is not case:
            v["what"] = f"with ONE set object {sorted(snapshot)} passed to individuals of {[len(m['ind']['layers']) for m in case['members']]} layers in sequence: " + v["what"]
            v["case"] = case
    return out


def do_single_case(ctx, case, S_obj=None):
    ind, S, k, new = case["ind"], case["S"], case["k"], case["new"]
    k_arg = typed_int(k, case.get("k_type"))
    n, L = ind["n"], len(ind["layers"])
    ctx.tally(f"qubits={'>=11' if n >= 11 else n}")
    ctx.tally(f"layers={'>=11' if L >= 11 else L}")
    toks = evqe.TokenTable()
    try:
        from queasars.minimum_eigensolvers.evqe.evolutionary_algorithm.individual import EVQEIndividual

        o = evqe.impl_individual(ind)
        S_mod = sorted({s % L for s in S})
        c_conc = o.get_quantum_circuit()
        pc = o.get_parameterized_quantum_circuit()
        c_assigned = pc.assign_parameters(o.get_parameter_values())
        pp = o.get_partially_parameterized_quantum_circuit(set(S) if S_obj is None else S_obj)
        vals_S = [v for j in S_mod for v in o.get_layer_parameter_values(j)]
        pp_bound = pp.assign_parameters(vals_S)
        c_bylayer = o.get_partially_parameterized_quantum_circuit(set())
        o2 = EVQEIndividual.change_layer_parameter_values(o, k_arg, tuple(new))
        c_updated = o2.get_quantum_circuit()
        p1 = o.get_partially_parameterized_quantum_circuit({k_arg})
        update_applied = [float(v).hex() for v in o2.get_layer_parameter_values(k)] == [float(v).hex() for v in new]
        c_single = p1.assign_parameters(tuple(new))
        other_values_kept = all(o2.get_layer_parameter_values(j) == o.get_layer_parameter_values(j) for j in range(L) if j != k % L)
        bylayer2 = o2.get_partially_parameterized_quantum_circuit(set())
    except Exception as e:
        ctx.violation("oracle", f"view-raises-{type(e).__name__}", f"building a circuit view of a valid individual raised {type(e).__name__}: {str(e)[:200]}", case)
        return None
    r = {name: read_circuit(c) for name, c in dict(concrete=c_conc, assigned=c_assigned, partial=pp, partial_bound=pp_bound, bylayer=c_bylayer, updated=c_updated, single=c_single, bylayer2=bylayer2).items()}
    # ---- oracle: the views agree
    for a, b, key, what in (
        ("concrete", "bylayer", "concrete-vs-bylayer", "get_quantum_circuit() differs from the circuit with every layer bound to its own values (get_partially_parameterized_quantum_circuit(set()))"),
        ("concrete", "assigned", "concrete-vs-assigned", "get_quantum_circuit() differs from get_parameterized_quantum_circuit().assign_parameters(parameter_values)"),
        ("concrete", "partial_bound", "concrete-vs-partial", f"get_quantum_circuit() differs from get_partially_parameterized_quantum_circuit({sorted(set(S))}) bound with the per-layer values of its symbolic layers"),
        ("updated", "single", "update-vs-single-layer-binding", f"change_layer_parameter_values(.., {k}, new).get_quantum_circuit() differs from get_partially_parameterized_quantum_circuit({{{k}}}).assign_parameters(new)"),
        ("updated", "bylayer2", "updated-vs-bylayer", "after change_layer_parameter_values: get_quantum_circuit() differs from the circuit with every layer bound to its own values"),
    ):
        if not same_dag(r[a], r[b], n):
            ctx.violation("oracle", key, what + f" ({L} layers, {n} qubits; instruction lists differ)", case)
    if not update_applied:
        ctx.violation("oracle", "update-not-applied", f"change_layer_parameter_values(.., layer_id={k!r} as {case.get('k_type', 'int')}, new): layer {k % L} of the result does not hold the new values ({L} layers)", case)
    if case.get("k_type"):
        ctx.tally(f"layer-id-type={case['k_type']}")
    if L > 256:
        ctx.tally(f"very-deep:target={'last' if k % L == L - 1 else k % L}")
    if not other_values_kept:
        ctx.violation("oracle", "update-touches-other-layer", "change_layer_parameter_values changed the values of another layer", case)
    # contribution of the other layers untouched: by-layer circuits of ind and ind' differ only in layer k's instructions
    if n <= 4:
        ctx.tally("operator-equiv-checked")
        try:
            if not (equiv(c_conc, c_bylayer) and equiv(c_conc, c_assigned) and equiv(c_conc, pp_bound)):
                ctx.violation("oracle", "unitary-views-differ", f"Operator.equiv: the views of the individual are different unitaries ({L} layers, {n} qubits)", case)
            if not equiv(c_updated, c_single):
                ctx.violation("oracle", "unitary-update-differs", "Operator.equiv: layer update and single-layer binding are different unitaries", case)
        except Exception as e:
            ctx.violation("oracle", f"operator-raises-{type(e).__name__}", f"Operator(...) raised {type(e).__name__}: {str(e)[:200]}", case)
    # ---- Gallina case
    for v in ind["values"]:
        toks.tok(v)
    gs = {name: g_circuit(instrs, toks) for name, instrs in r.items()}
    if any(g is None for g in gs.values()):
        ctx.violation("correspondence", "unknown-instruction", "a circuit view contains an instruction other than id/u/cu3", case, detail={k2: v for k2, v in r.items() if gs[k2] is None})
        return None
    zl = lambda xs: "[" + "; ".join(zlit(x) for x in xs) + "]"
    return ("mkC04 " + evqe.g_individual(ind, toks) + " " + zl(S) + " " + zlit(k) + " " + zl([toks.tok(v) for v in new]) + " "
            + g_strings([p.name for p in pc.parameters]) + " " + gs["concrete"] + " " + gs["assigned"] + " "
            + g_strings([p.name for p in pp.parameters]) + " " + gs["partial"] + " " + gs["partial_bound"] + " " + gs["bylayer"] + " "
            + gs["updated"] + " " + gs["single"])


# ------------------------------------------------------------------ generators
def gen_case(rng, n=None, L=None):
    if n is None:
        n = rng.choice([1, 1, 2, 2, 2, 3, 3, 3, 4, 4, 5, 6, 8, 11, 12, 13])
    if L is None:
        L = rng.choice([1, 2, 2, 3, 3, 4, 5, 6, 9, 10, 11, 12, 14])
    layers = []
    for _ in range(L):
        r = rng.random()
        if r < 0.12:
            layers.append({"n": n, "gates": [["I", q] for q in range(n)]})  # no parameters
        else:
            layers.append(evqe.random_valid_layer(rng, n))
    if n >= 11 and all(l["gates"][10][0] not in ("R", "CR") for l in layers):
        layers[0] = {"n": n, "gates": [["R", q] for q in range(n)]}  # a parameter on q10/q11: "q10" < "q2"
    counter = [0]

    def value():
        counter[0] += 1
        r = rng.random()
        if r < 0.1:
            return rng.choice([0.0, 0.5, 3.141592653589793])
        if r < 0.2:
            return rng.choice([-1.0, -2.0])  # hash(-1.0) == hash(-2.0) in CPython
        return round(rng.uniform(-6.5, 6.5), 6) + counter[0] * 1e-3

    values = [value() for l in layers for _ in range(evqe.layer_n_parameters(l))]
    ind = {"n": n, "layers": layers, "values": values}
    r = rng.random()
    if r < 0.15:
        S = []
    elif r < 0.3:
        S = list(range(L))
    else:
        S = sorted({rng.randrange(-L, L) for _ in range(rng.randint(1, max(1, L)))}, key=lambda x: rng.random())
    k = rng.randrange(-L, 2 * L)
    new = [value() for _ in range(evqe.layer_n_parameters(layers[k % L]))]
    return {"ind": ind, "S": S, "k": k, "new": new}


def gen_very_deep(rng, target):
    """1 qubit, 258-300 layers; the replacement is aimed at layer `target` ('last' / -1 / an index around 256)"""
    L = rng.randint(258, 300)
    # mostly parameterless layers (the model's name sort is quadratic), rotations at the targets and a few others
    layers = [{"n": 1, "gates": [["R", 0]]} if rng.random() < 0.03 else {"n": 1, "gates": [["I", 0]]} for _ in range(L)]
    for j in (0, 254, 255, 256, 257, 258 % L, 259 % L, L - 2, L - 1):
        layers[j] = {"n": 1, "gates": [["R", 0]]}
    k = L - 1 if target == "last" else target
    layers[k % L] = {"n": 1, "gates": [["R", 0]]}
    values = [round(rng.uniform(-3, 3), 4) + j * 1e-3 for j in range(sum(evqe.layer_n_parameters(l) for l in layers))]
    return {"ind": {"n": 1, "layers": layers, "values": values}, "S": rng.choice([[], [-1], [257, 3], [k]]), "k": k, "new": [7.25, 8.5, 9.125]}


def gen_typed_id(rng, k_type):
    c = gen_case(rng, n=rng.choice([1, 2, 3]), L=rng.choice([2, 3, 4, 6]))
    return dict(c, k_type=k_type)


def gen_argreuse(rng):
    """individuals of different depth, one shared set of (negative) layer ids"""
    depths = rng.sample([1, 2, 3, 4, 5, 6], 3)
    n = rng.choice([1, 2, 3])
    members = [gen_case(rng, n=n, L=L) for L in depths]
    S = sorted({rng.choice([-1, -1, -2, -3, 7, 9]) for _ in range(rng.choice([1, 1, 2]))})
    return {"kind": "argreuse", "S": S, "members": members}


TWIN_VALUES = {"-1.0/-2.0": (-1.0, -2.0), "-2.0/-1.0": (-2.0, -1.0), "int -1/-2.0": (-1, -2.0), "-2.0/int -2/-1.0": (-2.0, -2, -1.0), "0.0/-0.0": (0.0, -0.0)}


def gen_twins(rng, how, where):
    """members identical except that the chosen positions hold the values of TWIN_VALUES[how], either in the
    individual's parameter values (where='values') or in the replacement vector of one layer (where='new': the
    scan of a layer angle over whole radians through change_layer_parameter_values)"""
    while True:
        base = gen_case(rng, n=rng.choice([1, 2, 2, 3]), L=rng.choice([1, 2, 3]))
        L = len(base["ind"]["layers"])
        if where == "values" and base["ind"]["values"]:
            break
        if where == "new" and base["new"]:
            break
    vec = base["ind"]["values"] if where == "values" else base["new"]
    pos = sorted(rng.sample(range(len(vec)), rng.choice([1, 1, 2]) if len(vec) > 1 else 1))
    members = []
    for tv in TWIN_VALUES[how]:
        m = json.loads(json.dumps(base))
        tgt = m["ind"]["values"] if where == "values" else m["new"]
        for q in pos:
            tgt[q] = tv
        members.append(m)
    return {"kind": "twins", "how": f"{how} in {where}", "members": members}


def run(ctx):
    translate.check_link(ctx, "C04")  # regenerate Gallina from /repo's current source; link lemmas coq/link/C04Link.v
    ctx.rule = ("random valid individuals, 1-13 qubits x 1-14 layers (both >= 11 occur: 'layer10' and 'q10' string-order effects), 12% parameterless layers, pairwise different values; "
                "S = none / all / random subset incl. negative ids; k any integer in [-L, 2L); thorough: also every layer count 1-25 at 2 qubits; "
                "very deep individuals (1 qubit, 258-300 layers) with the replacement aimed at layers 255..258 / last / -1; layer ids given as numpy.int64 / intp / int32 / an int subclass; argument reuse: ONE set object with negative ids passed to individuals of different depth in sequence (must stay unchanged); values include -1.0 and -2.0 (equal hash); hash-collision twins: 2-3 individuals (or replacement vectors of one layer) identical except for -1.0 / -2.0 / int -1 / int -2 or 0.0 / -0.0, all views of each evaluated consecutively in one process; "
                "distinct = distinct (individual, S, k, new); non-trivial = individual has at least one parameter")
    cases = []
    cdir = core.ROOT / "corpus" / "C04"
    for f in sorted(cdir.glob("*.json")) if cdir.exists() else []:
        cases.append(json.loads(f.read_text()))
    for L in (10, 11, 12):
        cases.append(gen_case(ctx.rng, n=2, L=L))
    cases.append(gen_case(ctx.rng, n=12, L=2))
    for _ in range(ctx.n(110, 1500)):
        cases.append(gen_case(ctx.rng))
    for target in ((255, 256, 257, 258, "last", -1) if ctx.quick else (0, 254, 255, 256, 257, 258, 259, "last", -1, -2, 557, -300)):
        cases.append(gen_very_deep(ctx.rng, target))
    for k_type in ("int64", "intp", "int32", "intsub"):
        for _ in range(ctx.n(2, 12)):
            cases.append(gen_typed_id(ctx.rng, k_type))
    for _ in range(ctx.n(8, 60)):
        cases.append(gen_argreuse(ctx.rng))
    for how in TWIN_VALUES:
        for where in ("values", "new"):
            for _ in range(ctx.n(1, 6)):
                cases.append(gen_twins(ctx.rng, how, where))
    if not ctx.quick:
        for L in range(1, 26):
            for _ in range(3):
                cases.append(gen_case(ctx.rng, n=2, L=L))
        ctx.notes["layer_counts"] = "every layer count 1..25 at 2 qubits x 3"
    glits, kept = [], []
    for c in cases:
        g = do_case(ctx, c)
        ctx.case(c, nontrivial=c.get("kind") in ("twins", "argreuse") or len(c["ind"]["values"]) > 0, sample=None)
        for gg in ([] if g is None else g if isinstance(g, list) else [g]):
            glits.append(gg)
            kept.append(c)
    small = [c for c in cases if c.get("kind") not in ("twins", "argreuse") and len(c["ind"]["layers"]) <= 2 and c["ind"]["n"] <= 2][:2]
    for c in small:
        ctx.samples.append(c)
    bad = core.model_mismatches("C04", IMPORTS, "check_case", glits, chunk=8)
    for i in bad[:5]:
        detail = {}
        try:
            detail["checks(repaired naming, legacy naming)"] = core.model_show("C04", IMPORTS, f"show_case ({glits[i]})")
        except Exception as e:
            detail["model"] = f"(not evaluated: {e})"
        ctx.violation("correspondence", "model-vs-qiskit", "the Coq model of the circuit views and the QuantumCircuit objects differ (parameter order or instruction DAG); "
                      "checks: [parameter order; concrete; assigned; partial (order, symbolic, bound); by-layer; updated; single-layer binding]", kept[i], detail=detail)
    ctx.traces = len(glits)


def replay(ctx, payload):
    if translate.is_link_replay(payload) and not payload.get("failing_input"):
        return translate.replay(ctx, payload, "C04")  # a replay file written for a broken translation tie
    c = payload.get("case") or payload.get("failing_input")
    g = do_case(ctx, c)
    for v in ctx.violations:
        print("oracle:", v["what"])
    print("impl-vs-property:", "FAILS" if ctx.violations else "ok")
    gs = [] if g is None else g if isinstance(g, list) else [g]
    if gs:
        bad = core.model_mismatches("C04_replay", IMPORTS, "check_case", gs)
        print("model-vs-impl:", f"DIFFER (members {bad})" if bad else "agree")
        for gg in gs:
            print("checks (repaired naming, legacy naming):", core.model_show("C04", IMPORTS, f"show_case ({gg})"))
