"""C02 — JSSP Hamiltonian: shorter makespan means lower energy; ground state is optimal (share = 0).
Oracle: for all feasible basis states grouped by makespan, every state of a smaller makespan is strictly below every state
of a larger one; every minimum-energy basis state decodes to a feasible schedule whose makespan equals the optimum found by
an independent exhaustive job-shop solver (plain enumeration of all start times in [0, limit]).
Correspondence: shared with C01."""
from __future__ import annotations

import json

from vlib import core, jsspenc as je
from vlib import translate
from props import c01
from props.c15 import load_corpus

WANT = {"C02"}
PID = "C02"


def gen_case(rng):
    while True:
        c = c01.gen_case(rng, share=0, max_q=10)
        # the statement needs feasible schedules: prefer instances where jobs interact and there is some slack
        n = je.expected_qubits(c["inst"], c["L"])
        if n >= 3 or rng.random() < 0.2:
            c["kind"] = "c02"
            return c


def run(ctx):
    translate.check_link(ctx, "C15")  # regenerate Gallina from /repo's current encoder source; link lemmas coq/link/C15Link.v
    ctx.rule = ("corpus first; generator of C01 with share = 0 (pure makespan objective), 1-10 qubits, ALL 2^n basis states; optimum from an exhaustive "
                "enumeration of start times that does not use the encoder's windows; distinct = distinct (instance, limit, penalties); "
                "non-trivial = at least 2 qubits and penalties in the regime")
    batch = je.Batch()
    cases = load_corpus(PID) + [gen_case(ctx.rng) for _ in range(ctx.n(320, 4000))]
    if not ctx.quick:
        for inst, L in je.small_scope():
            if 1 <= je.expected_qubits(inst, L) <= 10:
                P, kind = je.gen_penalties(ctx.rng, share=0)
                cases.append({"kind": "c02", "inst": inst, "L": L, "P": P, "shape": "small-scope", "penalties": kind})
        ctx.notes["exhaustive_small_scope"] = "all instances with <= 2 jobs x <= 2 operations on 2 machines, durations <= 2, slack 0..2 with 1..10 qubits, share 0, all basis states"
    cases += [dict(je.gen_contended_case(ctx.rng, share=0), kind=PID.lower()) for _ in range(ctx.n(24, 250))]
    cases += [dict(je.gen_large_slack_case(ctx.rng, share=0), kind=PID.lower()) for _ in range(ctx.n(10, 120))]
    # (n_jobs+1)^limit >= 2^63: long operations (all basis states) and unit operations (selected states, exact energies)
    cases += [dict(je.gen_huge_limit_case(ctx.rng, share=0, kind=k), kind=PID.lower()) for k in ["long", "long", "unit"] * ctx.n(1, 12)]
    # >= 3 operations on one machine with windows of different width / offset (full 2^n sweep)
    cases += [dict(je.gen_shared_machine_case(ctx.rng, share=0), kind=PID.lower()) for _ in range(ctx.n(50, 600))]
    je.assign_objects(ctx.rng, cases)
    for c in cases:
        summ = je.examiner(c)(ctx, batch, c, WANT, ctx.rng)
        ctx.tally(f"objects:{c.get('objects', 'shared')}")
        c01.tally_case(ctx, c, summ)
        if "feasible_states" in summ:
            ctx.tally("feasible-states", summ["feasible_states"])
    je.report_mismatches(ctx, PID, batch)


def replay(ctx, payload):
    if translate.is_link_replay(payload) and not payload.get("failing_input"):
        return translate.replay(ctx, payload, "C15")  # a replay file written for a broken translation tie
    c = payload.get("case") or payload.get("failing_input")
    batch = je.Batch()
    je.examiner(c)(ctx, batch, c, WANT, ctx.rng)
    for v in ctx.violations[:10]:
        print("oracle:", v["key"], "-", v["what"])
    print("impl-vs-property:", "FAILS" if ctx.violations else "ok")
    n0 = len(ctx.violations)
    je.report_mismatches(ctx, PID + "_replay", batch)
    print("model-vs-impl:", "DIFFER" if len(ctx.violations) > n0 else "agree")
    for v in ctx.violations[n0:]:
        print("  ", v["key"], json.dumps(v["detail"], default=str)[:600])
