"""C07 — the wrapped primitive is never used concurrently (batching wrappers: f-begin .. result retrieved; plain mutex
wrappers: run()).  Oracle + exploration + correspondence: vlib/batch.py; models: Batch/Monitor.v, Batch/Mutex.v."""
from vlib import batch, translate


def run(ctx):
    translate.check_link(ctx, "C06")  # regenerate Gallina from /repo's current mutex_primitives.py; link lemmas coq/link/C06Link.v
    batch.run_property(ctx, "C07")
    batch.run_mutex(ctx)
    batch.check_installed(ctx)
    batch.blackbox_stress(ctx)
    batch.check_installed_prewrapped(ctx)
    batch.blackbox_copies(ctx)
    if not ctx.quick:
        batch.stress_free_running(ctx)


def replay(ctx, payload):
    if translate.is_link_replay(payload) and not payload.get("failing_input"):
        return translate.replay(ctx, payload, "C06")  # a replay file written for a broken translation tie
    batch.replay_property(ctx, "C07", payload)
