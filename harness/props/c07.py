"""C07 — the wrapped primitive is never used concurrently (batching wrappers: f-begin .. result retrieved; plain mutex
wrappers: run()).  Oracle + exploration + correspondence: vlib/batch.py; models: Batch/Monitor.v, Batch/Mutex.v."""
from vlib import batch


def run(ctx):
    batch.run_property(ctx, "C07")
    batch.run_mutex(ctx)
    batch.check_installed(ctx)
    batch.blackbox_stress(ctx)
    if not ctx.quick:
        batch.stress_free_running(ctx)


def replay(ctx, payload):
    batch.replay_property(ctx, "C07", payload)
