"""Shared JSSP helpers: building implementation objects from plain data, plain data -> Gallina literals,
random instance generation.  Plain data:
   inst = {"name": str, "machines": [str], "jobs": [{"name": str, "ops": [{"name","job","machine","dur"}]}]}
   sched = [[job_index, [start|None, ...]], ...]   (dict insertion order)"""
from __future__ import annotations

from .core import g_list, g_opt, g_pair, g_str, g_z


NUM_FORMS = ("int", "int64", "int32", "uint8", "uint32", "uint64", "fraction")


def num(x, form="int"):
    """x (an int, a [numerator, denominator] pair or None) in the requested numeric form; durations / start times are
    documented as int — numpy integers and Fractions are legal-but-unusual stand-ins that HEAD handles exactly"""
    if x is None:
        return None
    if isinstance(x, (list, tuple)):
        from fractions import Fraction

        return Fraction(x[0], x[1])
    if form == "int":
        return x
    if form == "fraction":
        from fractions import Fraction

        return Fraction(x)
    import numpy

    return getattr(numpy, form)(x)


def impl_instance(inst, form="int"):
    from queasars.job_shop_scheduling.problem_instances import Job, JobShopSchedulingProblemInstance, Machine, Operation

    machines = {m: Machine(m) for m in inst["machines"]}
    jobs = []
    for j in inst["jobs"]:
        ops = tuple(Operation(o["name"], o["job"], machines.get(o["machine"]) or Machine(o["machine"]), num(o["dur"], form)) for o in j["ops"])
        jobs.append(Job(j["name"], ops))
    return JobShopSchedulingProblemInstance(inst["name"], tuple(machines[m] for m in inst["machines"]), tuple(jobs))


def impl_schedule(pi, sched):
    """sched rows refer to jobs of the instance by index."""
    from queasars.job_shop_scheduling.problem_instances import ScheduledOperation, UnscheduledOperation

    d = {}
    for ji, starts in sched:
        job = pi.jobs[ji]
        d[job] = tuple(UnscheduledOperation(op) if st is None else ScheduledOperation(op, st) for op, st in zip(job.operations, starts))
    return d


def g_op(o) -> str:
    return f"(mkOp {g_str(o['name'])} {g_str(o['job'])} {g_str(o['machine'])} {g_z(o['dur'])})"


def g_job(j) -> str:
    return f"(mkJob {g_str(j['name'])} {g_list(g_op(o) for o in j['ops'])})"


def g_inst(inst) -> str:
    return f"(mkInst {g_str(inst['name'])} {g_list(g_str(m) for m in inst['machines'])} {g_list(g_job(j) for j in inst['jobs'])})"


def g_sched(inst, sched) -> str:
    rows = []
    for ji, starts in sched:
        j = inst["jobs"][ji]
        row = g_list(g_pair(g_op(o), g_opt(None if st is None else g_z(st))) for o, st in zip(j["ops"], starts))
        rows.append(g_pair(g_job(j), row))
    return g_list(rows)


def random_instance(rng, max_jobs=3, max_machines=3, max_dur=3, names=None):
    """A valid instance as plain data; jobs may have a single operation, machines may be unused."""
    n_m = rng.randint(1, max_machines)
    n_j = rng.randint(1, max_jobs)
    machines = [f"m{k}" for k in range(n_m)]
    jobs = []
    for j in range(n_j):
        k = rng.randint(1, n_m)
        ms = rng.sample(machines, k)
        jn = f"j{j}"
        jobs.append({"name": jn, "ops": [{"name": f"o{x}", "job": jn, "machine": m, "dur": rng.randint(1, max_dur)} for x, m in enumerate(ms)]})
    return {"name": "inst", "machines": machines, "jobs": jobs}


# ---- general schedules (keys and operations need not belong to the instance): rows = [[jobdata, [[opdata, start|None], ...]], ...]
def expand_sched(inst, sched):
    return [[inst["jobs"][ji], [[o, st] for o, st in zip(inst["jobs"][ji]["ops"], starts)]] for ji, starts in sched]


def impl_job(j, form="int"):
    from queasars.job_shop_scheduling.problem_instances import Job, Machine, Operation

    return Job(j["name"], tuple(Operation(o["name"], o["job"], Machine(o["machine"]), num(o["dur"], form)) for o in j["ops"]))


def impl_general_schedule(rows, form="int", start_form="int"):
    from queasars.job_shop_scheduling.problem_instances import Machine, Operation, ScheduledOperation, UnscheduledOperation

    d = {}
    for j, entries in rows:
        ops = []
        for o, st in entries:
            op = Operation(o["name"], o["job"], Machine(o["machine"]), num(o["dur"], form))
            ops.append(UnscheduledOperation(op) if st is None else ScheduledOperation(op, num(st, start_form)))
        d[impl_job(j, form)] = tuple(ops)
    return d


def g_general_sched(rows) -> str:
    return g_list(g_pair(g_job(j), g_list(g_pair(g_op(o), g_opt(None if st is None else g_z(st))) for o, st in entries)) for j, entries in rows)
