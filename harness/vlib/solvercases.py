"""Cases, Gallina literals and property oracles shared by the C05 and C12 checks (the solver loop
`_solve_by_evolution`).  Needs `core.use_repo()` before import (imports vlib.solverkit).

A *run* (scripted or real EVQE) is reduced to: limits, the recorded items (vlib.solverkit.Recorder vocabulary) and the
outcome.  The oracles below evaluate the clauses of the two properties on that — on what the IMPLEMENTATION did — with
nothing but list arithmetic; the Coq model (QV.Solver.SolverCheck.check_case) is fed the same script and must
reproduce every start (operator, population, ledger, n_generations, estimate), every criterion call and every result
field.
"""
from __future__ import annotations

import json
from fractions import Fraction

from vlib import core
from vlib import solverkit as sk
from vlib.core import g_bool, g_list, g_nat, g_opt, g_str, g_z

IMPORTS = "From QV Require Import Common.Base Solver.Loop Solver.Ledger Solver.SolverCheck.\nFrom Coq Require Import QArith."
NOTHING = "Exception"   # class of the exception raised when no population was evaluated
VALUES = [-1.0, -0.5, 0.0, 0.5, 0.5, 1.0, 1.5, 2.25]


# ================================================================================================ generation
def gen_scripted(rng, style=None, n_ops=None, allow_then=True) -> dict:
    """One scripted case (see solverkit.run_scripted).  Styles:
    evqe     operator list of 3-6 operators shaped like EVQE's (one operator reports count+result, the others counts)
    protocol arbitrary scripts with at most one result per application
    multi    arbitrary scripts, several results per application allowed (outside the documented callback protocol)
    On top of the style (independently): the criterion answers with numpy.bool_; best values are numpy.float64; one of
    the package's own best-individual criteria instead of a scripted one; the solver is constructed with OTHER limits
    and the case's limits are assigned to solver.configuration before the solve; a second case solved afterwards with
    the same solver object.
    """
    forced_ops = n_ops
    style = style or rng.choice(["evqe", "evqe", "protocol", "protocol", "protocol", "multi"])
    n_qubits = 3
    rid = 0
    apps = []
    if style == "evqe":
        n_ops = forced_ops or rng.randint(2, 5)
        sel = rng.randrange(n_ops)
        passes = rng.randint(1, 5)
        silent = {k for k in range(n_ops) if k != sel and rng.random() < 0.3}
        for _ in range(passes):
            for k in range(n_ops):
                evs = []
                if k == sel:
                    evs.append(["count", rng.choice([2, 3, 4])])
                    evs.append(["result", rid, rng.randrange(8), rng.choice(VALUES)])
                    rid += 1
                elif k not in silent:
                    evs.append(["count", rng.choice([0, 1, 5, 7, 12])])
                apps.append(dict(events=evs, ret=len(apps) + 1))
    else:
        n_ops = forced_ops or rng.randint(1, 4)
        for _ in range(rng.randint(1, 10)):
            evs = []
            had_result = False
            for _ in range(rng.choice([0, 1, 1, 2, 2, 3, 4])):
                if rng.random() < 0.45 and (style == "multi" or not had_result):
                    evs.append(["result", rid, rng.randrange(8), rng.choice(VALUES)])
                    rid += 1
                    had_result = True
                else:
                    evs.append(["count", rng.choice([0, 1, 1, 2, 3, 5, 10, -1] if rng.random() < 0.1 else [0, 1, 2, 3, 5, 10])])
            apps.append(dict(events=evs, ret=len(apps) + 1))
        if rng.random() < 0.06:
            apps[rng.randrange(len(apps))]["ret"] = {"raise": "Boom"}
    n_est = rng.choice([0, len(apps) // 2, len(apps) + 3, len(apps) + 3])
    est_alpha = rng.choice([[None], [None, 0, 1, 4], [0, 2, 6, 20], [None, None, 3, -2]])
    estimates = [rng.choice(est_alpha) for _ in range(n_est)]
    total = sum(e[1] for a in apps for e in a["events"] if e[0] == "count")
    lim = rng.choice(["gen", "gen", "evals", "crit", "gen+evals", "gen+crit", "evals+crit", "all"])
    max_gen = rng.choice([-1, 0, 1, 1, 2, 2, 3, 4, rid, rid + 1]) if ("gen" in lim or lim == "all") else None
    max_evals = rng.choice([-3, 0, 1, 4, 7, 10, 15, 25, max(total - 1, 0), total, total + 1]) if ("evals" in lim or lim == "all") else None
    crit = None
    if "crit" in lim or lim == "all":
        p = rng.choice([0.0, 0.2, 0.5, 1.0])
        crit = [rng.random() < p for _ in range(rng.randint(0, rid + 1))]
    aux = rng.choice([None, None, {"list": []}, {"list": [1, 2]}, {"list": [3, 1, 2]}, {"dict": [["a", 1], ["b", 2]]}, {"dict": []},
                      {"dict": [["z_last", 1], ["a_first", 2], ["m", 3]]}, {"dict": [["b", 4], ["a", 2]]}])   # insertion order != sorted order
    case = dict(kind="scripted", style=style, n_ops=n_ops, n_qubits=n_qubits, max_generations=max_gen, max_evals=max_evals,
                criterion=crit, init=rng.choice([None, None, 0, 3, 5, 6]), aux=aux, pop0=0, apps=apps, estimates=estimates)
    if crit is not None and rng.random() < 0.4:
        case["criterion_np"] = True            # truthy / falsy numpy.bool_ answers instead of the bool singletons
    if rng.random() < 0.3:
        case["np_values"] = True               # numpy.float64 best values (what the sampler path reports)
    if crit is not None and style != "multi" and rng.random() < 0.25:
        kind = rng.choice(["change", "relative", "threshold"])
        case["real_criterion"] = dict(kind=kind, violations=rng.choice([0, 0, 1]),
                                      x={"change": rng.choice([0.25, 0.6, 1.1, 5.0]), "relative": rng.choice([0.3, 0.9, 1.0]), "threshold": rng.choice([-0.75, 0.25, 1.25])}[kind])
        case["criterion"] = None               # replaced by what the built-in criterion is observed to answer
        case.pop("criterion_np", None)
        case["np_values"] = rng.random() < 0.75
    if rng.random() < 0.3:
        l0 = dict(max_generations=rng.choice([None, 0, 1, 5, 50]), max_evals=rng.choice([None, 0, 3, 1000]),
                  criterion=rng.choice([None, None, [True], [False, False, True]]))
        if l0["max_generations"] is None and l0["max_evals"] is None and l0["criterion"] is None:
            l0["max_generations"] = 7           # the configuration constructor insists on one limit
        case["construct_limits"] = l0
    if allow_then and rng.random() < 0.15:
        case["then"] = gen_scripted(rng, n_ops=n_ops, allow_then=False)
        case["then"].pop("construct_limits", None)
    return case


LONG_GENERATIONS = [100, 127, 128, 129, 200, 256, 257, 300, 1000]   # around / beyond powers of two and typical buffer sizes


def gen_long(rng, G: int) -> dict:
    """max_generations = G is the ONLY limit; one cheap stub operator reports a count and a result per application.  The
    script holds G + 2 applications: an implementation that honours the limit uses exactly G of them and returns; one
    that does not starts generation G + 1 (reported by the oracle) and is aborted by ScriptExhausted two applications
    later.  Stored compactly (key "long"); expand_case() produces the applications."""
    return dict(kind="scripted", style="long", n_ops=1, n_qubits=3, max_generations=G, max_evals=None, criterion=None,
                init=rng.choice([None, 5]), aux=None, pop0=0, estimates=[],
                long=dict(applications=G + 2, count=rng.choice([1, 3]), salt=rng.randrange(1000)))


def gen_big_budget(rng) -> dict:
    """max_circuit_evaluations large (> 10^4) is the only limit; cheap stubs report thousands of evaluations each."""
    B = rng.choice([10001, 16384, 16385, 32768, 65536, 65537, 10**6])
    n_ops = rng.randint(1, 3)
    apps, total, rid = [], 0, 0
    while total < B + B // 2 and len(apps) < 60:
        c = rng.choice([B // 7 + 1, B // 3, 4096, 9999, B // 2 + 1])
        evs = [["count", c]]
        total += c
        if rng.random() < 0.5:
            evs.append(["result", rid, rng.randrange(8), rng.choice(VALUES)])
            rid += 1
        apps.append(dict(events=evs, ret=len(apps) + 1))
    est = rng.choice([[], [None, B // 5, None, 100], [B, 0]])
    return dict(kind="scripted", style="big-budget", n_ops=n_ops, n_qubits=3, max_generations=None, max_evals=B, criterion=None,
                init=None, aux=None, pop0=0, apps=apps, estimates=[rng.choice(est) if est else None for _ in range(len(apps) if est else 0)])


def gen_huge_budget(rng) -> dict:
    """Budgets beyond 2^31 / 2^32 (Python ints are unbounded: the clauses hold for all of them); stub operators report
    5e8 evaluations each; the budget is the only limit (2^63 is never reached: the script ends the run)."""
    B = rng.choice([2_400_000_000, 5_000_000_000, 2**31 - 1, 2**31, 2**31 + 1, 2**32 - 1, 2**32, 2**32 + 1, 2**63])
    c = 500_000_000
    n_apps = min(B // c + 4, 16)
    apps, rid = [], 0
    for i in range(n_apps):
        evs = [["count", c]]
        if i % 2 == 1 or rng.random() < 0.3:
            evs.append(["result", rid, rng.randrange(8), rng.choice(VALUES)])
            rid += 1
        apps.append(dict(events=evs, ret=i + 1))
    est = rng.choice([None, c, 0])
    return dict(kind="scripted", style="huge-budget", n_ops=rng.randint(1, 2), n_qubits=3, max_generations=None, max_evals=B, criterion=None,
                init=None, aux=None, pop0=0, apps=apps, estimates=[est] * (n_apps + 2) if est is not None else [])


def gen_after_failure(rng) -> dict:
    """Solver reuse around a failed solve: a solve that returns, then a solve in which an operator raises in generation
    1..3, then a solve with max_generations as the only limit, then one with a budget — all with the same solver object.
    Every clause is evaluated on every solve (generations / limits count from the start of THAT solve)."""
    n_ops = rng.randint(1, 3)

    def gens(n, boom_after=None):
        apps, rid = [], 0
        for g in range(n):
            for k in range(n_ops):
                evs = [["count", rng.choice([1, 2, 4])]]
                if k == n_ops - 1:
                    evs.append(["result", rid, rng.randrange(8), rng.choice(VALUES)])
                    rid += 1
                apps.append(dict(events=evs, ret=len(apps) + 1))
            if boom_after is not None and g + 1 == boom_after:
                apps.append(dict(events=[["count", 1]], ret={"raise": "Boom"}))
                break
        return apps

    base = dict(kind="scripted", style="after-failure", n_ops=n_ops, n_qubits=3, init=None, aux=None, pop0=0, estimates=[])
    g_ok, g_boom, G = rng.randint(1, 3), rng.randint(1, 3), rng.randint(2, 6)
    last = dict(base, max_generations=rng.choice([None, 4]), max_evals=rng.choice([5, 9, 14]), criterion=None, apps=gens(8))
    third = dict(base, max_generations=G, max_evals=None, criterion=None, apps=gens(G + 2), then=last)
    second = dict(base, max_generations=rng.choice([g_boom + 2, 9]), max_evals=None, criterion=None, apps=gens(g_boom + 1, boom_after=g_boom), then=third)
    return dict(base, max_generations=g_ok, max_evals=None, criterion=None, apps=gens(g_ok + 1), then=second)


def expand_case(case: dict) -> dict:
    """The runnable form of a compactly stored case (key "long" -> the applications it stands for)."""
    if "long" not in case or "apps" in case:
        return case
    lg = case["long"]
    apps = [dict(events=[["count", lg["count"]], ["result", i, (i + lg["salt"]) % 8, VALUES[(7 * i + lg["salt"]) % len(VALUES)]]], ret=i + 1)
            for i in range(lg["applications"])]
    return dict(case, apps=apps)


def enumerate_small(max_events=4):
    """All scripts over the alphabet {count 2, result(value 1), result(value 0)} with up to `max_events` events split
    into applications of one operator list of 2 operators, under every small limit combination (thorough tier)."""
    import itertools

    alphabet = ["c", "r1", "r0"]
    for n_ev in range(0, max_events + 1):
        for word in itertools.product(alphabet, repeat=n_ev):
            # split the word into applications: cut positions as a bitmask
            for cuts in range(1 << max(n_ev - 1, 0)):
                apps, cur, rid = [], [], 0
                for i, a in enumerate(word):
                    if a == "c":
                        cur.append(["count", 2])
                    else:
                        cur.append(["result", rid, rid % 8, 1.0 if a == "r1" else 0.0])
                        rid += 1
                    if i < n_ev - 1 and (cuts >> i) & 1:
                        apps.append(dict(events=cur, ret=len(apps) + 1))
                        cur = []
                apps.append(dict(events=cur, ret=len(apps) + 1))
                for max_gen, max_evals, crit in ((1, None, None), (2, None, None), (None, 4, None), (None, None, [False, True, False]), (2, 5, [True, False])):
                    yield dict(kind="scripted", style="enum", n_ops=2, n_qubits=3, max_generations=max_gen, max_evals=max_evals,
                               criterion=crit, init=None, aux=None, pop0=0, apps=apps, estimates=[None, 2, None, 0, 3])


# ================================================================================================ Gallina literals
def g_q(x) -> str:
    """Exact rational literal (constructor form: independent of which notation scopes are open)."""
    f = Fraction(float(x))
    return f"(Qmake ({f.numerator})%Z {f.denominator}%positive)"


def g_event(ev) -> str:
    if ev[0] == "count":
        return f"(EvalCount {g_z(ev[1])})"
    return f"(Result ({g_z(ev[1])}, {g_z(ev[2])}, {g_q(ev[3])}))"


def g_aux(aux, conv=g_z) -> str:
    if aux is None:
        return "ANone"
    if "list" in aux:
        return "(AList " + g_list(conv(a) for a in aux["list"]) + ")"
    return "(ADict " + g_list(f"({g_str(k)}, {conv(a)})" for k, a in aux["dict"]) + ")"


def g_case(case: dict, obs: dict) -> str:
    """Gallina literal of QV.Solver.SolverCheck.scase from the configuration/script `case` and the observations `obs`
    (dict(items=..., outcome=...)).  For real EVQE runs `case` is rebuilt from the recording (see case_from_recording)."""
    apps = []
    for a in case["apps"]:
        ret = a["ret"]
        r = f'(Err {g_str(ret["raise"])})' if isinstance(ret, dict) else f"(Ok {g_z(ret)})"
        apps.append("(" + g_list(g_event(e) for e in a["events"]) + ", " + r + ")")
    ests = g_list(g_opt(None if e is None else g_z(e)) for e in case["estimates"])
    starts = []
    for it in obs["items"]:
        if it[0] == "start":
            _, op, pop, ledger, ngen, est = it
            starts.append("(" + ", ".join([
                g_nat(op), g_z(pop),
                g_opt(None if (ledger is None or case.get("style") == "long") else g_list(g_z(x) for x in ledger)),   # long runs: O(G^2) text
                g_opt(None if ngen is None else g_nat(ngen)),
                g_opt(None if est is None else g_z(est))]) + ")")
    crits = [f"({g_z(it[1])}, {g_z(it[2])}, {g_q(it[3])}, {g_bool(it[4])})" for it in obs["items"] if it[0] == "crit"]
    out = obs["outcome"]
    if "ok" in out:
        o = out["ok"]
        aux = o["aux"]
        if aux is not None and not case.get("aux_tokens", True):
            aux = None
        outcome = "(Ok (" + ", ".join([
            g_q(o["eigenvalue"]), g_z(o["best"]), g_list(g_z(x) for x in o["ledger"]), g_nat(o["generations"]),
            g_list(g_z(x) for x in o["history"]), g_opt(None if o.get("eigenstate") is None else g_z(o["eigenstate"])),
            g_aux(aux, conv=lambda v: g_z(int(v)))]) + "))"
    else:
        outcome = f'(Err {g_str(out["err"])})'
    crit = case.get("criterion")
    return ("(Build_scase " + " ".join([
        g_nat(case["n_ops"]),
        g_opt(None if case.get("max_generations") is None else g_z(case["max_generations"])),
        g_opt(None if case.get("max_evals") is None else g_z(case["max_evals"])),
        g_opt(None if crit is None else g_list(g_bool(b) for b in crit)),
        g_opt(None if case.get("init") is None else g_z(case["init"])),
        # compute_minimum_function_value hands [] to _solve_by_evolution when no aux operators are requested
        g_aux(case.get("aux") if (case.get("aux") is not None or case.get("kind") != "scripted") else {"list": []}),
        g_z(case.get("pop0", 0)),
        f"(Build_script {g_list(apps)} {ests})",
        g_list(starts), g_list(crits), outcome]) + ")")


# ================================================================================================ oracles
def F(x) -> Fraction:
    return Fraction(float(x))


def split_generations(events):
    """counts reported before the first result, between results, and after the last one: (closed segments, trailing)"""
    closed, cur = [], []
    for e in events:
        if e[0] == "count":
            cur.append(int(e[1]))
        else:
            closed.append(cur)
            cur = []
    return closed, cur


def applications(items):
    apps, cur = [], None
    for it in items:
        if it[0] == "start":
            cur = dict(start=it, events=[], crits=[], index=len(apps))
            apps.append(cur)
        elif it[0] in ("count", "result") and cur is not None:
            cur["events"].append(it)
        elif it[0] == "crit" and cur is not None:
            cur["crits"].append(it)
    return apps


def is_single_result(items) -> bool:
    return all(sum(1 for e in a["events"] if e[0] == "result") <= 1 for a in applications(items))


def oracle_c05(limits: dict, obs: dict, strict_shape: bool) -> list:
    """Clauses of C05 on one run.  Returns a list of (key, message).  `strict_shape`: demand the ledger shape even when
    a result was not preceded by a count report (False for scripts, where that is the scripted operator's doing)."""
    bad = []
    out = obs["outcome"]
    if "ok" not in out:
        return bad
    o = out["ok"]
    events = [it for it in obs["items"] if it[0] in ("count", "result")]
    results = [e for e in events if e[0] == "result"]
    counts = [int(e[1]) for e in events if e[0] == "count"]
    if not results:
        return bad  # C12's clause
    # eigenvalue = min over the history, best individual = the first that attained it
    vals = [F(e[3]) for e in results]
    m = min(vals)
    first = vals.index(m)
    if F(o["eigenvalue"]) != m:
        bad.append(("eigenvalue-not-min", f"eigenvalue {o['eigenvalue']} but the smallest reported best value is {float(m)} (history values {[float(v) for v in vals]})"))
    elif o["best"] != results[first][2]:
        other = [i for i, v in enumerate(vals) if v == m and results[i][2] == o["best"]]
        bad.append(("best-individual-not-first-min", f"best individual {o['best']} is not the individual {results[first][2]} of the first generation ({first}) that attained the minimum {float(m)}"
                    + (f"; it is the one of the later generation {other[0]}" if other else "")))
    # generations = number of recorded evaluations = number of result reports; history in report order
    if o["generations"] != len(o["history"]) or o["generations"] != len(results):
        bad.append(("generations-count", f"generations={o['generations']}, {len(o['history'])} recorded evaluations, {len(results)} result reports"))
    if o["history"] != [e[1] for e in results]:
        bad.append(("history-order", f"recorded evaluations {o['history']} are not the reported results {[e[1] for e in results]} in order"))
    # ledger: sums to everything reported; one entry per evaluated generation plus at most one trailing entry
    if sum(o["ledger"]) != sum(counts):
        bad.append(("ledger-sum", f"ledger {o['ledger']} sums to {sum(o['ledger'])}, operators reported {sum(counts)}"))
    closed, trailing = split_generations(events)
    counted = all(len(seg) > 0 for seg in closed)
    if counted or strict_shape:
        spec = [sum(seg) for seg in closed] + ([sum(trailing)] if trailing else [])
        if not (len(results) <= len(o["ledger"]) <= len(results) + 1):
            bad.append(("ledger-shape", f"ledger {o['ledger']} has {len(o['ledger'])} entries for {len(results)} evaluated generations"))
        elif o["ledger"] != spec:
            bad.append(("ledger-entries", f"ledger {o['ledger']} but the counts reported per generation are {spec}"))
    return bad


def oracle_c05_tokens(case: dict, obs: dict) -> list:
    """Result assembly for scripted runs: eigenstate / aux values belong to the returned best individual behind the
    initial state (token arithmetic: individual i behind X^init is measured as i xor init; aux a gives 1000 a + that)."""
    bad = []
    out = obs["outcome"]
    if "ok" not in out:
        return bad
    o = out["ok"]
    x = o["best"] ^ (case.get("init") or 0)
    if o["eigenstate"] != x:
        bad.append(("eigenstate-not-of-best", f"eigenstate {o['eigenstate_probs']} is not the certain outcome {x:03b} of best individual {o['best']} behind initial state {case.get('init')}"))
    aux = case.get("aux")
    want = None if aux is None else ({"list": [float(1000 * a + x) for a in aux["list"]]} if "list" in aux else {"dict": [[k, float(1000 * a + x)] for k, a in aux["dict"]]})
    if o["aux"] != want and not (aux is None and o["aux"] == {"list": []}):
        bad.append(("aux-not-of-best", f"aux values {o['aux']} but the objectives of best individual {o['best']} behind the initial state are {want}"))
    if not o["initial_state_is_given"]:
        bad.append(("initial-state-field", "result.initial_state_circuit is not the circuit that was passed in"))
    if not o["history_is_tape_objects"]:
        bad.append(("history-objects", "population_evaluation_results are not the reported result objects in order"))
    return bad


def oracle_c12(limits: dict, obs: dict, protocol_only: bool = True) -> list:
    """Clauses of C12 on one run.  Returns a list of (key, message).
    protocol_only: for applications that reported several results (outside the documented callback protocol: 'calling
    this callback marks the end of the current generation after the current operation has finished') the
    max-generations and criterion clauses are evaluated at application granularity."""
    bad = []
    items, out = obs["items"], obs["outcome"]
    G, B, crit = limits.get("max_generations"), limits.get("max_evals"), limits.get("criterion")
    events = [it for it in items if it[0] in ("count", "result")]
    n_results = sum(1 for e in events if e[0] == "result")
    single = is_single_result(items)
    # --- max_generations
    if G is not None:
        if single and n_results > max(G, 0):
            bad.append(("max-generations-exceeded", f"{n_results} generations evaluated with max_generations={G}"))
        seen = 0
        for it in items:
            if it[0] == "result":
                seen += 1
            elif it[0] == "start" and seen >= G:
                bad.append(("start-after-max-generations", f"operator {it[1]} started with {seen} generations evaluated, max_generations={G}"))
                break
        if B is None and crit is None and "ok" in out:
            if (single and n_results != G) or n_results < G:
                bad.append(("max-generations-not-exact", f"max_generations={G} is the only limit but {n_results} generations were evaluated in this solve (result.generations={out['ok']['generations']})"))
    if "ok" in out and out["ok"]["generations"] != n_results:
        bad.append(("generations-not-this-solve", f"result.generations={out['ok']['generations']} but {n_results} populations were evaluated (result reports) in this solve"))
    if G is not None:
        pass
    # --- budget
    if B is not None:
        reported = 0
        for it in items:
            if it[0] == "count":
                reported += int(it[1])
            elif it[0] == "start":
                est = it[5]
                if reported >= B:
                    bad.append(("start-after-budget", f"operator {it[1]} started with {reported} evaluations reported, max_circuit_evaluations={B}"))
                    break
                if est is not None and reported + est >= B:
                    bad.append(("start-despite-estimate", f"operator {it[1]} started with {reported} evaluations reported + estimate {est} >= max_circuit_evaluations={B}"))
                    break
    # --- ledger value seen at each start = everything reported so far (ties the two notions of 'reported' together)
    reported = 0
    for it in items:
        if it[0] == "count":
            reported += int(it[1])
        elif it[0] == "start" and it[3] is not None and sum(it[3]) != reported:
            bad.append(("ledger-at-start", f"at the start of operator {it[1]} the ledger {it[3]} does not sum to the {reported} evaluations reported so far"))
            break
    # --- criterion
    stop_seen = None
    for a in applications(items):
        if stop_seen is not None:
            bad.append(("start-after-criterion", f"operator {a['start'][1]} started (application #{a['index']}) after the criterion answered 'terminate' for result {stop_seen}"))
            break
        answers = [c[4] for c in a["crits"]]
        if protocol_only:
            if answers and answers[-1]:
                stop_seen = a["crits"][-1][1]
        else:
            if any(answers):
                stop_seen = [c[1] for c in a["crits"] if c[4]][0]
    # --- raises when nothing was evaluated
    if n_results == 0 and "ok" in out:
        bad.append(("result-without-evaluation", "a result was returned although no population was evaluated"))
    if n_results > 0 and out.get("err") == NOTHING and not _operator_raised(items):
        bad.append(("raise-despite-evaluation", f"{n_results} populations were evaluated but the solve raised '{out.get('msg')}'"))
    return bad


def _operator_raised(items):
    return any(it[0] == "raise" for it in items)


def criterion_overwrite_witness(items) -> bool:
    """True iff in some application the criterion answered 'terminate' for a result that was NOT the last result of
    that application.  What the loop should do with the results reported after that within the same application
    (consult the criterion again? let a later 'continue' overwrite the answer?) is outside the callback protocol; this
    is the pattern on which the literal reading of C12's third clause can fail
    (C12_criterion_stops_needs_single_result), and such runs are not compared with the model."""
    for a in applications(items):
        rids = [e[1] for e in a["events"] if e[0] == "result"]
        if any(c[4] and rids and c[1] != rids[-1] for c in a["crits"]):
            return True
    return False


# ================================================================================================ running scripted cases
def limits_of(case):
    return dict(max_generations=case.get("max_generations"), max_evals=case.get("max_evals"), criterion=case.get("criterion"))


def has_limit(case) -> bool:
    return any(case.get(k) is not None for k in ("max_generations", "max_evals", "criterion", "real_criterion"))


def _trim(items, keep=60):
    """Replay files of long runs: the first and last items only (the replay re-runs the case anyway)."""
    return items if len(items) <= 2 * keep else items[:keep] + [["...", len(items) - 2 * keep, "items omitted"]] + items[-keep:]


def run_scripted_case(ctx, pid: str, case: dict, strict_multi: bool):
    """Run one scripted case (and its "then" case with the same solver object) on the implementation, evaluate the clauses
    of property `pid` on every solve against the limits in force when that solve was called.
    Returns a list of (obs, gallina literal | None), one per solve; [] if the harness objects failed."""
    stored, case = case, expand_case(case)     # `stored` (compact) is what goes into replay files
    try:
        obs_all = sk.run_scripted(case)
    except Exception as e:  # the harness objects themselves failed: report as an implementation exception
        ctx.violation("oracle", f"harness-exception-{type(e).__name__}", f"scripted run raised outside the solver: {type(e).__name__}: {e}", stored)
        return []
    solves, c_cur, o_cur = [], case, obs_all
    while True:
        solves.append((c_cur, o_cur))
        if "then" not in o_cur:
            break
        c_cur, o_cur = c_cur["then"], o_cur["then"]
    res = []
    for which, (c, obs) in enumerate(solves):
        nth = "" if which == 0 else f" (solve #{which + 1} with the same solver object, limits reassigned on solver.configuration)"
        if c.get("real_criterion") is not None:   # the criterion script of the model = what the built-in criterion answered
            c = dict(c, criterion=[it[4] for it in obs["items"] if it[0] == "crit"])
            for t in obs.get("answer_types", []):
                ctx.tally("built-in-criterion-answer-type:" + t)
        out = obs["outcome"]
        single = is_single_result(obs["items"])
        if "err" in out and out["err"] not in (NOTHING, "ScriptExhausted", "Boom"):
            ctx.violation("oracle", f"unexpected-exception-{out['err']}", f"solve raised {out['err']}: {out.get('msg')}{nth}", stored)
        if pid == "C05":
            bad = oracle_c05(limits_of(c), obs, strict_shape=False) + oracle_c05_tokens(c, obs)
        else:
            bad = oracle_c12(limits_of(c), obs, protocol_only=not strict_multi)
        for key, msg in bad:
            ctx.violation("oracle", key, msg + nth, stored, detail=dict(items=_trim(obs["items"]), outcome=out, solve=which))
        if c.get("criterion") is not None and obs.get("criterion_resets") != 1:
            ctx.violation("correspondence", "criterion-reset", f"the criterion was reset {obs.get('criterion_resets')} times in one solve (the model assumes: once, at the start)", stored)
        ctx.tally(f"scripted:{c.get('style')}")
        ctx.tally("outcome:" + ("ok" if "ok" in out else out["err"]))
        ctx.tally("limits:" + "+".join(k for k, v in (("gen", c.get("max_generations")), ("evals", c.get("max_evals")), ("crit", c.get("criterion"))) if v is not None))
        for k in ("criterion_np", "np_values", "real_criterion", "construct_limits", "then"):
            if c.get(k):
                ctx.tally("scripted-feature:" + k)
        if not single:
            ctx.tally("multi-result-application")
        if criterion_overwrite_witness(obs["items"]):
            # outside the callback protocol AND the one place where a repair of the loop (or-ing the answers) would
            # legitimately differ from the model: not compared with the model (C12_criterion_stops_needs_single_result)
            ctx.tally("skipped-model-comparison:criterion-terminate-mid-application")
            res.append((obs, None))
        else:
            res.append((obs, g_case(c, obs)))
    return res


# ================================================================================================ real EVQE runs
def run_evqe(setup: dict):
    """Run the real solver for `setup` (solverkit.random_evqe_setup; family "evqe" = EVQEMinimumEigensolver, "package" =
    base configuration around the package's speciation/selection) with deterministic fakes, recorded; then every problem
    of setup["more"] with the SAME solver object.  Returns a list with one (obs, case, extra) per solve: obs/case as for
    scripted runs (case rebuilt from the recording: what each application reported), extra = dict(result, registry,
    parts, evaluator, which)."""
    rec, reg = sk.Recorder(), sk.Registry()
    crit = None if setup.get("criterion") is None else sk.ScriptedCriterion(setup["criterion"], rec, reg)
    build = sk.build_package_solver if setup.get("family") == "package" else sk.build_evqe
    solver, call, parts = build(setup, crit)
    # a real run is finite: every configured limit bounds the number of generations, hence the number of applications
    n_ops = len(solver.configuration.evolutionary_operators)
    G = setup.get("max_generations")
    bounds = []   # generations each configured limit allows at most (selection reports >= 2 evaluations per generation)
    if G is not None:
        bounds.append(max(G, 0))
    if setup.get("max_evals") is not None:
        bounds.append(max(setup["max_evals"], 0) // 2 + 1)
    if setup.get("criterion") is not None and True in setup["criterion"]:
        bounds.append(setup["criterion"].index(True) + 1)
    sk.instrument_solver(solver, rec, reg, max_starts=n_ops * (min(bounds) + 2) if bounds else None)
    out = []
    try:
        for which, problem in enumerate([None] + list(setup.get("more", []))):
            fail_at = None
            if problem is not None:
                rec.reset()
                reg.reset()
                fail_at = problem.get("fail_at")
                call, parts = sk.evqe_problem(solver, setup, {k: v for k, v in problem.items() if k != "fail_at"})
            if fail_at is not None:     # the backend stops answering after fail_at more evaluations: this solve raises
                solver.verif_switch.arm(fail_at)
            try:
                out.append(_record_one(solver, call, parts, rec, reg, setup, which))
            finally:
                solver.verif_switch.disarm()
            out[-1][2]["fail_at"] = fail_at
    finally:
        solver.configuration.parallel_executor.shutdown(wait=True)
    return out


def _record_one(solver, call, parts, rec, reg, setup, which):
    res = None
    try:
        res = call()
        ok = dict(
            eigenvalue=float(res.eigenvalue),
            best=reg.individual_id(res.best_individual),
            ledger=[int(x) for x in res.circuit_evaluations],
            generations=res.generations,
            history=[reg.result_id(r) for r in res.population_evaluation_results],
            eigenstate=None,
            aux=None,
        )
        outcome = {"ok": ok}
    except Exception as e:
        outcome = {"err": type(e).__name__, "msg": str(e)[:200]}
    items = [[(float(x) if isinstance(x, float) else x) for x in it] for it in rec.items]
    obs = dict(items=items, outcome=outcome)
    apps = [dict(events=a["events"], ret=a["ret"]) for a in rec.applications()]
    for a in apps:
        a["events"] = [[(float(x) if isinstance(x, float) else x) for x in e] for e in a["events"]]
    case = dict(kind="evqe", setup=setup, n_ops=len(solver.configuration.evolutionary_operators), max_generations=setup["max_generations"],
                max_evals=setup["max_evals"], criterion=setup.get("criterion"), init=None, aux=None, aux_tokens=False, pop0=0,
                apps=apps, estimates=[it[2] for it in rec.items if it[0] == "est"])
    return obs, case, dict(result=res, registry=reg, parts=parts, evaluator=rec.evaluator, which=which)


def _diag_value(op, bitstring: str) -> float:
    """Value of a Z-only SparsePauliOp on a computational basis state given as qiskit bitstring (leftmost = highest qubit)."""
    total = 0.0
    for label, coeff in op.to_list():
        sign = 1
        for ch, b in zip(label, bitstring):
            if ch == "Z" and b == "1":
                sign = -sign
            elif ch not in "IZ":
                raise ValueError(label)
        total += sign * coeff.real
    return total


def _exact_distribution(circuit, shots):
    """What ExactSampler measures for a bound circuit: dict bitstring -> probability (apportioned to shots)."""
    from qiskit.quantum_info import Statevector

    probs = Statevector(circuit).probabilities()
    counts = sk.apportion(probs, shots)
    n = circuit.num_qubits
    return {format(i, f"0{n}b"): c / shots for i, c in enumerate(counts) if c}


def _objective(setup, op, circuit):
    """The objective of a bound circuit (initial state already composed in) for operator `op`, computed here from the
    state vector: estimator kind = <psi|H|psi>; sampler/bitstring kind with alpha = 1 = mean over the exact apportioned
    distribution.  None when this oracle does not cover the kind (alpha < 1: C14's subject)."""
    from qiskit.quantum_info import Statevector

    if setup["evaluator"] == "estimator":
        return float(Statevector(circuit).expectation_value(op).real)
    if setup["alpha"] != 1:
        return None
    dist = _exact_distribution(circuit, setup["shots"])
    if setup["evaluator"] == "sampler":
        return sum(p * _diag_value(op, b) for b, p in dist.items())
    return sum(p * op.evaluate_bitstring(b) for b, p in dist.items())


def oracle_evqe_c05(setup, obs, extra) -> list:
    """The C05 clauses that need the real objects: best individual is the history's object, re-evaluation reproduces the
    eigenvalue, eigenstate = distribution of the best individual behind the initial state, aux values = objectives of the
    same individual, per-evaluation alignment."""
    bad = []
    res = extra["result"]
    if res is None:
        return bad
    hist = res.population_evaluation_results
    ev = extra["evaluator"]
    init = extra["parts"]["init"]
    tol = 1e-9

    def bound(ind):
        c = ind.get_parameterized_quantum_circuit().assign_parameters(list(ind.get_parameter_values()))
        return c if init is None else init.compose(c, inplace=False)

    def reeval(ind, evaluator=None):
        return float((evaluator or ev).evaluate_circuits([ind.get_parameterized_quantum_circuit()], [list(ind.get_parameter_values())])[0])

    vals = [float(r.best_expectation_value) for r in hist]
    first = vals.index(min(vals))
    if res.best_individual is not hist[first].best_individual:
        bad.append(("best-individual-not-first-min", f"best_individual is not the best individual object of generation {first}, the first attaining the minimum {min(vals)} of {vals}"))
    # re-evaluation with the evaluator the operators were given (deterministic)
    re = reeval(res.best_individual)
    if abs(re - float(res.eigenvalue)) > tol:
        bad.append(("reevaluation-differs", f"re-evaluating the returned best individual gives {re}, eigenvalue is {float(res.eigenvalue)}"))
    # ... and with an independent computation from the state vector
    indep = _objective(setup, extra["parts"]["operator"], bound(res.best_individual))
    if indep is not None and abs(indep - float(res.eigenvalue)) > 1e-7:
        bad.append(("eigenvalue-not-objective-of-best", f"objective of the best individual behind the initial state computed from the state vector is {indep}, eigenvalue is {float(res.eigenvalue)}"))
    # eigenstate
    want = _exact_distribution(bound(res.best_individual), setup["shots"])
    got = {k: float(v) for k, v in res.eigenstate.binary_probabilities().items()}
    if set(want) != set(got) or any(abs(want[k] - got[k]) > 1e-12 for k in want):
        bad.append(("eigenstate-not-of-best", f"eigenstate {got} is not the measurement distribution {want} of the best individual behind the initial state"))
    # aux values
    aux = extra["parts"]["aux"]
    ao = res.aux_operators_evaluated
    if aux is None:
        if ao not in (None, []):
            bad.append(("aux-not-of-best", f"no aux operators requested but aux_operators_evaluated={ao}"))
    else:
        # list: value at position p belongs to the operator at position p; dict: value under name k belongs to the
        # operator passed under name k (and the names come back in the caller's order)
        pairs = [(p, op, v) for p, (op, v) in enumerate(zip(aux, ao))] if isinstance(aux, list) and isinstance(ao, list) and len(aux) == len(ao) else (
            [(k, aux[k], ao[k]) for k in aux] if isinstance(aux, dict) and isinstance(ao, dict) and set(aux) == set(ao) else None)
        if pairs is None:
            bad.append(("aux-shape", f"aux operators {type(aux).__name__} {list(aux) if isinstance(aux, dict) else len(aux)} but values {ao!r}"))
        else:
            for where, op, v in pairs:
                w = _objective(setup, op, bound(res.best_individual))
                if w is not None and abs(w - float(v)) > 1e-7:
                    bad.append(("aux-not-of-best", f"aux value {float(v)} at {where!r} but the objective of the best individual for the operator passed at {where!r} is {w}"))
                    break
            if isinstance(aux, dict) and list(aux) != list(ao):
                bad.append(("aux-key-order", f"aux operators were passed as {list(aux)} but the values come back as {list(ao)}"))
    if res.initial_state_circuit is not init:
        bad.append(("initial-state-field", "result.initial_state_circuit is not the circuit that was passed in"))
    # per-evaluation alignment
    for g, r in enumerate(hist):
        inds = r.population.individuals
        xs = list(r.expectation_values)
        if len(xs) != len(inds):
            bad.append(("alignment-length", f"generation {g}: {len(xs)} expectation values for {len(inds)} individuals"))
            continue
        known = [x for x in xs if x is not None]
        if float(r.best_expectation_value) != min(float(x) for x in known):
            bad.append(("best-not-min-of-generation", f"generation {g}: best_expectation_value {r.best_expectation_value} is not the minimum of {xs}"))
        bi = [i for i, x in enumerate(xs) if x is not None and float(x) == float(r.best_expectation_value)]
        if not any(inds[i] is r.best_individual for i in bi):
            bad.append(("best-individual-misaligned", f"generation {g}: best_individual is not an individual whose value is the best value"))
        for i, (ind, x) in enumerate(zip(inds, xs)):
            if x is not None and abs(reeval(ind) - float(x)) > tol:
                bad.append(("alignment-value", f"generation {g}: expectation value {x} at index {i} is not the value {reeval(ind)} of the individual at index {i}"))
                break
    return bad


# ================================================================================================ the two checks
RULE = ("scripted operators (subclasses of BaseEvolutionaryOperator replaying a generated event script through the real "
        "OperatorContext callbacks of the real _solve_by_evolution, reached through compute_minimum_function_value) x all "
        "combinations of max_generations / max_circuit_evaluations / estimates / scripted criterion, three styles "
        "(EVQE-shaped, arbitrary with <=1 result per application, arbitrary with several); plus real EVQE runs with "
        "long stub runs with max_generations (100..2000, around powers of two) resp. max_circuit_evaluations (> 10^4) as the only limit; "
        "deterministic fake primitives and optimiser over random small configurations, recorded by rebinding methods on the "
        "operator instances; distinct = distinct (limits, script) resp. EVQE setup; non-trivial = at least one operator "
        "application started or the run raised for lack of an evaluation under a limit")


CHECKER = {"C05": "check_case", "C12": "check_case_limits"}   # C12 compares starts / criterion answers / outcome kind only


def corpus_cases(pid):
    d = core.ROOT / "corpus" / pid
    return [json.loads(f.read_text()) for f in sorted(d.glob("*.json"))] if d.exists() else []


def run_property(ctx, pid: str, strict_multi: bool, n_scripted, n_evqe, enum_events=None):
    ctx.rule = RULE
    glits, kept = [], []

    def scripted(case):
        solves = run_scripted_case(ctx, pid, case, strict_multi)
        nontrivial = any(any(it[0] == "start" for it in obs["items"]) or obs["outcome"].get("err") == NOTHING for obs, _ in solves)
        ctx.case(dict(k="s", case={k: v for k, v in case.items() if k != "style"}), nontrivial, sample=case if len(ctx.samples) < 2 else None)
        for _, g in solves:
            if g is not None:
                glits.append(g)
                kept.append(case)

    for c in corpus_cases(pid):
        c = c.get("case", c)
        if c.get("kind") == "scripted":
            scripted(c)
        else:
            evqe(ctx, pid, c["setup"], glits, kept, strict_multi)
    for _ in range(n_scripted):
        scripted(gen_scripted(ctx.rng))
    # long runs: max_generations the only limit, around and beyond powers of two / typical buffer sizes; big budgets
    if ctx.quick:
        gens = [129, 257, ctx.rng.choice([100, 127, 128, 200, 256, 300])]   # > 512: corpus/C05/long_history_600.json
    else:
        gens = LONG_GENERATIONS + [ctx.rng.randint(301, 2000) for _ in range(3)]
    for G in gens:
        scripted(gen_long(ctx.rng, G))
        ctx.tally(f"long-run:max_generations={G}")
    for _ in range(ctx.n(6, 40)):
        scripted(gen_big_budget(ctx.rng))
    for _ in range(ctx.n(10, 60)):
        scripted(gen_huge_budget(ctx.rng))
    for _ in range(ctx.n(12, 80)):
        scripted(gen_after_failure(ctx.rng))
    if enum_events:
        n0 = len(glits)
        for c in enumerate_small(enum_events):
            scripted(c)
        ctx.notes["exhaustive_small_scope"] = f"all scripts of <= {enum_events} events over {{count, result(1.0), result(0.0)}}, every split into applications, 5 limit combinations: {len(glits) - n0} cases"
    for i in range(n_evqe):   # every third one: the package-operator solver solving several problems in a row
        # i % 3 == 1 and some of the others: selection fitness = expectation value x species size and nothing else
        evqe(ctx, pid, sk.random_evqe_setup(ctx.rng, quick=ctx.quick, family="package" if i % 3 == 0 else None,
                                            plain_fitness=True if i % 3 == 1 else None,
                                            rich_assembly=(pid == "C05" and i % 3 == 2)), glits, kept, strict_multi)
    # populations beyond typical task / batch limits (alignment of recorded values and individuals: C05)
    if pid == "C05":
        for n_pop in ([33, 65] if ctx.quick else [33, 40, 65, 33, 40, 65]):
            evqe(ctx, pid, sk.random_evqe_setup(ctx.rng, quick=True, big_population=n_pop), glits, kept, strict_multi)
            ctx.tally(f"evqe-population:{n_pop}")
    # hash-equal twins in the initial population (angles -1.0 / -2.0, -1 / -2.0, 0.0 / -0.0 on the same layers): different
    # circuits that compare equal as EVQEIndividuals; every recorded value must still belong to the individual at its index
    if pid == "C05":
        for j, tw in enumerate([[-1.0, -2.0], [-2.0, -1.0], [-1, -2.0], [0.0, -0.0]] if ctx.quick else [[-1.0, -2.0], [-2.0, -1.0], [-1, -2.0], [0.0, -0.0]] * 4):
            st = sk.random_evqe_setup(ctx.rng, quick=True, family="package")
            st.update(twins=tw, evaluator=["estimator", "sampler"][j % 2], n_qubits=2, population_size=3 + j % 2, n_initial_layers=1 + j % 2, mutex=False,
                      max_generations=2, max_evals=None, criterion=None, more=[], tournament=(j % 2 == 1), tournament_size=2 if j % 2 == 1 else None, alpha=1)
            evqe(ctx, pid, st, glits, kept, strict_multi)
            ctx.tally("evqe-twins:" + "/".join(repr(x) for x in tw))
    # the solve after a solve during which the backend failed, same solver object
    for i in range(ctx.n(3, 12)):
        evqe(ctx, pid, sk.random_evqe_setup(ctx.rng, quick=True, family="package" if i % 2 == 0 else "evqe", failure=True), glits, kept, strict_multi)
    bad = core.model_mismatches(pid, IMPORTS, CHECKER[pid], glits, chunk=150)
    for i in bad[:5]:
        shown = None
        try:
            shown = core.model_show(pid, IMPORTS, f"show_case {glits[i]}")
        except Exception as e:  # pragma: no cover
            shown = f"(model evaluation failed: {e})"
        ctx.violation("correspondence", "model-vs-impl", "the Coq model of _solve_by_evolution and the implementation behave differently on this script",
                      kept[i], detail=dict(model=shown, gallina=glits[i][:3000]))
    ctx.traces = len(glits)


def evqe(ctx, pid, setup, glits, kept, strict_multi):
    replay = dict(kind="evqe", setup=setup)
    try:
        solves = run_evqe(setup)
    except Exception as e:
        ctx.violation("oracle", f"harness-exception-{type(e).__name__}", f"EVQE run raised outside the solver: {type(e).__name__}: {e}", replay)
        return
    started = False
    for obs, case, extra in solves:
        out = obs["outcome"]
        nth = "" if extra["which"] == 0 else f" (solve #{extra['which'] + 1} with the same solver object)"
        if extra.get("fail_at") is not None and out.get("err") in ("BackendFailure", NOTHING) or (extra.get("fail_at") is not None and "ok" in out):
            ctx.tally("evqe-solve-with-backend-failure:" + ("raised" if "err" in out else "finished-before-the-failure"))
        elif out.get("err") == "RunawayLoop":
            ctx.violation("oracle", "loop-does-not-terminate", f"the solve did not stop: {out.get('msg')} although its limits (max_generations={setup.get('max_generations')}, "
                          f"max_circuit_evaluations={setup.get('max_evals')}, criterion={setup.get('criterion')}) must have ended it{nth}", replay,
                          detail=dict(items=_trim(obs["items"]), outcome=out, solve=extra["which"]))
        elif "err" in out and out["err"] != NOTHING:
            ctx.violation("oracle", f"unexpected-exception-{out['err']}", f"EVQE solve raised {out['err']}: {out.get('msg')}{nth}", replay)
        lim = limits_of(case)
        if pid == "C05":
            bad = oracle_c05(lim, obs, strict_shape=True)
            try:
                bad += oracle_evqe_c05(setup, obs, extra)
            except Exception as e:
                bad.append((f"oracle-exception-{type(e).__name__}", f"evaluating the result raised {type(e).__name__}: {e}"))
        else:
            bad = oracle_c12(lim, obs, protocol_only=not strict_multi)
            if not is_single_result(obs["items"]):
                bad.append(("evqe-multi-result", "an EVQE operator reported two results within one application"))
        for key, msg in bad:
            ctx.violation("oracle", key, msg + nth, replay, detail=dict(items=obs["items"], outcome=out, solve=extra["which"]))
        # hypothesis evqe_shape of the *_evqe theorems: every application of a package operator reports nothing, one
        # count, or one count followed by one result
        for a in applications(obs["items"]):
            kinds = [e[0] for e in a["events"]]
            if kinds not in ([], ["count"], ["count", "result"]):
                ctx.violation("correspondence", "evqe-shape", f"operator {a['start'][1]} reported {kinds} in one application: outside Ledger.evqe_shape, the hypothesis under which "
                              "C05_ledger_shape_evqe / C12_max_generations_evqe / C12_criterion_stops_evqe are proved", replay)
                break
        ctx.tally("evqe-outcome:" + ("ok" if "ok" in out else out["err"]))
        ctx.tally("evqe-solves")
        started = started or any(it[0] == "start" for it in obs["items"]) or out.get("err") == NOTHING
        if out.get("err") == "BackendFailure" and not any(it[0] == "raise" for it in obs["items"]):
            # the backend failed AFTER the loop had ended, while the result was assembled (eigenstate sampling / aux
            # evaluation): the exception rightly propagates, but the model's `finish` has no failing measurement — the
            # loop clauses were evaluated on the recorded trace above; the solve is not handed to the model
            ctx.tally("skipped-model-comparison:backend-failure-during-result-assembly")
            continue
        glits.append(g_case(case, obs))
        kept.append(replay)
    ctx.tally("evqe:" + setup.get("family", "evqe") + ":" + setup["evaluator"])
    if setup["init"] in ("h0", "ry") and setup["aux"] in ("list", "dict", "dict3", "list3"):
        ctx.tally("evqe-assembly:noncommuting-init+aux-" + setup["aux"] + ":" + setup["evaluator"])
    if setup.get("penalty", 0.1) == 0 and (setup["tournament"] or setup.get("positive")):
        ctx.tally("evqe-plain-fitness:" + ("tournament" if setup["tournament"] else "roulette-positive"))
    ctx.tally(f"evqe-workers:{setup['workers']}")
    first_out = solves[0][0]["outcome"] if solves else None
    ctx.case(dict(k="e", setup=setup), started, sample=None if any(isinstance(x, dict) and "setup" in x for x in ctx.samples) else dict(setup=setup, outcome=first_out))


def replay_property(ctx, pid, payload, strict_multi):
    c = payload.get("case") or payload.get("failing_input")
    glits, kept = [], []
    if c.get("kind") == "scripted":
        for k, (obs, g) in enumerate(run_scripted_case(ctx, pid, c, strict_multi)):
            if g:
                glits.append(g)
            print(f"  solve #{k + 1}:")
            for it in obs["items"]:
                print("  ", it)
            print("  outcome:", obs["outcome"])
    else:
        evqe(ctx, pid, c["setup"], glits, kept, strict_multi)
    print("impl-vs-property:", "FAILS: " + "; ".join(v["what"] for v in ctx.violations if v["kind"] == "oracle") if any(v["kind"] == "oracle" for v in ctx.violations) else "ok")
    if glits:
        bad = core.model_mismatches(pid + "_replay", IMPORTS, CHECKER[pid], glits)
        print("model-vs-impl:", "DIFFER" if bad else "agree")
        if bad:
            print("model says:", core.model_show(pid + "_replay", IMPORTS, f"show_case {glits[bad[0]]}"))
