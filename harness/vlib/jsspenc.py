"""Helpers for the job-shop Hamiltonian encoder checks (C15, C01, C02): running the implementation, turning its
outputs into Gallina case literals for QV.Jssp.EncoderCheck, independent oracles (Fractions, exhaustive solver),
instance / limit / penalty generators.  Plain data as in vlib.jssp; penalties:
   P = {"enc": x, "overlap": x, "prec": x, "opt": x, "share": x}   (python floats / ints)"""
from __future__ import annotations

import itertools
from fractions import Fraction

from . import jssp
from .core import g_bool, g_list, g_nat, g_pair, g_q, g_str, g_z

IMPORTS = "From QV Require Import Jssp.EncoderCheck."
DEFAULT_P = {"enc": 300, "overlap": 100, "prec": 100, "opt": 100, "share": 0}


# ----------------------------------------------------------------------------- plain-data facts about an instance
def job_len(j):
    return sum(o["dur"] for o in j["ops"])


def longest(inst):
    return max(job_len(j) for j in inst["jobs"])


def flat_ops(inst):
    return [o for j in inst["jobs"] for o in j["ops"]]


def expected_qubits(inst, L):
    return sum(L - job_len(j) for j in inst["jobs"] for _ in j["ops"])


def windows(inst, L):
    """(head, dur, tail) per operation in job-major order."""
    w = []
    for j in inst["jobs"]:
        d = [o["dur"] for o in j["ops"]]
        for k in range(len(d)):
            w.append((sum(d[:k]), d[k], sum(d[k + 1:])))
    return w


def in_regime(P):
    return 0 < P["opt"] <= P["prec"] <= P["enc"] and P["opt"] <= P["overlap"] <= P["enc"] and 0 <= P["share"] <= 1


# ----------------------------------------------------------------------------- implementation
OBJECT_VARIANTS = ("shared", "shared", "fresh", "json")


def impl_instance_variant(inst, objects="shared"):
    """The same instance with different object sharing: 'shared' = one Machine object per machine name (vlib.jssp);
    'fresh' = an equal but distinct Machine object for every operation and for the machines tuple; 'json' = the shared
    instance sent through JSSPJSONEncoder / JSSPJSONDecoder.  Equality of all of them is structural (frozen dataclasses)."""
    if objects in (None, "shared"):
        return jssp.impl_instance(inst)
    if objects == "fresh":
        from queasars.job_shop_scheduling.problem_instances import Job, JobShopSchedulingProblemInstance, Machine, Operation

        jobs = tuple(Job(str(j["name"]), tuple(Operation(str(o["name"]), str(o["job"]), Machine(str(o["machine"])), o["dur"]) for o in j["ops"])) for j in inst["jobs"])
        return JobShopSchedulingProblemInstance(str(inst["name"]), tuple(Machine(str(m)) for m in inst["machines"]), jobs)
    if objects == "json":
        import json

        from queasars.job_shop_scheduling.serialization import JSSPJSONDecoder, JSSPJSONEncoder

        pi = jssp.impl_instance(inst)
        back = json.loads(json.dumps(pi, cls=JSSPJSONEncoder), cls=JSSPJSONDecoder)
        if back != pi:
            raise AssertionError("JSON round trip changed the instance")
        return back
    raise ValueError(objects)


def assign_objects(rng, cases):
    """Give every generated case an object-sharing variant (corpus cases keep theirs / the default)."""
    for c in cases:
        if "objects" not in c and c.get("shape") != "corpus":
            c["objects"] = rng.choice(OBJECT_VARIANTS)
    return cases


def impl_encoder(inst, L, P=None, objects=None):
    from queasars.job_shop_scheduling.domain_wall_hamiltonian_encoder import JSSPDomainWallHamiltonianEncoder

    P = P or DEFAULT_P
    return JSSPDomainWallHamiltonianEncoder(
        jssp_instance=impl_instance_variant(inst, objects), makespan_limit=L, encoding_penalty=P["enc"],
        overlap_constraint_penalty=P["overlap"], precedence_constraint_penalty=P["prec"], max_opt_value=P["opt"],
        opt_all_operations_share=P["share"])


def impl_n_qubits(enc):
    try:
        return ("ok", int(enc.n_qubits))
    except Exception as e:  # noqa
        return ("err", type(e).__name__, str(e))


def impl_hamiltonian(enc):
    try:
        return ("ok", enc.get_problem_hamiltonian())
    except Exception as e:  # noqa
        return ("err", type(e).__name__, str(e))


def ham_terms(H):
    """{tuple(sorted qubits carrying Z): complex coefficient}, like terms collected exactly as floats add.
    Returns (terms, problems) where problems lists anything that is not an I/Z string with a real coefficient."""
    problems = []
    z = H.paulis.z
    x = H.paulis.x
    if x.any():
        problems.append("operator contains X/Y factors")
    ph = getattr(H.paulis, "phase", None)
    if ph is not None and ph.any():
        problems.append("Pauli list carries phases")
    terms = {}
    for row, c in zip(z, H.coeffs):
        key = tuple(int(q) for q in row.nonzero()[0])
        c = complex(c)
        if abs(c.imag) > 0:
            problems.append("complex coefficient")
        terms[key] = terms.get(key, 0.0) + c.real
    return terms, problems


def diag_of_terms(terms, n):
    """Eigenvalue on every computational basis state k (bit q of k = qubit q), as floats: sum_t c_t (-1)^{|k & mask_t|}."""
    import numpy as np

    ks = np.arange(2 ** n, dtype=np.int64)
    d = np.zeros(2 ** n)
    for key, c in terms.items():
        mask = sum(1 << q for q in key)
        par = ks & mask
        # parity of popcount
        p = np.zeros_like(par)
        m = par.copy()
        while m.any():
            p ^= m & 1
            m >>= 1
        d += c * (1 - 2 * p)
    return d


def flat_of_result(r, pi):
    """flat starts (job-major) of a JobShopSchedulingResult, -1 for an unscheduled operation; the shape is checked."""
    flat = []
    sched = r.schedule
    assert list(sched.keys()) == list(pi.jobs), "decoded schedule has other jobs than the instance"
    for job in pi.jobs:
        row = sched[job]
        assert tuple(p.operation for p in row) == job.operations, "decoded row has other operations than the job"
        for p in row:
            flat.append(p.start_time if p.is_scheduled else -1)
    return flat


def impl_decode(enc, inst, bitstring, keep=None):
    """flat starts (job-major), -1 for an unscheduled operation; also (is_valid, makespan). Shape is checked.
    If `keep` is a dict the returned result object is stored in it under the bitstring (for a later re-inspection)."""
    r = enc.translate_result_bitstring(bitstring)
    if keep is not None:
        keep[bitstring] = r
    return flat_of_result(r, enc.jssp_instance), bool(r.is_valid), r.makespan


def reinspect_kept(ctx, case, enc, decoded, kept):
    """Results handed out earlier must still say what they said when they were returned, after all later decodings with the
    same encoder; `decoded` is updated to what the kept results say now, so that the clauses are judged on the kept results."""
    reported = False
    for b, r in kept.items():
        if b not in decoded:
            continue
        try:
            now = flat_of_result(r, enc.jssp_instance)
        except Exception as e:  # noqa
            now = f"{type(e).__name__}: {e}"
        if now != decoded[b][0]:
            if not reported:
                reported = True
                ctx.violation("oracle", "result-changed-after-later-decoding", f"the result returned for {b!r} said {decoded[b][0]}; after decoding {len(kept)} further bitstrings with the same encoder the kept result says {now}", dict(case, bitstring=b, sequence=list(kept)[:40]))
            if isinstance(now, list):
                decoded[b] = (now,) + tuple(decoded[b][1:])
    ctx.tally("kept-results-reinspected", len(kept))


def clone_encoder(enc, how):
    import copy
    import pickle

    if how == "pickle":
        return pickle.loads(pickle.dumps(enc))
    if how == "copy":
        return copy.copy(enc)
    return copy.deepcopy(enc)


def examine_lifecycle(ctx, case, used_enc, n, terms, decoded, rng):
    """An encoder that was used (or only asked for n_qubits, or not touched yet) and then pickled / copied / deep-copied must
    report the same qubit count, build the same Hamiltonian and decode every bitstring like the original did."""
    inst, L, P = case["inst"], case["L"], case.get("P") or dict(DEFAULT_P)
    sample = list(decoded)
    if len(sample) > 24:
        sample = rng.sample(sample, 24)
    for how in ("pickle", "copy", "deepcopy"):
        stage = rng.choice(["used", "used", "qubits-read", "untouched"])
        tag = f"{how} of an encoder {stage}"
        c = dict(case, lifecycle=tag)
        try:
            src = used_enc
            if stage != "used":
                src = impl_encoder(inst, L, P, case.get("objects"))
                if stage == "qubits-read":
                    src.n_qubits
            clone = clone_encoder(src, how)
        except Exception as e:  # noqa  -- cloning is not something the property promises
            ctx.tally(f"lifecycle:{how}-unavailable-{type(e).__name__}")
            continue
        ctx.tally(f"lifecycle:{how}/{stage}")
        try:
            n2 = int(clone.n_qubits)
        except Exception as e:  # noqa
            ctx.violation("oracle", "copy-n-qubits", f"{tag}: n_qubits raised {type(e).__name__}: {e}; the original reports {n}", c)
            continue
        if n2 != n:
            ctx.violation("oracle", "copy-n-qubits", f"{tag} reports n_qubits = {n2}, the original {n}", c)
            continue
        if terms is not None:
            h = impl_hamiltonian(clone)
            if h[0] == "err":
                ctx.violation("oracle", "copy-hamiltonian", f"{tag}: get_problem_hamiltonian raised {h[1]}: {h[2]}; the original built one", c)
            else:
                t2, _ = ham_terms(h[1]) if h[1].num_qubits == n else ({}, None)
                if t2 != terms:
                    ctx.violation("oracle", "copy-hamiltonian", f"{tag} builds a different Hamiltonian ({h[1].num_qubits} qubits, {len(t2)} distinct terms; original {n} qubits, {len(terms)} terms)", c)
        for b in sample:
            try:
                got = impl_decode(clone, inst, b)[0]
            except Exception as e:  # noqa
                got = f"{type(e).__name__}: {e}"
            if got != decoded[b][0]:
                ctx.violation("oracle", "copy-decoding", f"{tag} decodes {b!r} to {got}, the original to {decoded[b][0]}", dict(c, bitstring=b))
                break


def examine_retry(ctx, case, n, terms, decoded, rng):
    """An encoder first asked with a makespan limit that is too short for some job (the documented ValueError), then given the
    real limit on the same object (makespan_limit is a public attribute) must behave like a fresh encoder for that limit:
    same qubit count, same Hamiltonian, same decoding.  Short limits: one below the longest job, and the length of the first
    job when later jobs are longer (so that the aborted attempt had already registered operations)."""
    inst, L, P = case["inst"], case["L"], case.get("P") or dict(DEFAULT_P)
    lens = [job_len(j) for j in inst["jobs"]]
    shorts = sorted({x for x in (max(lens) - 1, lens[0], min(lens)) if 0 <= x < max(lens)})
    sample = list(decoded)
    if len(sample) > 16:
        sample = rng.sample(sample, 16)
    for L0 in shorts:
        tag = f"encoder first asked with makespan_limit {L0} (too short), then set to {L}"
        c = dict(case, lifecycle=tag, short_limit=L0)
        enc = impl_encoder(inst, L0, P, case.get("objects"))
        first = rng.choice(["n_qubits", "hamiltonian", "decode"])
        try:
            if first == "n_qubits":
                enc.n_qubits
            elif first == "hamiltonian":
                enc.get_problem_hamiltonian()
            else:
                enc.translate_result_bitstring("0")
            ctx.violation("oracle", "short-limit-accepted", f"makespan_limit {L0} is shorter than the longest job ({max(lens)}) but {first} did not raise", c)
            continue
        except ValueError:
            pass
        except Exception as e:  # noqa
            ctx.violation("oracle", "short-limit-wrong-exception", f"makespan_limit {L0} shorter than the longest job: {first} raised {type(e).__name__}: {e}, documented is ValueError", c)
            continue
        ctx.tally(f"lifecycle:retry-after-short-limit/{first}")
        enc.makespan_limit = L
        try:
            n2 = int(enc.n_qubits)
        except Exception as e:  # noqa
            ctx.violation("oracle", "retry-n-qubits", f"{tag}: n_qubits raised {type(e).__name__}: {e}; a fresh encoder reports {n}", c)
            continue
        if n2 != n:
            ctx.violation("oracle", "retry-n-qubits", f"{tag}: n_qubits = {n2}, a fresh encoder for limit {L} reports {n}", c)
            continue
        if terms is not None:
            h = impl_hamiltonian(enc)
            if h[0] == "err":
                ctx.violation("oracle", "retry-hamiltonian", f"{tag}: get_problem_hamiltonian raised {h[1]}: {h[2]}; a fresh encoder builds one", c)
            else:
                t2, _ = ham_terms(h[1]) if h[1].num_qubits == n else ({}, None)
                if t2 != terms:
                    ctx.violation("oracle", "retry-hamiltonian", f"{tag}: a different Hamiltonian ({h[1].num_qubits} qubits, {len(t2)} distinct terms; fresh encoder {n} qubits, {len(terms)} terms)", c)
        for b in sample:
            try:
                got = impl_decode(enc, inst, b)[0]
            except Exception as e:  # noqa
                got = f"{type(e).__name__}: {e}"
            if got != decoded[b][0]:
                ctx.violation("oracle", "retry-decoding", f"{tag}: decodes {b!r} to {got}, a fresh encoder to {decoded[b][0]}", dict(c, bitstring=b))
                break


def impl_vars(enc, inst):
    pi = enc.jssp_instance
    out = []
    for job in pi.jobs:
        for op in job.operations:
            v = enc._operation_start_variables[op]
            out.append((int(v._qubit_start_index), [int(t) for t in v.values]))
    return out


def impl_counts(enc, inst):
    pi = enc.jssp_instance
    out = []
    for job in pi.jobs:
        for op in job.operations:
            v = enc._operation_start_variables[op]
            out.append([int(enc._operation_constraint_counts[(op, t)]) for t in v.values])
    return out


# ----------------------------------------------------------------------------- Gallina literals
def g_pen(P):
    return f"(mkPen {g_q(P['enc'])} {g_q(P['overlap'])} {g_q(P['prec'])} {g_q(P['opt'])} {g_q(P['share'])})"


def g_res(r, g_ok):
    return f"(Ok {g_ok(r[1])})" if r[0] == "ok" else f"(Err {g_str(r[1])})"


def g_bits(bitstring):
    return g_list(g_nat(int(c)) for c in bitstring)


def g_poly(terms):
    return g_list(g_pair(g_list(g_nat(q) for q in key), g_q(c)) for key, c in sorted(terms.items()))


def lit_qubits(inst, L, r):
    return f"JQubits {jssp.g_inst(inst)} {g_z(L)} {g_res(r, g_nat)}"


def lit_vars(inst, L, vars_):
    return f"JVars {jssp.g_inst(inst)} {g_z(L)} {g_list(g_pair(g_nat(s), g_list(g_z(t) for t in vals)) for s, vals in vars_)}"


def lit_ham(inst, L, P, err, terms, tol, counts, legacy=False):
    return (f"JHam {g_bool(legacy)} {jssp.g_inst(inst)} {g_z(L)} {g_pen(P)} {g_str(err)} {g_poly(terms)} {g_q(tol)} "
            f"{g_list(g_list(g_nat(c) for c in row) for row in counts)}")


def lit_decode_all(inst, L, table):
    return f"JDecodeAll {jssp.g_inst(inst)} {g_z(L)} {g_list(g_list(g_z(t) for t in row) for row in table)}"


def lit_decode(inst, L, bitstring, r):
    return f"JDecode {jssp.g_inst(inst)} {g_z(L)} {g_bits(bitstring)} {g_res(r, lambda row: g_list(g_z(t) for t in row))}"


def lit_energy(inst, L, P, samples, tol):
    return f"JEnergy {jssp.g_inst(inst)} {g_z(L)} {g_pen(P)} {g_list(g_pair(g_bits(b), g_q(x)) for b, x in samples)} {g_q(tol)}"


# ----------------------------------------------------------------------------- independent oracles
def count_violations(inst, starts):
    """starts: flat job-major start times (all scheduled). Returns (n_prec, n_overlap) straight from the definition."""
    ops = flat_ops(inst)
    n_prec = 0
    k = 0
    for j in inst["jobs"]:
        for a in range(len(j["ops"]) - 1):
            if starts[k + a + 1] < starts[k + a] + j["ops"][a]["dur"]:
                n_prec += 1
        k += len(j["ops"])
    n_ov = 0
    for a, b in itertools.combinations(range(len(ops)), 2):
        if ops[a]["machine"] == ops[b]["machine"]:
            if starts[a] < starts[b] + ops[b]["dur"] and starts[b] < starts[a] + ops[a]["dur"]:
                n_ov += 1
    return n_prec, n_ov


def makespan_of(inst, starts):
    return max(s + o["dur"] for s, o in zip(starts, flat_ops(inst)))


def feasible_schedules(inst, L, cap=400000):
    """Every feasible schedule (flat starts) with all operations inside [0, L], by plain enumeration of start times
    (no windows, no pruning by head/tail): the independent exhaustive job-shop solver.  None if more than `cap`
    assignments would have to be looked at."""
    ops = flat_ops(inst)
    ranges = [range(0, L - o["dur"] + 1) for o in ops]
    total = 1
    for r in ranges:
        total *= len(r)
    if total > cap:
        return None
    out = []
    for st in itertools.product(*ranges):
        if count_violations(inst, st) == (0, 0):
            out.append(list(st))
    return out


# ----------------------------------------------------------------------------- generators
# (job name, operation name) pairs of DIFFERENT jobs whose Operation.identifier (job_name + "_" + name) coincides: identifiers
# only have to be unique within a job, so these are valid instances; anything keyed by the identifier string confuses them.
COLLIDING_NAMES = [
    [("a_b", "c"), ("a", "b_c")],
    [("x_", "y"), ("x", "_y")],
    [("a__", "b"), ("a_", "_b"), ("a", "__b")],
    [("_", "_"), ("__", "")],            # second entry is skipped below (empty names are rejected); kept to document the limit
    [("j_", "_"), ("j", "__")],
    [("é_z", "w"), ("é", "z_w")],
    [("job 1_o", "0"), ("job 1", "o_0")],
    [("a_b", "c_d"), ("a", "b_c_d"), ("a_b_c", "d")],
]


def collide_names(rng, inst):
    """Rename jobs / operations of a valid instance with >= 2 jobs so that operations of different jobs share their identifier
    string (at different positions of their jobs where possible, so that their variables differ).  Still a valid instance."""
    family = [pair for pair in rng.choice(COLLIDING_NAMES) if pair[0] and pair[1]]
    jobs = inst["jobs"]
    if len(jobs) < 2 or len(family) < 2:
        return inst, False
    picks = rng.sample(range(len(jobs)), min(len(jobs), len(family)))
    for slot, ji in enumerate(picks):
        jn, on = family[slot]
        job = jobs[ji]
        job["name"] = jn
        hit = (slot + rng.randrange(len(job["ops"]))) % len(job["ops"])
        for x, o in enumerate(job["ops"]):
            o["job"] = jn
            o["name"] = on if x == hit else f"p{x}"
    return inst, True


def gen_instance(rng, max_ops_total=6):
    """Valid instances with the shapes the suite never builds: single-operation jobs, unused machines, a single job,
    all jobs on different machines (no overlap pair), all single-operation (no precedence pair); one in eight instances with
    several jobs gets separator-laden names whose identifiers collide across jobs."""
    inst, shape = _gen_instance(rng, max_ops_total)
    if len(inst["jobs"]) >= 2 and rng.random() < 0.2:
        inst, done = collide_names(rng, inst)
        if done:
            shape += "+colliding-names"
    return inst, shape


def _gen_instance(rng, max_ops_total=6):
    shape = rng.choice(["random", "random", "random", "single-job", "single-op-jobs", "disjoint-machines", "one-op"])
    if shape == "one-op":
        m = rng.randint(1, 2)
        return {"name": "inst", "machines": [f"m{k}" for k in range(m)], "jobs": [{"name": "j0", "ops": [{"name": "o0", "job": "j0", "machine": f"m{rng.randrange(m)}", "dur": rng.randint(1, 3)}]}]}, shape
    if shape == "single-job":
        n_m = rng.randint(1, 3)
        ms = [f"m{k}" for k in range(n_m + rng.randint(0, 1))]
        use = rng.sample(ms, rng.randint(1, n_m))
        return {"name": "inst", "machines": ms, "jobs": [{"name": "j0", "ops": [{"name": f"o{x}", "job": "j0", "machine": m, "dur": rng.randint(1, 3)} for x, m in enumerate(use)]}]}, shape
    if shape == "single-op-jobs":
        n_m = rng.randint(1, 3)
        ms = [f"m{k}" for k in range(n_m)]
        return {"name": "inst", "machines": ms, "jobs": [{"name": f"j{j}", "ops": [{"name": "o0", "job": f"j{j}", "machine": rng.choice(ms), "dur": rng.randint(1, 3)}]} for j in range(rng.randint(1, 3))]}, shape
    if shape == "disjoint-machines":
        n_j = rng.randint(1, 3)
        jobs, ms = [], []
        for j in range(n_j):
            k = rng.randint(1, 2)
            mine = [f"m{len(ms) + x}" for x in range(k)]
            ms += mine
            jobs.append({"name": f"j{j}", "ops": [{"name": f"o{x}", "job": f"j{j}", "machine": m, "dur": rng.randint(1, 3)} for x, m in enumerate(mine)]})
        return {"name": "inst", "machines": ms, "jobs": jobs}, shape
    while True:
        inst = jssp.random_instance(rng, max_jobs=3, max_machines=3, max_dur=3)
        if len(flat_ops(inst)) <= max_ops_total:
            return inst, shape


def gen_limit(rng, inst, max_qubits):
    """A limit >= longest job with slack 0..3 such that the qubit count stays <= max_qubits (slack reduced if needed).
    Jobs shorter than the longest one have slack while the longest has none: zero-slack mixed with slack jobs."""
    lo = longest(inst)
    slack = rng.choice([0, 0, 1, 1, 2, 2, 3])
    while slack > 0 and expected_qubits(inst, lo + slack) > max_qubits:
        slack -= 1
    return lo + slack


def small_scope():
    """Every instance with <= 2 jobs x <= 2 operations on machines {m0, m1}, durations <= 2, with slack 0..2 (468 cases)."""
    job_types = []
    for m in ("m0", "m1"):
        for d in (1, 2):
            job_types.append([(m, d)])
    for m1, m2 in (("m0", "m1"), ("m1", "m0")):
        for d1 in (1, 2):
            for d2 in (1, 2):
                job_types.append([(m1, d1), (m2, d2)])

    def mk(types):
        return {"name": "inst", "machines": ["m0", "m1"], "jobs": [
            {"name": f"j{j}", "ops": [{"name": f"o{x}", "job": f"j{j}", "machine": m, "dur": d} for x, (m, d) in enumerate(t)]} for j, t in enumerate(types)]}

    for t1 in job_types:
        for slack in (0, 1, 2):
            inst = mk([t1])
            yield inst, longest(inst) + slack
    for t1 in job_types:
        for t2 in job_types:
            for slack in (0, 1, 2):
                inst = mk([t1, t2])
                yield inst, longest(inst) + slack


DYADIC = [Fraction(k, 4) for k in range(1, 33)]


def gen_penalties(rng, share=None):
    """Configurations inside and on the border of the documented regime; small dyadic numbers so that every float
    operation on them is exact."""
    kind = rng.choice(["default", "border-all-equal", "border-opt-equals-constraints", "strict", "strict", "random-in-regime"])
    if kind == "default":
        P = dict(DEFAULT_P)
    elif kind == "border-all-equal":
        w = rng.choice(DYADIC)
        P = {"enc": w, "overlap": w, "prec": w, "opt": w}
    elif kind == "border-opt-equals-constraints":
        w = rng.choice(DYADIC)
        P = {"enc": w + rng.choice(DYADIC), "overlap": w, "prec": w, "opt": w}
    elif kind == "strict":
        w = rng.choice(DYADIC)
        pp, po = w + rng.choice(DYADIC), w + rng.choice(DYADIC)
        P = {"enc": max(pp, po) + rng.choice(DYADIC), "overlap": po, "prec": pp, "opt": w}
    else:
        xs = sorted(rng.choice(DYADIC) for _ in range(4))
        P = {"opt": xs[0], "prec": xs[rng.choice([1, 2])], "overlap": xs[rng.choice([1, 2])], "enc": xs[3]}
    if share is None:
        share = rng.choice([0, Fraction(1, 2), 1, Fraction(rng.randint(0, 8), 8)])
    P["share"] = share
    P = {k: (float(v) if isinstance(v, Fraction) else v) for k, v in P.items()}
    return P, kind


# ----------------------------------------------------------------------------- one (instance, limit, penalties): run, oracles, literals
class Batch:
    """Collects the Gallina case literals of a run together with the case each belongs to."""

    def __init__(self):
        self.lits, self.cases = [], []

    def add(self, lit, case):
        self.lits.append(lit)
        self.cases.append(case)


def bitstrings(n, rng=None, max_all=10, n_sample=96):
    if n <= max_all:
        return [format(k, f"0{n}b") if n else "" for k in range(2 ** n)], True
    picks = {"0" * n, "1" * n}
    while len(picks) < n_sample:
        picks.add(format(rng.randrange(2 ** n), f"0{n}b"))
    return sorted(picks), False


def encode_bitstring(vars_, flat, n):
    """The bitstring whose decoding is `flat` according to the variables' (start index, values) — used only to
    pick interesting sample states (feasible ones); never part of an oracle."""
    bits = [0] * n
    for (q0, vals), t in zip(vars_, flat):
        if t not in vals:
            return None
        for i in range(vals.index(t)):
            bits[q0 + i] = 1
    return "".join(str(b) for b in reversed(bits))


def examine(ctx, batch, case, want, rng, max_all=10):
    """case = {"inst", "L", "P"}; want ⊆ {"C15", "C01", "C02"} selects the oracle clauses.
    Implementation exceptions become violations or expected errors; returns a small summary dict (for tallies)."""
    inst, L = case["inst"], case["L"]
    P = case.get("P") or dict(DEFAULT_P)
    summ = {"n": None, "states": 0}
    try:
        enc = impl_encoder(inst, L, P, case.get("objects"))
    except Exception as e:  # noqa
        ctx.violation("oracle", f"constructor-{type(e).__name__}", f"encoder constructor raised {type(e).__name__}: {e}", case)
        return summ
    nq = impl_n_qubits(enc)
    batch.add(lit_qubits(inst, L, nq), case)
    too_short = L < longest(inst)
    # ---- C15: rejection / qubit count
    if too_short:
        ctx.tally("limit:too-short")
        h = impl_hamiltonian(impl_encoder(inst, L, P, case.get("objects")))
        if nq[0] == "ok" or nq[1] != "ValueError":
            ctx.violation("oracle", "short-limit-not-rejected", f"limit {L} is shorter than the longest job ({longest(inst)}) but n_qubits gave {nq[:2]}", case)
        if h[0] == "ok" or h[1] != "ValueError":
            ctx.violation("oracle", "short-limit-not-rejected", f"limit {L} is shorter than the longest job ({longest(inst)}) but get_problem_hamiltonian gave {h[0] if h[0] == 'ok' else h[1]}", case)
        batch.add(lit_ham(inst, L, P, h[1] if h[0] == "err" else "", {}, 0, []), case)
        return summ
    if nq[0] != "ok":
        ctx.violation("oracle", f"n-qubits-raises-{nq[1]}", f"n_qubits raised {nq[1]} ({nq[2]}) although limit {L} >= longest job {longest(inst)}", case)
        return summ
    n = nq[1]
    summ["n"] = n
    if n != expected_qubits(inst, L):
        ctx.violation("oracle", "n-qubits", f"n_qubits = {n}, but sum over operations of (limit - job length) = {expected_qubits(inst, L)}", case)
    try:
        vars_ = impl_vars(enc, inst)
        batch.add(lit_vars(inst, L, vars_), case)
    except Exception:  # private state renamed: not a violation of the property, only less is compared
        vars_ = None
        ctx.tally("private-state-unavailable")
    # ---- Hamiltonian
    h = impl_hamiltonian(enc)
    terms = diag = None
    if h[0] == "err":
        if h[1] == "OverflowError":
            # the float range is outside the exact-rational model (named in the trusted base): the oracle reports it, the model is not compared
            ctx.tally("float-overflow:model-comparison-skipped")
        else:
            batch.add(lit_ham(inst, L, P, h[1], {}, 0, []), case)
        if n >= 1:
            ctx.violation("oracle", f"hamiltonian-raises-{h[1]}", f"{n} qubits are needed but get_problem_hamiltonian raised {h[1]}: {h[2]}", case)
    else:
        H = h[1]
        if n < 1:
            ctx.tally("zero-qubit-hamiltonian-built")
        if H.num_qubits != n:
            ctx.violation("oracle", "num-qubits", f"Hamiltonian acts on {H.num_qubits} qubits, n_qubits = {n}", case)
        terms, problems = ham_terms(H)
        if problems:
            ctx.violation("oracle", "not-diagonal", f"Hamiltonian is not a real combination of I/Z strings: {problems}", case)
        scale = max([abs(c) for c in terms.values()] + [1e-300])
        try:
            counts = impl_counts(enc, inst)
        except Exception:
            counts = None
        if counts is not None and n <= 48 and expected_qubits(inst, L) <= 48 and H.num_qubits == n:  # the model's circuit has expected_qubits qubits
            batch.add(lit_ham(inst, L, P, "", terms, scale * 1e-9, counts), case)
        elif counts is not None:
            # the term-by-term comparison through the model's normal form costs minutes for ~1000 qubits: oracle only
            ctx.tally("large-n:model-hamiltonian-comparison-skipped")
        if 1 <= n <= 12 and H.num_qubits == n:
            diag = diag_of_terms(terms, n)
            if n <= 6:  # cross-check of the direct Z-string evaluation against Qiskit's own matrix
                import numpy as np

                d2 = H.to_matrix(sparse=True).diagonal()
                if not np.allclose(d2.real, diag, rtol=0, atol=1e-9 * scale * max(1, len(terms))) or np.abs(d2.imag).max() > 0:
                    ctx.violation("oracle", "diagonal-evaluation", "diagonal of H.to_matrix() differs from the direct evaluation of its Z strings", case)
    # ---- decoding of bitstrings
    strings, complete = bitstrings(n, rng, max_all=max_all)
    decoded, kept = {}, {}
    for b in strings:
        try:
            decoded[b] = impl_decode(enc, inst, b, keep=kept)
        except AssertionError as e:
            ctx.violation("oracle", "decode-shape", f"decoding of {b!r}: {e}", dict(case, bitstring=b))
        except Exception as e:  # noqa
            ctx.violation("oracle", f"decode-raises-{type(e).__name__}", f"translate_result_bitstring({b!r}) raised {type(e).__name__}: {e}", dict(case, bitstring=b))
            batch.add(lit_decode(inst, L, b, ("err", type(e).__name__)), dict(case, bitstring=b))
    summ["states"] = len(decoded)
    if complete and len(decoded) == len(strings) and n == expected_qubits(inst, L):  # the model enumerates 2^(its own qubit count) strings
        batch.add(lit_decode_all(inst, L, [decoded[b][0] for b in strings]), case)
    else:
        for b in strings[:64 if n <= 16 else 6]:
            if b in decoded:
                batch.add(lit_decode(inst, L, b, ("ok", decoded[b][0])), dict(case, bitstring=b))
    reinspect_kept(ctx, case, enc, decoded, kept)
    if "C15" in want and n <= 16 and decoded:
        examine_lifecycle(ctx, case, enc, n, terms, decoded, rng)
    if n <= 16 and decoded:
        examine_retry(ctx, case, n, terms, decoded, rng)
    # wrong lengths are rejected (model: ValueError)
    for b in ([("0" * (n + 1))] + (["0" * (n - 1)] if n >= 1 else [])):
        try:
            impl_decode(enc, inst, b)
            r = ("ok", [])
            ctx.violation("oracle", "wrong-length-accepted", f"bitstring of length {len(b)} accepted for {n} qubits", dict(case, bitstring=b))
        except Exception as e:  # noqa
            r = ("err", type(e).__name__)
            batch.add(lit_decode(inst, L, b, r), dict(case, bitstring=b))
    ops = flat_ops(inst)
    if "C15" in want:
        seen = {}
        for b, (flat, valid, mk) in decoded.items():
            for t, o in zip(flat, ops):
                if t != -1 and (t < 0 or t + o["dur"] > L):
                    ctx.violation("oracle", "decode-bounds", f"{b!r} decodes {o['job']}_{o['name']} to start {t} (duration {o['dur']}, limit {L})", dict(case, bitstring=b))
            if -1 not in flat:
                key = tuple(flat)
                if key in seen:
                    ctx.violation("oracle", "decode-not-injective", f"{seen[key]!r} and {b!r} decode to the same fully scheduled result {flat}", dict(case, bitstring=b))
                seen[key] = b
        if complete:
            feas = feasible_schedules(inst, L)
            if feas is None:
                ctx.tally("completeness:skipped-too-many-assignments")
            else:
                ctx.tally("completeness:checked")
                summ["feasible"] = len(feas)
                for st in feas:
                    if tuple(st) not in seen:
                        ctx.violation("oracle", "decode-incomplete", f"feasible schedule {st} (makespan {makespan_of(inst, st)} <= limit {L}) is not the decoding of any bitstring", dict(case, schedule=st))
                        break
                for key, b in seen.items():
                    if decoded[b][1] and list(key) not in feas:
                        ctx.violation("oracle", "decode-feasibility", f"{b!r} decodes to {list(key)} which the encoder's result calls valid but the exhaustive solver does not list", dict(case, bitstring=b))
                        break
    if diag is None:
        return summ
    # ---- energies (needs the whole spectrum)
    scale_e = sum(abs(c) for c in terms.values())
    eps = Fraction(scale_e) * Fraction(1, 10 ** 9)
    delta = scale_e * 1e-12
    W, Pp, Po, Pe, share = (Fraction(P[k]) for k in ("opt", "prec", "overlap", "enc", "share"))
    regime = in_regime(P)
    samples = []
    if complete and regime and ("C01" in want or "C02" in want):
        feas_E, infeas_E = [], []
        by_mk = {}
        for b in strings:
            if b not in decoded:
                continue
            flat, valid, mk = decoded[b]
            E = Fraction(float(diag[int(b, 2)])) if n else Fraction(float(diag[0]))
            if -1 in flat:
                infeas_E.append((E, b))
                ctx.tally("state:undecodable")
                if "C01" in want and E < Pe - eps:
                    ctx.violation("oracle", "undecodable-below-encoding-penalty", f"{b!r} has an undecodable variable but energy {float(E)} < encoding penalty {float(Pe)}", dict(case, bitstring=b))
                continue
            npr, nov = count_violations(inst, flat)
            feasible = (npr, nov) == (0, 0)
            if feasible != valid:
                ctx.violation("oracle", "is-valid-disagrees", f"{b!r} decodes to {flat}: definition says feasible={feasible}, result.is_valid={valid}", dict(case, bitstring=b))
            opt = E - (Pp * npr + Po * nov)
            if "C01" in want and not (-eps <= opt <= W + eps):
                key = "feasible-out-of-range" if feasible else "decoded-penalties"
                ctx.violation("oracle", key, f"{b!r} decodes to {flat} with {npr} precedence and {nov} overlap violations; energy {float(E)} minus penalties = {float(opt)} is outside [0, {float(W)}]", dict(case, bitstring=b))
            if "C01" in want and share < 1 and not opt > 0:
                ctx.violation("oracle", "optimisation-part-not-positive", f"{b!r} decodes to {flat}; optimisation part {float(opt)} is not > 0 although the makespan share is > 0", dict(case, bitstring=b))
            if feasible:
                ctx.tally("state:feasible")
                feas_E.append((E, b))
                by_mk.setdefault(makespan_of(inst, flat), []).append((E, b))
                if mk != makespan_of(inst, flat):
                    ctx.violation("oracle", "makespan-disagrees", f"{b!r}: result.makespan={mk}, latest end={makespan_of(inst, flat)}", dict(case, bitstring=b))
            else:
                ctx.tally("state:infeasible-decoded")
                infeas_E.append((E, b))
        summ["feasible_states"] = len(feas_E)
        if "C01" in want and feas_E and infeas_E and ((W < Pp and W < Po) or share < 1):
            hi, lo = max(feas_E), min(infeas_E)
            if abs(float(hi[0] - lo[0])) <= delta:
                ctx.tally("skipped-near-boundary:separation")
            elif not hi[0] < lo[0]:
                ctx.violation("oracle", "separation", f"feasible state {hi[1]!r} (energy {float(hi[0])}) is not below infeasible state {lo[1]!r} (energy {float(lo[0])})", dict(case, bitstring=lo[1], bitstring_feasible=hi[1]))
            else:
                ctx.tally("separation:checked")
        if "C02" in want and share == 0:
            mks = sorted(by_mk)
            for m1, m2 in zip(mks, mks[1:]):
                hi, lo = max(by_mk[m1]), min(by_mk[m2])
                if abs(float(hi[0] - lo[0])) <= delta:
                    ctx.tally("skipped-near-boundary:makespan-order")
                elif not hi[0] < lo[0]:
                    ctx.violation("oracle", "makespan-order", f"{hi[1]!r} (makespan {m1}, energy {float(hi[0])}) is not below {lo[1]!r} (makespan {m2}, energy {float(lo[0])})", dict(case, bitstring=hi[1], bitstring_longer=lo[1]))
                else:
                    ctx.tally("makespan-order:pairs-of-classes")
            feas = feasible_schedules(inst, L)
            if feas is None:
                ctx.tally("ground-state:skipped-too-many-assignments")
            elif not feas:
                ctx.tally("ground-state:no-feasible-schedule-within-limit")
            else:
                best = min(makespan_of(inst, st) for st in feas)
                allE = [(Fraction(float(diag[int(b, 2)])), b) for b in strings if b in decoded]
                Emin = min(allE)[0]
                ties = [b for E, b in allE if float(E - Emin) <= delta]
                if len(ties) > 1:
                    ctx.tally("ground-state:ties", len(ties) - 1)
                for b in ties:
                    flat, valid, mk = decoded[b]
                    ok = -1 not in flat and count_violations(inst, flat) == (0, 0) and makespan_of(inst, flat) == best
                    if not ok:
                        ctx.violation("oracle", "ground-state", f"minimum-energy state {b!r} decodes to {flat} (valid={valid}, makespan={mk}); the optimum of the instance within limit {L} is {best}", dict(case, bitstring=b))
                ctx.tally("ground-state:checked")
                samples.append(min(allE)[1])
        # sample states for the direct evaluation of the model's eval: feasible, infeasible, random
        if feas_E:
            samples.append(rng.choice(feas_E)[1])
        if infeas_E:
            samples.append(rng.choice(infeas_E)[1])
    if n >= 1 and n <= 12:
        while len(samples) < 5:
            samples.append(format(rng.randrange(2 ** n), f"0{n}b"))
        scale = max(abs(c) for c in terms.values())
        batch.add(lit_energy(inst, L, P, [(b, float(diag[int(b, 2)])) for b in samples], scale * 1e-9 * max(1, len(terms))), dict(case, bitstrings=samples))
    return summ


def report_mismatches(ctx, name, batch, chunk=12):
    """Run every collected literal through the model; a disagreement is a correspondence violation."""
    from . import core

    bad = core.model_mismatches(name, IMPORTS, "check_case", batch.lits, chunk=chunk)
    seen = set()
    for i in bad:
        kind = batch.lits[i].split(" ", 1)[0]
        if kind in seen:
            continue
        seen.add(kind)
        detail = dict(gallina=batch.lits[i][:3000], kind=kind)
        try:
            if kind == "JHam":
                # does the implementation behave like the legacy (pre-3918627) variant?
                alt = batch.lits[i].replace("JHam false", "JHam true", 1)
                detail["agrees_with_legacy_variant"] = not core.model_mismatches(name + "_legacy", IMPORTS, "check_case", [alt])
        except Exception as e:  # noqa
            detail["legacy_probe_error"] = str(e)[:300]
        ctx.violation("correspondence", f"model-vs-impl-{kind}", f"the Coq model of the encoder and the implementation answer differently ({kind})", batch.cases[i], detail=detail)
    ctx.traces = len(batch.lits)
    return bad


# ----------------------------------------------------------------------------- larger circuits: scan of the lowest-energy states
def gen_shared_machine_case(rng, share=None, max_q=10):
    """Three jobs of 1, 2 and 3 operations (in random job order) that all visit one common machine at a random position of the
    job, durations 1..3, slack 0..3: at least three operations on one machine whose start windows differ in width and offset
    (a single-operation job's window spans the whole horizon, the longest job's windows are tight).  Small enough for 2^n."""
    while True:
        ms = ["m0", "m1", "m2"]
        common = rng.choice(ms)
        others = [m for m in ms if m != common]
        jobs = []
        sizes = [1, 2, 3]
        rng.shuffle(sizes)
        for j, k in enumerate(sizes):
            machines = [common] + rng.sample(others, k - 1)
            rng.shuffle(machines)
            jobs.append({"name": f"j{j}", "ops": [{"name": f"o{x}", "job": f"j{j}", "machine": m, "dur": rng.randint(1, 3)} for x, m in enumerate(machines)]})
        inst = {"name": "inst", "machines": ms, "jobs": jobs}
        L = longest(inst) + rng.choice([0, 0, 1, 1, 2, 3])
        if 3 <= expected_qubits(inst, L) <= max_q:
            P, kind = gen_penalties(rng, share=share)
            return {"inst": inst, "L": L, "P": P, "shape": "three-on-one-machine", "penalties": kind}


def gen_tight_jobs_case(rng, share=None, max_q=10):
    """Two or three jobs whose total duration EQUALS the makespan limit (every operation of theirs has one start time and
    no qubit) next to one or two jobs with slack whose operations share machines with them: pair terms between a fixed
    operation and a variable one reduce to that variable's bare value term, several of them can fall on one start time.
    Penalties close together (all equal, or the encoding penalty slightly above the constraint penalties), which is where a
    wrong viability weight lets an undecodable state sink below the encoding penalty.  Small enough for all 2^n states."""
    while True:
        if rng.random() < 0.6:
            # deliberate: the fixed operations of the tight jobs sit side by side on one common machine, a job with slack has
            # one longer operation there, so one of its start times collides with two or three fixed operations at once
            ms = ["m0", "m1", "m2"]
            rng.shuffle(ms)
            c, pre_m, post_m = ms
            L = rng.randint(4, 7)
            n_t = 2
            d0, d1 = rng.choice([1, 1, 2]), rng.choice([1, 1, 2])
            if d0 + d1 > L:
                continue
            a = rng.randint(0, L - d0 - d1)
            # the two tight jobs do not collide with each other: j0 = A[0,a) c[a,a+d0) B[a+d0,L), j1 = B[0,a+d0) c[a+d0,a+d0+d1) A[a+d0+d1,L)
            parts = [[(pre_m, a), (c, d0), (post_m, L - a - d0)], [(post_m, a + d0), (c, d1), (pre_m, L - a - d0 - d1)]]
            jobs = [{"name": f"j{j}", "ops": [{"name": f"o{x}", "job": f"j{j}", "machine": m, "dur": d} for x, (m, d) in enumerate([q for q in pj if q[1] > 0])]}
                    for j, pj in enumerate(parts)]
            ops = [{"name": "o0", "job": f"j{n_t}", "machine": c, "dur": rng.choice([2, 2, 3])}]
            if rng.random() < 0.3:
                ops.append({"name": "o1", "job": f"j{n_t}", "machine": rng.choice([pre_m, post_m]), "dur": 1})
            jobs.append({"name": f"j{n_t}", "ops": ops})
            rng.shuffle(jobs)
            inst = {"name": "inst", "machines": sorted(ms), "jobs": jobs}
            if longest(inst) != L or not 2 <= expected_qubits(inst, L) <= max_q:
                continue
            return _tight_penalties(rng, inst, L, share)
        ms = ["m0", "m1"] if rng.random() < 0.6 else ["m0", "m1", "m2"]
        L = rng.randint(3, 7)
        jobs = []
        for j in range(rng.choice([2, 2, 3])):
            # a tight job: operations on distinct machines whose durations add up to L
            k = rng.randint(1, min(len(ms), L))
            cuts = sorted(rng.sample(range(1, L), k - 1))
            durs = [b - a for a, b in zip([0] + cuts, cuts + [L])]
            machines = rng.sample(ms, k)
            jobs.append({"name": f"j{j}", "ops": [{"name": f"o{x}", "job": f"j{j}", "machine": m, "dur": d} for x, (m, d) in enumerate(zip(machines, durs))]})
        for j in range(len(jobs), len(jobs) + rng.choice([1, 1, 2])):
            k = rng.randint(1, 2)
            machines = rng.sample(ms, k)
            jobs.append({"name": f"j{j}", "ops": [{"name": f"o{x}", "job": f"j{j}", "machine": m, "dur": rng.randint(1, 2)} for x, m in enumerate(machines)]})
        rng.shuffle(jobs)
        inst = {"name": "inst", "machines": ms, "jobs": jobs}
        if longest(inst) != L or not 2 <= expected_qubits(inst, L) <= max_q:
            continue
        return _tight_penalties(rng, inst, L, share)


def _tight_penalties(rng, inst, L, share):
    w = rng.choice(DYADIC)
    kind = rng.choice(["tight-all-equal", "tight-enc-slightly-above", "tight-enc-slightly-above", "tight-default"])
    if kind == "tight-all-equal":
        P = {"enc": w, "overlap": w, "prec": w, "opt": w}
    elif kind == "tight-enc-slightly-above":
        P = {"enc": w + rng.choice(DYADIC[:4]) * rng.choice([1, Fraction(1, 8)]), "overlap": w, "prec": w, "opt": rng.choice([w, w / 2])}
    else:
        P = dict(DEFAULT_P)
    P["share"] = rng.choice([0, 0, Fraction(1, 2), 1]) if share is None else share
    P = {k: (float(v) if isinstance(v, Fraction) else v) for k, v in P.items()}
    return {"inst": inst, "L": L, "P": P, "shape": "tight-jobs", "penalties": kind}


def gen_contended_case(rng, share=None, min_q=11, max_q=16):
    """Instances whose variables have several qubits and many pair terms per start time: 2-4 single-operation jobs on one
    machine (plus sometimes a second operation elsewhere) with slack 2..5.  These are the states where the negative
    cross terms of malformed domain walls are largest."""
    while True:
        n_j = rng.choice([2, 3, 3, 4])
        two = rng.random() < 0.3
        jobs = []
        for j in range(n_j):
            ops = [{"name": "o0", "job": f"j{j}", "machine": "m0", "dur": rng.choice([1, 1, 2, 3])}]
            if two and rng.random() < 0.5:
                ops.append({"name": "o1", "job": f"j{j}", "machine": "m1", "dur": rng.choice([1, 2])})
                if rng.random() < 0.5:
                    ops.reverse()
                    for x, o in enumerate(ops):
                        o["name"] = f"o{x}"
            jobs.append({"name": f"j{j}", "ops": ops})
        inst = {"name": "inst", "machines": ["m0", "m1"], "jobs": jobs}
        L = longest(inst) + rng.randint(2, 5)
        if min_q <= expected_qubits(inst, L) <= max_q:
            P, kind = gen_penalties(rng, share=share)
            return {"inst": inst, "L": L, "P": P, "shape": "contended", "penalties": kind, "scan": True}


def examine_low_energy(ctx, batch, case, want, rng, K=250):
    """For circuits too large to decode every bitstring: evaluate the implementation's diagonal on ALL 2^n basis states
    (direct Z-string evaluation, n <= 18), decode only the K lowest-energy states through the implementation and check the
    clauses on them (a violation of 'undecodable >= Pe' or of the ground-state clause is a low-energy state)."""
    import numpy as np

    inst, L, P = case["inst"], case["L"], case["P"]
    summ = {"n": None, "states": 0}
    try:
        enc = impl_encoder(inst, L, P, case.get("objects"))
        n = int(enc.n_qubits)
        H = enc.get_problem_hamiltonian()
    except Exception as e:  # noqa
        ctx.violation("oracle", f"hamiltonian-raises-{type(e).__name__}", f"encoder raised {type(e).__name__}: {e}", case)
        return summ
    summ["n"] = n
    terms, problems = ham_terms(H)
    if problems:
        ctx.violation("oracle", "not-diagonal", f"Hamiltonian is not a real combination of I/Z strings: {problems}", case)
    scale = max(abs(c) for c in terms.values())
    try:
        batch.add(lit_ham(inst, L, P, "", terms, scale * 1e-9, impl_counts(enc, inst)), case)
    except Exception:
        pass
    diag = diag_of_terms(terms, n)
    order = np.argsort(diag, kind="stable")[:K]
    scale_e = sum(abs(c) for c in terms.values())
    eps = Fraction(scale_e) * Fraction(1, 10 ** 9)
    delta = scale_e * 1e-12
    W, Pp, Po, Pe, share = (Fraction(P[k]) for k in ("opt", "prec", "overlap", "enc", "share"))
    samples = []
    first = True
    for k in order:
        b = format(int(k), f"0{n}b")
        try:
            flat, valid, mk = impl_decode(enc, inst, b)
        except Exception as e:  # noqa
            ctx.violation("oracle", f"decode-raises-{type(e).__name__}", f"translate_result_bitstring({b!r}) raised {type(e).__name__}: {e}", dict(case, bitstring=b))
            continue
        summ["states"] += 1
        E = Fraction(float(diag[k]))
        if len(samples) < 4:
            samples.append(b)
            batch.add(lit_decode(inst, L, b, ("ok", flat)), dict(case, bitstring=b))
        if -1 in flat:
            ctx.tally("scan:undecodable")
            if "C01" in want and in_regime(P) and E < Pe - eps:
                ctx.violation("oracle", "undecodable-below-encoding-penalty", f"{b!r} has an undecodable variable (decoding {flat}) but energy {float(E)} < encoding penalty {float(Pe)}", dict(case, bitstring=b))
        else:
            npr, nov = count_violations(inst, flat)
            opt = E - (Pp * npr + Po * nov)
            ctx.tally("scan:feasible" if (npr, nov) == (0, 0) else "scan:infeasible-decoded")
            if "C01" in want and in_regime(P) and not (-eps <= opt <= W + eps):
                ctx.violation("oracle", "decoded-penalties" if (npr, nov) != (0, 0) else "feasible-out-of-range", f"{b!r} decodes to {flat} with {npr} precedence and {nov} overlap violations; energy {float(E)} minus penalties = {float(opt)} is outside [0, {float(W)}]", dict(case, bitstring=b))
        if first and "C02" in want and in_regime(P) and share == 0:
            first = False
            feas = feasible_schedules(inst, L, cap=300000)
            if feas:
                best = min(makespan_of(inst, st) for st in feas)
                ties = [int(j) for j in order if float(diag[j]) - float(diag[k]) <= delta]
                for j in ties:
                    bj = format(j, f"0{n}b")
                    fl, va, mkj = impl_decode(enc, inst, bj)
                    if -1 in fl or count_violations(inst, fl) != (0, 0) or makespan_of(inst, fl) != best:
                        ctx.violation("oracle", "ground-state", f"minimum-energy state {bj!r} decodes to {fl} (valid={va}, makespan={mkj}); the optimum of the instance within limit {L} is {best}", dict(case, bitstring=bj))
                ctx.tally("ground-state:checked")
            else:
                ctx.tally("ground-state:skipped-too-many-assignments" if feas is None else "ground-state:no-feasible-schedule-within-limit")
    if samples and n <= 16:
        batch.add(lit_energy(inst, L, P, [(b, float(diag[int(b, 2)])) for b in samples[:3]], scale * 1e-9 * max(1, len(terms))), dict(case, bitstrings=samples[:3]))
    return summ


# ----------------------------------------------------------------------------- large slack: limits far above the schedules compared
# Float-resolution bound of this family (stated in the evidence): n_jobs <= 3, limit <= 30, W >= 1/4.  The makespan weights are
# floats of (J+1)^(end-limit)/J; the smallest one is >= (1/4) * 4^-30 / 3 ~ 7e-20, far above the subnormal range, and every
# coefficient of the unchanged implementation carries a relative error <= 2^-51.  Energies are evaluated EXACTLY from the
# float coefficients (integer arithmetic over a common power-of-two denominator), so the only rounding is the implementation's
# own: relative <= 1e-15 of a feasible state's energy, while two makespan classes differ by a relative >= 1/(J*(J+1)) >= 1/12.
LARGE_SLACK_NOTE = ("large-slack family: n_jobs <= 3, limit 18..30 (25..60 qubits), W >= 1/4; energies of ALL feasible schedules evaluated exactly "
                    "(integer arithmetic on the float coefficients of the term list, no to_matrix, no float summation); implementation rounding "
                    "<= 1e-15 relative to a state's energy vs. relative gap >= 1/(J(J+1)) >= 1/12 between makespan classes; smallest weight >= 7e-20 (no underflow); "
                    "model comparison: |model energy - implementation energy| <= 1e-9 * energy per sampled state (not relative to the largest coefficient)")


# Float-resolution bound of the huge-limit family: n_jobs <= 3, limit <= 70, W >= 1/4.  The weights (J+1)^(end-limit)/J go down to
# 2^-70 ~ 8e-22 (4^-36/3 ~ 7e-23 for three jobs): normal doubles, each correctly rounded (relative <= 2^-53); the energy of a
# feasible state is a sum of at most 3 such weights times W (two more roundings each), i.e. exact to a relative <= 1e-15 of
# the energy itself, and it is evaluated here in exact integer arithmetic.  Two makespan classes M1 < M2 satisfy
# E2 >= (J+1)/J * E1, a relative gap >= 1/(J+1) >= 1/4: the strictness clause is never inside the rounding, none is skipped.
HUGE_LIMIT_NOTE = ("huge-limit family: (n_jobs+1)^limit >= 2^63 (one job: limit 63..70, two: 40..45, three: 32..36). (a) unit-length operations, 60..136 qubits: "
                   "feasible schedules enumerated independently (all, or the 2500 with the smallest / largest makespans plus a random sample), a few infeasible and undecodable states, "
                   "energies exact from the term list; (b) long operations with slack 1..3, <= 12 qubits, all basis states. Bound enforced: n_jobs <= 3, limit <= 70, W >= 1/4: "
                   "weights >= 7e-23 are normal doubles, a feasible state's energy is exact to <= 1e-15 relative, makespan classes differ by a relative >= 1/(J+1) >= 1/4, so no strictness clause is skipped; "
                   "model comparison |model - implementation| <= 1e-9 * |energy| per sampled state")


def feasible_schedules_dfs(inst, L, cap=8000):
    """All feasible schedules with every operation inside [0, L] (flat job-major starts), by a depth-first search over the
    operations in job-major order that only uses the JSSP definition (precedence inside a job, no overlap on a machine).
    None if there are more than `cap`."""
    ops = flat_ops(inst)
    first_of_job = []
    for j in inst["jobs"]:
        first_of_job += [True] + [False] * (len(j["ops"]) - 1)
    out, cur = [], []

    def rec(k):
        if len(out) > cap:
            return
        if k == len(ops):
            out.append(list(cur))
            return
        lo = 0 if first_of_job[k] else cur[k - 1] + ops[k - 1]["dur"]
        for t in range(lo, L - ops[k]["dur"] + 1):
            ok = True
            for a in range(k):
                if ops[a]["machine"] == ops[k]["machine"] and cur[a] < t + ops[k]["dur"] and t < cur[a] + ops[a]["dur"]:
                    ok = False
                    break
            if ok:
                cur.append(t)
                rec(k + 1)
                cur.pop()

    rec(0)
    return None if len(out) > cap else out


def exact_terms(H):
    """{bit mask of the qubits carrying Z: Fraction}, every float coefficient taken exactly, like terms merged exactly."""
    z = H.paulis.z
    out = {}
    for row, c in zip(z, H.coeffs):
        mask = 0
        for q in row.nonzero()[0]:
            mask |= 1 << int(q)
        out[mask] = out.get(mask, Fraction(0)) + Fraction(float(complex(c).real))
    return out


def exact_energies(eterms, n, bit_rows):
    """Exact eigenvalues (Fractions) on the basis states given as rows of bits (index = qubit)."""
    import numpy as np

    masks = list(eterms)
    den = 1
    for c in eterms.values():
        if c.denominator > den:
            den = c.denominator  # all denominators are powers of two
    ints = np.array([int(eterms[m] * den) for m in masks], dtype=object)
    Z = np.array([[(m >> q) & 1 for q in range(n)] for m in masks], dtype=np.int64)  # D x n
    B = np.array(bit_rows, dtype=np.int64).T  # n x S
    signs = 1 - 2 * ((Z @ B) % 2)  # D x S
    sums = np.dot(ints, signs.astype(object))
    return [Fraction(int(x), den) for x in sums]


def gen_large_slack_case(rng, share=0):
    """2-3 jobs of one or two operations, limit 18..30, 25..60 qubits, at most ~6000 feasible schedules."""
    while True:
        shape = rng.choice(["2x1-one-machine", "2x1-one-machine", "3x1-one-machine", "2-jobs-mixed", "3x1-two-machines"])
        if shape == "2x1-one-machine":
            jobs = [[("m0", rng.randint(1, 3))], [("m0", rng.randint(1, 3))]]
            L = rng.randint(20, 30)
        elif shape == "3x1-one-machine":
            jobs = [[("m0", rng.randint(1, 2))] for _ in range(3)]
            L = rng.randint(18, 20)
        elif shape == "3x1-two-machines":
            jobs = [[(rng.choice(["m0", "m1"]), rng.randint(1, 3))] for _ in range(3)]
            L = rng.randint(18, 20)
        else:
            jobs = [[("m0", rng.randint(1, 2)), ("m1", rng.randint(1, 2))], [(rng.choice(["m0", "m1"]), rng.randint(1, 3))]]
            if rng.random() < 0.5:
                jobs.reverse()
            L = rng.randint(18, 21)
        inst = {"name": "inst", "machines": ["m0", "m1"], "jobs": [
            {"name": f"j{j}", "ops": [{"name": f"o{x}", "job": f"j{j}", "machine": m, "dur": d} for x, (m, d) in enumerate(t)]} for j, t in enumerate(jobs)]}
        n = expected_qubits(inst, L)
        if not 25 <= n <= 60:
            continue
        while True:
            P, kind = gen_penalties(rng, share=share)
            if P["opt"] >= 0.25:
                break
        return {"inst": inst, "L": L, "P": P, "shape": "large-slack:" + shape, "penalties": kind, "large_slack": True}


def gen_huge_limit_case(rng, share=0, kind=None):
    kind = kind or rng.choice(["unit", "long"])
    for _ in range(200):
        c = _gen_huge_limit_case(rng, share, kind)
        if kind == "unit" or (1 <= expected_qubits(c["inst"], c["L"]) <= 12 and feasible_schedules(c["inst"], c["L"])):
            return c
    raise RuntimeError("huge-limit generator: no feasible instance in 200 draws")


def _gen_huge_limit_case(rng, share=0, kind=None):
    """(n_jobs+1)^limit >= 2^63.  kind 'unit': short operations, 60..136 qubits (exact evaluation of selected states);
    kind 'long': long operations with slack 1..3, <= 12 qubits (all basis states through `examine`)."""
    kind = kind or rng.choice(["unit", "long"])
    J = rng.choice([1, 2, 3])

    def mk(jobs):
        return {"name": "inst", "machines": ["m0", "m1"], "jobs": [
            {"name": f"j{j}", "ops": [{"name": f"o{x}", "job": f"j{j}", "machine": m, "dur": d} for x, (m, d) in enumerate(t)]} for j, t in enumerate(jobs)]}

    while True:
        P, pk = gen_penalties(rng, share=share)
        if P["opt"] >= 0.25:
            break
    if kind == "unit":
        if J == 1:
            inst, L = mk([[("m0", 1), ("m1", 1)]]), rng.randint(63, 70)
        elif J == 2:
            inst, L = mk([[("m0", rng.randint(1, 2))], [("m0", rng.randint(1, 2))]]), rng.randint(40, 45)
        else:
            inst, L = mk([[("m0", 1)], [("m0", 1)], [("m1", 1)]]), rng.randint(32, 36)
        return {"inst": inst, "L": L, "P": P, "shape": f"huge-limit:unit:{J}-jobs", "penalties": pk, "large_slack": True, "huge": True}
    slack = rng.randint(1, 3)
    if J == 1:
        d1 = rng.randint(25, 36)
        L = rng.randint(63, 66)
        inst = mk([[("m0", d1), ("m1", L - slack - d1)]])
    elif J == 2:
        L = rng.randint(40, 42)
        a, b = rng.randint(15, 22), rng.randint(15, 22)
        inst = mk([[("m0", a), ("m1", L - slack - a)], [("m1", b), ("m0", L - slack - b)]])
        if expected_qubits(inst, L) > 12:
            slack = 2
            inst = mk([[("m0", a), ("m1", L - slack - a)], [("m1", b), ("m0", L - slack - b)]])
    else:
        # three long single-operation jobs; two of them may share a machine only if they fit one after the other, which would
        # need too many qubits, so they run on three machines (the wrap-around concerns the weights, not the pair terms)
        L = rng.randint(32, 34)
        inst = mk([[("m0", L - rng.randint(1, 3))], [("m1", L - rng.randint(1, 3))], [("m2", L - rng.randint(1, 3))]])
        inst["machines"] = ["m0", "m1", "m2"]
    return {"inst": inst, "L": L, "P": P, "shape": f"huge-limit:long:{J}-jobs", "penalties": pk}


MANY_CONFLICTS_NOTE = ("many-conflicts family: one pair of operations with more than 1024 (and more than 2048) penalised start-time combinations: two single-operation jobs with long "
                       "durations on one machine (overlap) or one job of two operations (precedence), limits 47..90, 88..130 qubits; all feasible schedules enumerated independently; infeasible in-window states "
                       "cover the pair's conflict set systematically in the enumeration order (first over second start time) and in reverse: the first and last 6, every k-th from both ends, and the combinations around "
                       "every multiple of 1024, about 400 states; energies exact from the raw term list; clauses: decoded-penalties (energy minus Pp/Po per violated pair in [0, W]), feasible range, separation. "
                       "Bound enforced: n_jobs <= 2, limit <= 100, W >= 1/4: weights >= 3^-100/2 ~ 1e-48 are normal doubles; no strictness clause is skipped")


def conflict_cover(inst, vars_, n):
    """Bitstrings of in-window start assignments that violate precedence / overlap, covering the conflict set of the instance
    (in the order 'first operation's start, then second operation's start', which is how the pair terms are enumerated) from
    both ends: a dropped head, tail or chunk of penalty terms is hit."""
    import itertools

    allc = [list(st) for st in itertools.product(*[vals for _, vals in vars_]) if count_violations(inst, st) != (0, 0)]
    m = len(allc)
    if m == 0:
        return []
    k = max(1, m // 150)
    idx = set(range(min(6, m))) | set(range(max(0, m - 6), m)) | set(range(0, m, k)) | set(range(m - 1, -1, -k))
    for mult in range(1024, m + 1024, 1024):
        idx |= {i for i in (mult - 2, mult - 1, mult, mult + 1, m - mult - 1, m - mult, m - mult + 1) if 0 <= i < m}
    return [encode_bitstring(vars_, allc[i], n) for i in sorted(idx)]


def gen_many_conflicts_case(rng, share=None, which=None):
    which = which or rng.choice(["overlap>1024", "overlap>2048", "precedence>1024", "precedence>2048"])
    while True:
        P, pk = gen_penalties(rng, share=share)
        if P["opt"] >= 0.25:
            break

    def mk(jobs):
        return {"name": "inst", "machines": ["m0", "m1"], "jobs": [
            {"name": f"j{j}", "ops": [{"name": f"o{x}", "job": f"j{j}", "machine": m, "dur": d} for x, (m, d) in enumerate(t)]} for j, t in enumerate(jobs)]}

    while True:
        if which.startswith("overlap"):
            d1, d2 = (rng.randint(13, 17), rng.randint(13, 17)) if which.endswith("1024") else (rng.randint(22, 27), rng.randint(22, 27))
            L = max(d1, d2) + (rng.randint(40, 46) if which.endswith("1024") else rng.randint(52, 58))
            inst = mk([[("m0", d1)], [("m0", d2)]])
        else:
            N = rng.randint(47, 52) if which.endswith("1024") else rng.randint(65, 68)
            d1, d2 = rng.randint(1, 5), rng.randint(1, 3)
            L = d1 + d2 + N - 1
            inst = mk([[("m0", d1), ("m1", d2)]])
        ops = flat_ops(inst)
        w = windows(inst, L)
        r = [range(h, L - d - t + 1) for h, d, t in w]
        count = sum(1 for a in r[0] for b in r[1] if count_violations(inst, [a, b]) != (0, 0))
        lo = 1024 if which.endswith("1024") else 2048
        if lo < count < lo + 1024 and count % 1024 != 0 and L <= 100:
            return {"inst": inst, "L": L, "P": P, "shape": "many-conflicts:" + which, "penalties": pk, "large_slack": True, "huge": True, "conflicts": True, "n_conflicts": count}


def lit_energy_rel(inst, L, P, samples, rel):
    return f"JEnergyRel {jssp.g_inst(inst)} {g_z(L)} {g_pen(P)} {g_list(g_pair(g_bits(b), g_q(x)) for b, x in samples)} {g_q(rel)}"


def examine_large_slack(ctx, batch, case, want, rng, n_samples=5):
    """Limits far above the schedules compared (see LARGE_SLACK_NOTE): every feasible schedule is enumerated independently,
    encoded through the implementation's own variables, decoded back through the implementation, and its energy is evaluated
    exactly from the Hamiltonian's term list.  C02: strict order between makespan classes, minimum only at the optimum;
    C01: feasible range, optimisation part positive.  Model: exact energies of sampled feasible states (relative tolerance)."""
    inst, L, P = case["inst"], case["L"], case["P"]
    summ = {"n": None, "states": 0}
    ctx.notes["large_slack_family"] = LARGE_SLACK_NOTE
    J = len(inst["jobs"])
    W, share = Fraction(P["opt"]), Fraction(P["share"])
    huge = bool(case.get("huge"))
    if huge:
        ctx.notes["huge_limit_family"] = HUGE_LIMIT_NOTE
    conflicts = bool(case.get("conflicts"))
    if conflicts:
        ctx.notes["many_conflicts_family"] = MANY_CONFLICTS_NOTE
        assert J <= 2 and L <= 100 and W >= Fraction(1, 4), "outside the float-resolution bound this family states"
    else:
        assert J <= 3 and L <= (70 if huge else 30) and W >= Fraction(1, 4), "outside the float-resolution bound this family states"
    try:
        enc = impl_encoder(inst, L, P, case.get("objects"))
        nq = impl_n_qubits(enc)
        batch.add(lit_qubits(inst, L, nq), case)
        n = nq[1]
        H = enc.get_problem_hamiltonian()
        vars_ = impl_vars(enc, inst)
    except Exception as e:  # noqa
        ctx.violation("oracle", f"hamiltonian-raises-{type(e).__name__}", f"encoder raised {type(e).__name__}: {e}", case)
        return summ
    summ["n"] = n
    if H.paulis.x.any():
        ctx.violation("oracle", "not-diagonal", "Hamiltonian contains X/Y factors", case)
        return summ
    feas = feasible_schedules_dfs(inst, L, cap=60000 if huge else 8000)
    if not feas:
        ctx.tally("large-slack:skipped-too-many-schedules" if feas is None else "large-slack:no-feasible-schedule")
        return summ
    best_makespan = min(makespan_of(inst, st) for st in feas)
    if len(feas) > 2500:  # keep the extremes of the makespan range and a random sample: every clause is about pairs of feasible schedules
        feas.sort(key=lambda st: (makespan_of(inst, st), st))
        keep = feas[:700] + feas[-700:] + rng.sample(feas[700:-700], 1100)
        feas = sorted(keep, key=lambda st: (makespan_of(inst, st), st))
        ctx.tally("large-slack:feasible-schedules-subsampled")
    rows, strings = [], []
    for st in feas:
        b = encode_bitstring(vars_, st, n)
        if b is None:
            ctx.violation("oracle", "decode-incomplete", f"feasible schedule {st} (makespan {makespan_of(inst, st)} <= limit {L}) has a start time outside its variable's values", dict(case, schedule=st))
            return summ
        strings.append(b)
        rows.append([int(ch) for ch in reversed(b)])
    # the implementation's own decoding of these bitstrings must give the schedules back (sampled: all if few)
    kept, first_said = {}, {}
    for i in (range(len(feas)) if len(feas) <= 400 else rng.sample(range(len(feas)), 400)):
        try:
            flat, valid, mk = impl_decode(enc, inst, strings[i], keep=kept)
            first_said[strings[i]] = (flat, valid, mk)
        except Exception as e:  # noqa
            ctx.violation("oracle", f"decode-raises-{type(e).__name__}", f"translate_result_bitstring({strings[i]!r}) raised {type(e).__name__}: {e}", dict(case, bitstring=strings[i]))
            continue
        if flat != feas[i] or not valid or mk != makespan_of(inst, feas[i]):
            ctx.violation("oracle", "decode-feasibility", f"{strings[i]!r} encodes the feasible schedule {feas[i]} but decodes to {flat} (valid={valid}, makespan={mk})", dict(case, bitstring=strings[i]))
    reinspect_kept(ctx, case, enc, first_said, kept)
    energies = exact_energies(exact_terms(H), n, rows)
    summ["states"] = len(feas)
    summ["feasible_states"] = len(feas)
    eps = W * Fraction(1, 10 ** 9)
    by_mk = {}
    for st, b, E in zip(feas, strings, energies):
        by_mk.setdefault(makespan_of(inst, st), []).append((E, b, st))
        if "C01" in want and in_regime(P):
            if not (-eps <= E <= W + eps):
                ctx.violation("oracle", "feasible-out-of-range", f"{b!r} decodes to the feasible schedule {st}; its exact energy {float(E)} is outside [0, {float(W)}]", dict(case, bitstring=b))
            elif share < 1 and not E > 0:
                ctx.violation("oracle", "optimisation-part-not-positive", f"{b!r} decodes to the feasible schedule {st}; its exact energy {float(E)} is not > 0 although the makespan share is > 0", dict(case, bitstring=b))
    mks = sorted(by_mk)
    if "C02" in want and in_regime(P) and share == 0:
        for m1, m2 in zip(mks, mks[1:]):
            hi, lo = max(by_mk[m1]), min(by_mk[m2])
            if not hi[0] < lo[0]:
                ctx.violation("oracle", "makespan-order", f"{hi[1]!r} (schedule {hi[2]}, makespan {m1}, exact energy {float(hi[0])!r}) is not strictly below {lo[1]!r} (schedule {lo[2]}, makespan {m2}, exact energy {float(lo[0])!r}); limit {L}", dict(case, bitstring=hi[1], bitstring_longer=lo[1]))
                break
            ctx.tally("makespan-order:pairs-of-classes")
        Emin = min(energies)
        for st, b, E in zip(feas, strings, energies):
            if E == Emin and makespan_of(inst, st) != best_makespan:
                ctx.violation("oracle", "ground-state", f"the minimum energy over the feasible states ({float(Emin)!r}) is attained by {b!r} = schedule {st} with makespan {makespan_of(inst, st)}; the optimum is {best_makespan}; limit {L}", dict(case, bitstring=b))
                break
        ctx.tally("ground-state:checked-over-feasible-states")
    extra = []
    if "C01" in want and in_regime(P):
        # a few fully decoded infeasible states (start times inside the windows, violating precedence / overlap) and undecodable ones
        Pp, Po, Pe = Fraction(P["prec"]), Fraction(P["overlap"]), Fraction(P["enc"])
        cand = conflict_cover(inst, vars_, n) if conflicts else []
        for _ in range(0 if conflicts else 60):
            st = [rng.choice(vals) for _, vals in vars_]
            if count_violations(inst, st) != (0, 0):
                cand.append(encode_bitstring(vars_, st, n))
            if len(cand) >= 8:
                break
        for b0 in rng.sample(strings, min(8, len(strings))):
            bits = list(b0)
            q0, vals = rng.choice([v for v in vars_ if len(v[1]) >= 3])
            k = rng.randrange(q0, q0 + len(vals) - 1)
            bits[n - 1 - k] = "1" if bits[n - 1 - k] == "0" else "0"
            cand.append("".join(bits))
        cand = list(dict.fromkeys(cand))
        cE = exact_energies(exact_terms(H), n, [[int(ch) for ch in reversed(b)] for b in cand]) if cand else []
        for b, E in zip(cand, cE):
            try:
                flat, valid, mk = impl_decode(enc, inst, b)
            except Exception as e:  # noqa
                ctx.violation("oracle", f"decode-raises-{type(e).__name__}", f"translate_result_bitstring({b!r}) raised {type(e).__name__}: {e}", dict(case, bitstring=b))
                continue
            if -1 in flat:
                ctx.tally("state:undecodable")
                if E < Pe - eps:
                    ctx.violation("oracle", "undecodable-below-encoding-penalty", f"{b!r} has an undecodable variable (decoding {flat}) but exact energy {float(E)} < encoding penalty {float(Pe)}", dict(case, bitstring=b))
            else:
                npr, nov = count_violations(inst, flat)
                opt = E - (Pp * npr + Po * nov)
                ctx.tally("state:feasible" if (npr, nov) == (0, 0) else "state:infeasible-decoded")
                if not (-eps <= opt <= W + eps):
                    ctx.violation("oracle", "decoded-penalties" if (npr, nov) != (0, 0) else "feasible-out-of-range", f"{b!r} decodes to {flat} with {npr} precedence and {nov} overlap violations; exact energy {float(E)} minus penalties = {float(opt)} is outside [0, {float(W)}]", dict(case, bitstring=b))
            extra.append((b, E))
    # model: exact energies of sampled feasible states, tolerance relative to each state's own energy
    picks = []
    for m in mks[:2]:
        picks.append(min(by_mk[m])[1])
    picks.append(max(by_mk[mks[-1]])[1])
    while len(picks) < n_samples:
        picks.append(rng.choice(strings))
    picks = list(dict.fromkeys(picks))
    e_of = dict(zip(strings, energies))
    xs = (extra[:1] + extra[len(extra) // 2:len(extra) // 2 + 1] + extra[-1:]) if conflicts else extra[:2]
    batch.add(lit_energy_rel(inst, L, P, [(b, e_of[b]) for b in picks] + xs, Fraction(1, 10 ** 9)), dict(case, bitstrings=picks + [b for b, _ in xs]))
    for b in picks[:2]:
        batch.add(lit_decode(inst, L, b, ("ok", feas[strings.index(b)])), dict(case, bitstring=b))
    return summ


def examiner(case):
    f = examine_large_slack if case.get("large_slack") else examine_low_energy if case.get("scan") else examine

    def guarded(ctx, batch, c, want, rng):
        try:
            return f(ctx, batch, c, want, rng)
        except Exception as e:  # noqa  -- implementation output the oracle code cannot even evaluate (wrong shapes, missing keys ...)
            import traceback

            ctx.violation("oracle", f"output-unusable-{type(e).__name__}", f"the implementation's outputs for this case could not be evaluated: {type(e).__name__}: {e}", c,
                          detail=traceback.format_exc()[-1500:])
            return {"n": None, "states": 0}

    return guarded
