"""Common machinery of the /verif checks: Coq build, proof-obligation status, model evaluation
through generated case files, findings, replays, evidence.  See /verif/BUILDING.md."""
from __future__ import annotations

import hashlib
import json
import os
import random
import re
import subprocess
import sys
import time
from fractions import Fraction
from pathlib import Path

ROOT = Path(__file__).resolve().parents[2]
COQ = ROOT / "coq"
BUILD = ROOT / "build"
REPO = Path(os.environ.get("VERIF_REPO", "/repo"))
SCRATCH_SUFFIX = "" if str(REPO) == "/repo" else "_" + hashlib.sha1(str(REPO).encode()).hexdigest()[:8]
ALLOWED_AXIOMS: dict[str, list[str]] = {}  # property id -> axiom names accepted (named in DESIGN.md §6)
COQ_ARGS = ["-Q", str(COQ / "theories"), "QV", "-w", "-notation-overridden,-deprecated-hint-without-locality,-deprecated-instance-without-locality"]


def use_repo():
    """Make `import queasars` resolve to /repo's current working tree (and nothing else)."""
    sys.path[:] = [p for p in sys.path if "queasars" not in p.lower()]
    sys.path.insert(0, str(REPO))
    for name in list(sys.modules):
        if name == "queasars" or name.startswith("queasars."):
            del sys.modules[name]
    import warnings

    warnings.filterwarnings("ignore")
    import queasars  # noqa

    assert Path(queasars.__file__).resolve().is_relative_to(REPO.resolve()), queasars.__file__


# ----------------------------------------------------------------------------- Gallina literals
def g_z(n) -> str:
    n = int(n)
    return f"({n})%Z"


def g_nat(n) -> str:
    n = int(n)
    assert 0 <= n < 5000, n
    return f"{n}%nat"


def g_bool(b) -> str:
    return "true" if b else "false"


def g_q(x) -> str:
    """Exact rational literal for an int / Fraction / float (floats are dyadic rationals)."""
    f = Fraction(x)
    return f"(Qmake ({f.numerator})%Z {f.denominator}%positive)"


def g_str(s: str) -> str:
    """Coq string literal; only printable ASCII goes through literally, everything else via bytes."""
    b = s.encode("utf-8")
    if all(32 <= c < 127 and c != 34 for c in b):
        return '"' + s + '"%string'
    return "(sbytes " + g_list(g_nat(c) for c in b) + ")"


def g_list(items) -> str:
    return "[" + "; ".join(items) + "]"


def g_opt(x) -> str:
    return "None" if x is None else f"(Some {x})"


def g_pair(*xs) -> str:
    return "(" + ", ".join(xs) + ")"


# ----------------------------------------------------------------------------- Coq build / proofs
def _run(cmd, timeout, cwd=None):
    t0 = time.time()
    try:
        p = subprocess.run(cmd, cwd=cwd, capture_output=True, text=True, timeout=timeout)
        return p.returncode, p.stdout + p.stderr, time.time() - t0
    except subprocess.TimeoutExpired as e:
        out = (e.stdout or b"").decode(errors="replace") if isinstance(e.stdout, bytes) else (e.stdout or "")
        return 124, out + "\nTIMEOUT", time.time() - t0


def coq_build(targets: list[str], timeout=3000):
    """make the given .vo targets (paths relative to /verif/coq). Returns (ok, log)."""
    rc, out, _ = _run([str(ROOT / "tools" / "build.sh")] + targets, timeout)
    return rc == 0, out


THEOREM_RE = re.compile(r"^\s*(?:Theorem|Lemma|Corollary|Example)\s+([A-Za-z0-9_']+)", re.M)


def check_props(pid: str, clean: bool = False):
    """Compile theories/Props/<pid>.v (after its dependencies) and read the Print Assumptions output.
    Returns dict(obligations, discharged, theorems=[{name, closed, axioms}], ok, log, failed)."""
    src = COQ / "theories" / "Props" / f"{pid}.v"
    res = dict(obligations=0, discharged=0, theorems=[], ok=False, log="", failed=None)
    if not src.exists():
        res["failed"] = f"{src} missing"
        return res
    text = src.read_text()
    names = THEOREM_RE.findall(text)
    printed = re.findall(r"Print Assumptions\s+([A-Za-z0-9_']+)\s*\.", text)
    res["obligations"] = len(names)
    for bad in ("Admitted", "admit.", "Axiom ", "Parameter ", "Conjecture ", "Unset Guard", "bypass_check"):
        if bad in text:
            res["failed"] = f"forbidden token {bad!r} in {src.name}"
            return res
    missing = [n for n in names if n not in printed]
    if missing:
        res["failed"] = f"no Print Assumptions for {missing}"
        return res
    vo = f"theories/Props/{pid}.vo"
    if clean:
        for ext in (".vo", ".vok", ".vos", ".glob"):
            (COQ / "theories" / "Props" / f"{pid}{ext}").unlink(missing_ok=True)
    ok, log = coq_build([vo])
    res["log"] = log[-4000:]
    if not ok:
        m = re.search(r'File "([^"]+)", line (\d+)[^\n]*\n(?:.*\n)*?Error:?\s*([^\n]*(?:\n[^\n]*)?)', log)
        res["failed"] = "build failed: " + (f"{m.group(1)}:{m.group(2)}: {m.group(3)}" if m else log[-600:])
        return res
    # Re-run the property file alone to capture what Print Assumptions says.
    (BUILD / "props_out").mkdir(parents=True, exist_ok=True)
    rc, out, _ = _run(["coqc"] + COQ_ARGS + ["-o", str(BUILD / "props_out" / f"{pid}.vo"), str(src)], 1200)
    if rc != 0:
        res["failed"] = "coqc of property file failed: " + out[-600:]
        return res
    # Output: one block per Print Assumptions, in order: either "Closed under the global context" or "Axioms:\n ...".
    blocks = re.split(r"(?=Closed under the global context|Axioms:)", out)
    blocks = [b for b in blocks if b.startswith("Closed under") or b.startswith("Axioms:")]
    if len(blocks) != len(printed):
        res["failed"] = f"expected {len(printed)} Print Assumptions blocks, saw {len(blocks)}"
        return res
    allowed = set(ALLOWED_AXIOMS.get(pid, []))
    for n, b in zip(printed, blocks):
        if b.startswith("Closed"):
            th = dict(name=n, closed=True, axioms=[])
        else:
            axs = [a for a in re.findall(r"^([A-Za-z0-9_.']+)\s*:", b, re.M) if a != "Axioms"]
            th = dict(name=n, closed=False, axioms=axs)
        res["theorems"].append(th)
    good = [t for t in res["theorems"] if t["name"] in names and (t["closed"] or set(t["axioms"]) <= allowed)]
    res["discharged"] = len({t["name"] for t in good})
    if res["discharged"] != res["obligations"]:
        bad = [t for t in res["theorems"] if t not in good]
        res["failed"] = f"assumptions not accepted: {bad}"
        return res
    res["ok"] = True
    return res


def grep_forbidden():
    """No Admitted/Axiom/... anywhere in the development (comments and strings ignored): tools/forbidden.py."""
    rc, out, _ = _run([sys.executable, str(ROOT / "tools" / "forbidden.py")], 120)
    return [l for l in out.splitlines() if l.strip()] if rc != 0 else []


def coq_eval(name: str, sources: list[str], timeout=900, jobs=16) -> list[str]:
    """Compile the given .v source texts (shards) under build/cases/<name>/ in parallel and return their
    stdout (one string per shard). Raises RuntimeError(log) if a shard fails to compile."""
    d = BUILD / "cases" / (name + SCRATCH_SUFFIX)
    d.mkdir(parents=True, exist_ok=True)
    for old in d.glob("*"):
        old.unlink()
    procs = []
    outs = [""] * len(sources)
    pending = list(enumerate(sources))
    running = []
    while pending or running:
        while pending and len(running) < jobs:
            i, src = pending.pop(0)
            f = d / f"s{i}.v"
            f.write_text(src)
            p = subprocess.Popen(["timeout", str(timeout), "coqc"] + COQ_ARGS + [str(f)], stdout=subprocess.PIPE, stderr=subprocess.STDOUT, text=True)
            running.append((i, p))
        i, p = running.pop(0)
        out, _ = p.communicate()
        if p.returncode != 0:
            for _, q in running:
                q.kill()
            raise RuntimeError(f"case shard {i} of {name} failed (rc={p.returncode}):\n{out[-3000:]}")
        outs[i] = out
    return outs


def parse_nat_list(out: str) -> list[int]:
    """Parse the `= [a; b; c] : list nat` (or N / Z) printed by Eval vm_compute."""
    m = re.search(r"=\s*(\[.*?\]|nil)\s*:\s*list", out, re.S)
    if not m:
        raise RuntimeError("cannot parse Coq output: " + out[:500])
    return [int(x) for x in re.findall(r"-?\d+", m.group(1))]


def model_mismatches(name: str, imports: str, checker: str, cases: list[str], chunk=300, timeout=900) -> list[int]:
    """Each case is a Gallina term; `checker : case -> bool` says whether the model agrees with what the
    implementation returned (embedded in the case). Returns the indices of disagreeing cases."""
    if not cases:
        return []
    shards = []
    for s in range(0, len(cases), chunk):
        body = ";\n  ".join(cases[s : s + chunk])
        shards.append(
            f"{imports}\nOpen Scope list_scope.\nDefinition cases := [\n  {body}\n].\n"
            f"Definition bad := map fst (filter (fun ic => negb ({checker} (snd ic))) (combine (seq 0 (length cases)) cases)).\n"
            f"Eval vm_compute in bad.\n"
        )
    outs = coq_eval(name, shards, timeout=timeout)
    bad = []
    for si, out in enumerate(outs):
        bad += [si * chunk + i for i in parse_nat_list(out)]
    return bad


def model_show(name: str, imports: str, term: str, timeout=300) -> str:
    """Evaluate one term in the model and return Coq's printed value (for replay files)."""
    outs = coq_eval(name + "_show", [f"{imports}\nOpen Scope list_scope.\nEval vm_compute in ({term}).\n"], timeout=timeout)
    return re.sub(r"\s+", " ", outs[0]).strip()[:4000]


# ----------------------------------------------------------------------------- findings
def load_findings():
    """known_findings.txt lines:  known: property=<id> key=<key> <what fails>   |   fixed: property=<id> <commit> <what failed>"""
    known = []
    f = ROOT / "known_findings.txt"
    if f.exists():
        for line in f.read_text().splitlines():
            m = re.match(r"known:\s+property=(\S+)\s+key=(\S+)\s+(.*)", line)
            if m:
                known.append(dict(property=m.group(1), key=m.group(2), what=m.group(3)))
    return known


# ----------------------------------------------------------------------------- check context
class Ctx:
    def __init__(self, pid: str, tier: str, seed: int):
        self.pid, self.tier, self.seed = pid, tier, seed
        self.rng = random.Random(f"{pid}:{seed}")
        self.t0 = time.time()
        self.evaluations = 0
        self.nontrivial: set = set()
        self.samples: list = []
        self.dist: dict = {}
        self.violations: list = []  # dict(kind, key, what, case, detail)
        self.notes: dict = {}
        self.traces = 0
        self.rule = ""
        self.assumptions: list[str] = []
        self.trusted: list[str] = []
        self.exhaustive = False

    @property
    def quick(self):
        return self.tier == "quick"

    def n(self, quick: int, thorough: int) -> int:
        return quick if self.quick else thorough

    def tally(self, key: str, k: int = 1):
        self.dist[key] = self.dist.get(key, 0) + k

    def case(self, fingerprint, nontrivial: bool = True, sample=None):
        """Count one explored case; `fingerprint` (hashable / json-able) decides distinctness."""
        self.evaluations += 1
        if nontrivial:
            h = hashlib.sha1(json.dumps(fingerprint, sort_keys=True, default=str).encode()).hexdigest()[:16]
            self.nontrivial.add(h)
        if sample is not None and len(self.samples) < 5:
            self.samples.append(sample)

    def violation(self, kind: str, key: str, what: str, case=None, detail=None):
        """kind: 'oracle' (property fails on the implementation for this case), 'correspondence'
        (model and implementation disagree on this case), 'proof' (a proof obligation no longer checks)."""
        self.violations.append(dict(kind=kind, key=key, what=what, case=case, detail=detail))


def jdefault(o):
    if isinstance(o, Fraction):
        return f"{o.numerator}/{o.denominator}"
    if isinstance(o, (set, frozenset)):
        return sorted(o, key=str)
    if isinstance(o, bytes):
        return o.hex()
    try:
        import numpy as np

        if isinstance(o, np.generic):
            return o.item()
        if isinstance(o, np.ndarray):
            return o.tolist()
    except Exception:
        pass
    return repr(o)
