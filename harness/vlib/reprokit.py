"""reprokit — fingerprints and decision logs for C17 (seeded single-worker runs are bitwise reproducible).

What a *run* is.  A JSON-able `job` describes either a whole seeded EVQE solve (`kind="solve"`, the setup dict of
`vlib.solverkit.build_evqe` with one worker thread) or one call of a random constructor (`kind` in "layer",
"individual", "population", "jssp") or of a seeded optimisation function of mutation.py (`kind` "optimize").  `run_job(job, ambient)` executes it on the implementation in the current
process and returns plain JSON data

    {"fp":  <canonical fingerprint of everything the call returned>,
     "log": <the complete decision log of every random.Random the package created during the call>}

`ambient` (an int) selects the *ambient state* the call must not depend on: the state of the global `random`
module, of `numpy.random`, and of `qiskit_algorithms.algorithm_globals.random_seed` are set from it before the
call.  Two runs of the same job with different ambients — in one process, or in processes started with different
PYTHONHASHSEED — must return equal data; `first_difference` names the first place where they do not.

Fingerprint.  Floats by `float.hex()` (prefixed with the type: a float, a numpy float64 and the int 0 are three
different things), dict-valued fields as lists of pairs in iteration order, individuals/layers/gates as the plain
data of `vlib.evqe`.  For a solve: eigenvalue, eigenstate, best individual, evaluation counts per generation,
number of generations, auxiliary values, and for every recorded population evaluation the individuals, the three
species maps, the expectation values, the best individual and its value.  Exceptions are part of the result
(`{"raise": class name, "message": text}`).

Decision log.  Built on `vlib.rnglog.LoggingRandom` (delegates to the real generator, then records).  Generators are
numbered in order of construction.  With one worker thread there are two program orders, the main thread's and
the worker's; their interleaving is decided by the thread scheduler and is NOT part of the log.  The log is

    {"main":   [[gen, decision...], ...]   events of the main thread, in its program order
     "worker": [[gen, decision...] | ["alg", seed], ...]   events of the worker thread(s), in their program order
     "threads": how many non-main threads drew}

`["alg", seed]` records an assignment `algorithm_globals.random_seed = seed` made by the package (the seed handed
to the optimiser).  decision = ["seed", s] | ["choice", len, i] | ["sample", len, k, [i..]] | ["random", hex] |
["randint", a, b, v] | ["randrange", start, stop, step, v] | ["shuffle", [perm]] | ["choices", len, k, [i..]] ...
(see rnglog.RngLog.decisions).

Child processes.  `python reprokit.py --child` reads {"jobs": [...], "ambient": int, "order": [indices]} on stdin,
runs the jobs in the given order and prints {"results": [...by job index...], "hashseed": ..., "repo": ...}.
`run_children` starts one child per PYTHONHASHSEED value with PYTHONPATH=<core.REPO> (so VERIF_REPO is honoured).
"""
from __future__ import annotations

import contextlib
import importlib
import json
import os
import subprocess
import sys
import threading
import traceback
from concurrent.futures import Future, ThreadPoolExecutor
from concurrent.futures import wait as _cf_wait
from pathlib import Path

if __name__ == "__main__":  # started as a child: make `vlib` importable
    sys.path.insert(0, str(Path(__file__).resolve().parents[1]))

from vlib import core, rnglog  # noqa: E402
from vlib import evqe as ev  # noqa: E402

JSSP_MODULE = "queasars.job_shop_scheduling.random_problem_instances"
MUTATION_MODULE = "queasars.minimum_eigensolvers.evqe.evolutionary_algorithm.mutation"
PATCH_MODULES = tuple(rnglog.EVQE_MODULES) + (JSSP_MODULE,)


# =============================================================================================== canonical data
def num(x):
    """Canonical, type-preserving rendering of a number."""
    if x is None:
        return None
    if isinstance(x, bool):
        return f"bool:{x}"
    if isinstance(x, int):
        return f"int:{x}"
    if isinstance(x, float):
        return "float:" + x.hex()
    try:
        import numpy as np

        if isinstance(x, np.floating):
            return f"{type(x).__name__}:" + float(x).hex()
        if isinstance(x, np.integer):
            return f"{type(x).__name__}:{int(x)}"
        if isinstance(x, np.ndarray) and x.ndim == 0:
            return f"ndarray0[{x.dtype}]:" + float(x).hex()
    except ImportError:  # pragma: no cover
        pass
    if isinstance(x, complex):
        return f"complex:{x.real.hex()},{x.imag.hex()}"
    return f"{type(x).__name__}:{x!r}"


def canon_individual(ind):
    if ind is None:
        return None
    return {"n": ind.n_qubits, "layers": [ev.plain_layer(l) for l in ind.layers], "values": [num(v) for v in ind.parameter_values]}


def canon_population(pop):
    out = {"individuals": [canon_individual(i) for i in pop.individuals]}
    reps = getattr(pop, "species_representatives", None)
    mem = getattr(pop, "species_members", None)
    ms = getattr(pop, "species_membership", None)
    out["species_representatives"] = None if reps is None else [canon_individual(i) for i in reps]
    out["species_members"] = None if mem is None else [[canon_individual(k), [num(i) for i in v]] for k, v in mem.items()]
    out["species_membership"] = None if ms is None else [[num(k), canon_individual(v)] for k, v in ms.items()]
    return out


def canon_evaluation(r):
    return {
        "population": canon_population(r.population),
        "expectation_values": [num(v) for v in r.expectation_values],
        "best_individual": canon_individual(r.best_individual),
        "best_expectation_value": num(r.best_expectation_value),
    }


def canon_state(state):
    if state is None:
        return None
    try:
        return sorted([[str(k), num(v)] for k, v in dict(state).items()])
    except Exception:
        return repr(state)


def canon_aux(aux):
    if aux is None:
        return None
    if isinstance(aux, dict):
        return {"dict": [[str(k), num(v)] for k, v in aux.items()]}
    return {"list": [num(v) for v in aux]}


def fingerprint_result(res) -> dict:
    """The full EvolvingAnsatzMinimumEigensolverResult as canonical JSON data."""
    return {
        "eigenvalue": num(res.eigenvalue),
        "eigenstate": canon_state(res.eigenstate),
        "best_individual": canon_individual(res.best_individual),
        "circuit_evaluations": [num(c) for c in res.circuit_evaluations],
        "generations": num(res.generations),
        "aux": canon_aux(res.aux_operators_evaluated),
        "populations": [canon_evaluation(r) for r in res.population_evaluation_results],
    }


def canon_instance(inst) -> dict:
    return {
        "name": inst.name,
        "machines": [m.name for m in inst.machines],
        "jobs": [
            {"name": j.name, "ops": [{"name": o.name, "job": o.job_name, "machine": o.machine.name, "dur": num(o.processing_duration)} for o in j.operations]}
            for j in inst.jobs
        ],
    }


def first_difference(a, b, path="$"):
    """None if the two JSON values are equal, else (path, value in a, value in b) of the first difference
    (lists: first differing index or the length; dicts: first differing key in sorted order)."""
    if type(a) is not type(b):
        return path, _short(a), _short(b)
    if isinstance(a, dict):
        for k in sorted(set(a) | set(b), key=str):
            if k not in a or k not in b:
                return f"{path}.{k}", _short(a.get(k, "<absent>")), _short(b.get(k, "<absent>"))
            d = first_difference(a[k], b[k], f"{path}.{k}")
            if d:
                return d
        return None
    if isinstance(a, list):
        for i, (x, y) in enumerate(zip(a, b)):
            d = first_difference(x, y, f"{path}[{i}]")
            if d:
                return d
        if len(a) != len(b):
            i = min(len(a), len(b))
            return f"{path}[{i}]", _short(a[i] if i < len(a) else "<end>"), _short(b[i] if i < len(b) else "<end>")
        return None
    return None if a == b else (path, _short(a), _short(b))


def _short(x, limit=300):
    s = json.dumps(x, sort_keys=True, default=str)
    return s if len(s) <= limit else s[:limit] + "..."


# =============================================================================================== decision log
class ReproLog(rnglog.RngLog):
    """RngLog that also remembers which thread made each event, and the seeds written to algorithm_globals."""

    def __init__(self, max_events=200000):
        super().__init__(max_events=max_events)
        self.thread_of: list = []  # parallel to self.events: thread ident, or ("alg", ident)
        self.alg: list = []  # (position in events at the time, ident, seed)
        self._main = threading.main_thread().ident
        self._lock = threading.Lock()

    def new_generator(self, seed) -> int:
        with self._lock:
            gen = super().new_generator(seed)
            self.thread_of.append(threading.get_ident())
            return gen

    def add(self, gen, kind, args, result):
        with self._lock:
            self.thread_of.append(threading.get_ident())
            super().add(gen, kind, args, result)

    def alg_seed(self, seed):
        with self._lock:
            self.alg.append((len(self.events), threading.get_ident(), seed))

    def canonical(self) -> dict:
        decs = self.decisions()
        main, worker, idents = [], [], []
        algs = list(self.alg)
        for pos, (e, d, t) in enumerate(zip(self.events, decs, self.thread_of)):
            while algs and algs[0][0] <= pos:
                _, ti, seed = algs.pop(0)
                (main if ti == self._main else worker).append(["alg", seed])
                if ti != self._main and ti not in idents:
                    idents.append(ti)
            (main if t == self._main else worker).append([e.gen] + d)
            if t != self._main and t not in idents:
                idents.append(t)
        for _, ti, seed in algs:
            (main if ti == self._main else worker).append(["alg", seed])
            if ti != self._main and ti not in idents:
                idents.append(ti)
        return {"main": main, "worker": worker, "threads": len(idents)}


class _AlgGlobalsTap:
    """Stands in for the name `algorithm_globals` in mutation.py: forwards everything, records random_seed writes."""

    def __init__(self, real, log: ReproLog):
        object.__setattr__(self, "_real", real)
        object.__setattr__(self, "_log", log)

    def __getattr__(self, name):
        return getattr(object.__getattribute__(self, "_real"), name)

    def __setattr__(self, name, value):
        if name == "random_seed":
            object.__getattribute__(self, "_log").alg_seed(value)
        setattr(object.__getattribute__(self, "_real"), name, value)


@contextlib.contextmanager
def logged(log: ReproLog):
    """Every `Random(...)` the package constructs inside the block is a logging generator bound to `log`; writes of
    algorithm_globals.random_seed by mutation.py are recorded."""
    importlib.import_module(JSSP_MODULE)
    mut = importlib.import_module(MUTATION_MODULE)
    had = "algorithm_globals" in vars(mut)
    old = vars(mut).get("algorithm_globals")
    with rnglog.patched(log, modules=PATCH_MODULES):
        if had:
            mut.algorithm_globals = _AlgGlobalsTap(old, log)
        try:
            yield log
        finally:
            if had:
                mut.algorithm_globals = old


def set_ambient(ambient: int):
    """The state a seeded call must NOT depend on."""
    import random

    import numpy as np
    from qiskit_algorithms.utils import algorithm_globals

    random.seed(1000003 * ambient + 17)
    np.random.seed((7919 * ambient + 5) % (2**32))
    algorithm_globals.random_seed = 31 * ambient + 3


def advance_ambient():
    """Perturb the ambient generators by DRAWING from them, without seeding anything: whatever state the previous
    call left behind (in particular qiskit's algorithm_globals generator and its recorded seed) stays in place.
    Used for the immediate back-to-back repetition of a call: a call that only re-seeds a global generator when
    the seed 'changed' continues from leftover state here."""
    import random

    import numpy as np
    from qiskit_algorithms.utils import algorithm_globals

    random.random()
    np.random.random()
    algorithm_globals.random.random()


# =============================================================================================== jobs
def _exc(e: BaseException) -> dict:
    return {"raise": type(e).__name__, "message": str(e)[:200]}


def _speed_up_batching(solver):
    """mutually_exclusive_primitives wraps the primitives into batching runners which sleep 0.1 s per call to collect
    a batch; with one worker there is nothing to collect.  Shorten the sleep on the runner INSTANCES (timing only)."""
    seen = set()
    stack = [getattr(solver.configuration.configured_sampler, "sampler", None), getattr(solver.configuration.configured_estimator, "estimator", None)]
    while stack:
        o = stack.pop()
        if o is None or id(o) in seen:
            continue
        seen.add(id(o))
        r = getattr(o, "_runner", None)
        if r is not None and hasattr(r, "batch_waiting_duration"):
            r.batch_waiting_duration = 0.0005
        for name in ("_sampler", "_estimator"):
            stack.append(getattr(o, name, None))


def _set_optimizer(solver, name: str):
    """solverkit builds the solver with its CoordinateSearch; "spsa" / "nft" put a seeded qiskit optimiser on the
    operator instances instead (SPSA draws from algorithm_globals.random, which the package seeds per task; both were
    measured to be deterministic functions of their inputs with the exact fake primitives; scipy's COBYLA is not used)."""
    if name == "coordinate":
        return
    for op in solver.configuration.evolutionary_operators:
        if getattr(op, "optimizer", None) is not None:
            op.optimizer = make_optimizer(name)


def solve_setup(setup: dict) -> dict:
    """Fill in the fields of a C17 setup that `solverkit.build_evqe` expects and C17 fixes: one worker, generation
    limit only."""
    s = dict(setup)
    s.setdefault("workers", 1)
    s.setdefault("max_evals", None)
    s.setdefault("criterion", None)
    s.setdefault("init", None)
    s.setdefault("aux", None)
    s.setdefault("opt_estimate", None)
    s.setdefault("alpha", 1)
    s.setdefault("shots", 64)
    s.setdefault("coeffs", [1.0, -0.5, 0.25, 0.5])
    return s


# ---- legal single-worker schedules -------------------------------------------------------------------------------
# A ThreadPoolExecutor(max_workers=1) leaves open WHEN the single worker runs a task relative to what the submitting
# thread does next.  The two executors below are the two extreme legal one-worker schedules, both deterministic; the
# tasks still run on a worker thread (so the decision log attributes them to the worker as for the plain pool).
class EagerExecutor(ThreadPoolExecutor):
    """One worker; submit() returns only after the task has run to completion."""

    def __init__(self):
        super().__init__(max_workers=1)

    def submit(self, fn, /, *args, **kwargs):
        f = super().submit(fn, *args, **kwargs)
        _cf_wait([f])
        return f


class _LazyFuture(Future):
    """Future of a DeferredExecutor: the first time the submitting thread touches the synchronisation state of any
    future (wait / result / done all start by acquiring `_condition`) the queued tasks are run."""

    def __init__(self, executor):
        self._executor = executor
        self._armed = False
        super().__init__()
        self._armed = True

    @property
    def _condition(self):
        ex = self._executor
        if self._armed and not ex._draining and threading.get_ident() == ex._owner:
            ex._drain()
        return self._cond

    @_condition.setter
    def _condition(self, c):
        self._cond = c


class DeferredExecutor(ThreadPoolExecutor):
    """One worker; submitted tasks are only queued.  They run, in submission order, one after the other on the worker
    thread, when the submitting thread first asks for a result (or at shutdown)."""

    def __init__(self):
        super().__init__(max_workers=1)
        self._owner = threading.get_ident()
        self._queue = []
        self._draining = False

    def submit(self, fn, /, *args, **kwargs):
        f = _LazyFuture(self)
        self._queue.append((f, fn, args, kwargs))
        return f

    def _drain(self):
        self._draining = True
        try:
            while self._queue:
                lazy, fn, args, kwargs = self._queue.pop(0)
                inner = super().submit(fn, *args, **kwargs)
                _cf_wait([inner])
                if inner.exception() is not None:
                    lazy.set_exception(inner.exception())
                else:
                    lazy.set_result(inner.result())
        finally:
            self._draining = False

    def shutdown(self, wait=True, *, cancel_futures=False):
        if threading.get_ident() == self._owner and not self._draining:
            self._drain()
        return super().shutdown(wait=wait, cancel_futures=cancel_futures)


EXECUTORS = {"pool": None, "eager": EagerExecutor, "deferred": DeferredExecutor}


def run_solve(job: dict, executor: str = "pool") -> dict:
    from vlib import solverkit

    setup = solve_setup(job["setup"])
    log = ReproLog()
    out: dict = {}
    initial = []
    with logged(log):
        solver = None
        try:
            solver, call, _parts = solverkit.build_evqe(setup)
            _speed_up_batching(solver)
            _set_optimizer(solver, setup.get("optimizer", "coordinate"))
            if EXECUTORS[executor] is not None:  # another legal schedule of the ONE worker (still a ThreadPoolExecutor)
                solver.configuration.parallel_executor.shutdown(wait=True)
                solver.configuration.parallel_executor = EXECUTORS[executor]()
            real_init = solver.configuration.population_initializer

            def tapped_init(n_qubits, _real=real_init):
                pop = _real(n_qubits)
                initial.append(canon_population(pop))
                return pop

            solver.configuration.population_initializer = tapped_init
            res = call()
            out["fp"] = {"result": fingerprint_result(res), "initial_population": initial}
        except Exception as e:  # an exception is a result like any other: it must be the same one every time
            out["fp"] = {"result": _exc(e), "initial_population": initial}
            out["trace"] = traceback.format_exc()[-1500:]
        finally:
            if solver is not None:
                with contextlib.suppress(Exception):
                    solver.configuration.parallel_executor.shutdown(wait=True)
    out["log"] = log.canonical()
    return out


# ---- history independence ------------------------------------------------------------------------------------------
class InjectedFailure(RuntimeError):
    """The failure the harness injects to abort a solve (a backend that breaks down, an operator that raises)."""


def make_criterion(spec):
    """spec = [kind, threshold, allowed_consecutive_violations]: the stateful termination criteria of the package."""
    from queasars.minimum_eigensolvers.base import termination_criteria as tc

    kind, thr, allowed = spec
    if kind == "best_abs":
        return tc.BestIndividualChangeTolerance(minimum_change=thr, allowed_consecutive_violations=allowed)
    if kind == "best_rel":
        return tc.BestIndividualRelativeChangeTolerance(minimum_relative_change=thr, allowed_consecutive_violations=allowed)
    if kind == "pop_abs":
        return tc.PopulationChangeTolerance(minimum_change=thr, allowed_consecutive_violations=allowed)
    if kind == "pop_rel":
        return tc.PopulationChangeRelativeTolerance(minimum_relative_change=thr, allowed_consecutive_violations=allowed)
    raise ValueError(kind)


def _counting_primitives():
    from qiskit.primitives import BaseEstimatorV2, BaseSamplerV2

    class CountingSampler(BaseSamplerV2):
        """Forwards to `inner`; counts run() calls; raises InjectedFailure from call number fail_from on."""

        def __init__(self, inner, fail_from=None):
            self.inner, self.fail_from, self.n = inner, fail_from, 0

        def run(self, pubs, *, shots=None):
            self.n += 1
            if self.fail_from is not None and self.n >= self.fail_from:
                raise InjectedFailure(f"the sampler broke down at call {self.n}")
            return self.inner.run(pubs, shots=shots)

    class CountingEstimator(BaseEstimatorV2):
        def __init__(self, inner, fail_from=None):
            self.inner, self.fail_from, self.n = inner, fail_from, 0

        def run(self, pubs, *, precision=None):
            self.n += 1
            if self.fail_from is not None and self.n >= self.fail_from:
                raise InjectedFailure(f"the estimator broke down at call {self.n}")
            return self.inner.run(pubs, precision=precision)

    return CountingSampler, CountingEstimator


SHARE_MODES = ("all", "criterion", "optimizer", "primitives", "executor")


def run_history(job: dict) -> dict:
    """A freshly constructed, identically configured and seeded solver must not depend on what happened to an EARLIER
    solver that used the same configuration objects.  Three solves in this process:
      reference  everything fresh (a fresh criterion of the same kind)                                   -> R0
      aborted    the objects named by job["share"] (termination criterion / optimiser / raw primitives and pass
                 manager / executor - everything a user may legitimately reuse) are created and used by a solve
                 that is aborted mid-evolution by an injected failure (an operator application that raises, or the
                 primitive the evaluator uses breaking down inside a task)
      retry      a fresh solver, same setup and seed, with those SAME objects (the rest fresh)                  -> R1
    Returns {"reference": run, "retry": run, "aborted": {...}}; R1 must equal R0 (fingerprint and decision log)."""
    from vlib import composekit, solverkit

    setup = solve_setup(job["setup"])
    share = job["share"]
    shared = lambda what: share == "all" or share == what  # noqa: E731
    CountingSampler, CountingEstimator = _counting_primitives()
    counts = {}

    def one(label, objs, ambient, fail=None):
        """objs: the shared objects (or {} for all fresh); missing ones are created fresh and shut down afterwards."""
        if ambient is None:
            advance_ambient()
        else:
            set_ambient(ambient)
        log = ReproLog()
        out: dict = {}
        fresh_executor = None
        with logged(log):
            try:
                executor = objs.get("executor")
                if executor is None:
                    executor = fresh_executor = ThreadPoolExecutor(max_workers=1)
                optimizer = objs.get("optimizer") or make_optimizer(setup.get("optimizer", "coordinate"))
                criterion = objs.get("criterion") or make_criterion(job["criterion"])
                raw_sampler = objs.get("sampler") or solverkit.ExactSampler()
                raw_estimator = objs.get("estimator") or solverkit.exact_estimator()
                uses_estimator = setup["evaluator"] == "estimator"
                fail_from = None
                if fail is not None and fail["how"] == "primitive":
                    fail_from = max(2, int(counts["reference"] * fail["frac"]))
                sampler = CountingSampler(raw_sampler, None if uses_estimator else fail_from)
                estimator = CountingEstimator(raw_estimator, fail_from if uses_estimator else None)
                solver, call = composekit.build(setup, executor, optimizer, criterion=criterion, sampler=sampler, estimator=estimator,
                                                pass_manager=objs.get("pass_manager"))
                if fail is not None and fail["how"] == "operator":
                    n_applied = [0]
                    for op in solver.configuration.evolutionary_operators:
                        def apply(population, operator_context, _real=op.apply_operator):
                            n_applied[0] += 1
                            if n_applied[0] > fail["at"]:
                                raise InjectedFailure(f"operator application {n_applied[0]} raises")
                            return _real(population=population, operator_context=operator_context)

                        op.apply_operator = apply
                res = call()
                out["fp"] = {"result": fingerprint_result(res)}
                counts[label] = estimator.n if uses_estimator else sampler.n
            except Exception as e:  # noqa: BLE001 - an exception is an outcome
                out["fp"] = {"result": _exc(e)}
            finally:
                if fresh_executor is not None:
                    fresh_executor.shutdown(wait=True)
        out["log"] = log.canonical()
        return out

    reference = one("reference", {}, ambient=job.get("ambient", 7))
    objs = {}
    if shared("criterion"):
        objs["criterion"] = make_criterion(job["criterion"])
    if shared("optimizer"):
        objs["optimizer"] = make_optimizer(setup.get("optimizer", "coordinate"))
    if shared("primitives"):
        objs["sampler"], objs["estimator"], objs["pass_manager"] = solverkit.ExactSampler(), solverkit.exact_estimator(), solverkit._pass_manager()
    if shared("executor"):
        objs["executor"] = ThreadPoolExecutor(max_workers=1)
    try:
        aborted = one("aborted", objs, ambient=job.get("ambient", 7) + 1, fail=job["fail"])
        retry = one("retry", objs, ambient=None)
    finally:
        if "executor" in objs:
            objs["executor"].shutdown(wait=True)
    return {"reference": reference, "retry": retry,
            "aborted": {"outcome": aborted["fp"]["result"] if "raise" in aborted["fp"]["result"] else {"completed": True},
                        "decisions": len(aborted["log"]["main"]) + len(aborted["log"]["worker"])}}


def _plain_dist(x):
    """A value, or a distribution given as [[value, probability], ...] (JSON cannot carry float/int dict keys)."""
    if isinstance(x, list):
        return {k: p for k, p in x}
    return x


def run_constructor(job: dict) -> dict:
    kind, a = job["kind"], job["args"]
    log = ReproLog()
    out: dict = {}
    with logged(log):
        try:
            if kind == "layer":
                from queasars.minimum_eigensolvers.evqe.quantum_circuit.circuit_layer import EVQECircuitLayer

                prev = None if a.get("prev") is None else ev.impl_layer(a["prev"])
                out["fp"] = ev.plain_layer(EVQECircuitLayer.random_layer(n_qubits=a["n"], previous_layer=prev, random_seed=a["seed"]))
            elif kind == "individual":
                from queasars.minimum_eigensolvers.evqe.evolutionary_algorithm.individual import EVQEIndividual

                out["fp"] = canon_individual(EVQEIndividual.random_individual(n_qubits=a["n"], n_layers=a["n_layers"], randomize_parameter_values=a["randomize"], random_seed=a["seed"]))
            elif kind == "population":
                from queasars.minimum_eigensolvers.evqe.evolutionary_algorithm.population import EVQEPopulation

                out["fp"] = canon_population(EVQEPopulation.random_population(n_qubits=a["n"], n_layers=a["n_layers"], n_individuals=a["n_individuals"], randomize_parameter_values=a["randomize"], random_seed=a["seed"]))
            elif kind == "jssp":
                from queasars.job_shop_scheduling.random_problem_instances import random_job_shop_scheduling_instance

                out["fp"] = canon_instance(random_job_shop_scheduling_instance(
                    instance_name=a["name"], n_jobs=a["n_jobs"], n_machines=a["n_machines"],
                    relative_op_amount=_plain_dist(a["rel"]), op_duration=_plain_dist(a["dur"]), random_seed=a["seed"]))
            elif kind == "optimize":
                out["fp"] = _run_optimize(a)
            else:
                raise ValueError(f"unknown job kind {kind}")
        except Exception as e:
            out["fp"] = _exc(e)
    out["log"] = log.canonical()
    return out


def make_optimizer(name: str):
    from vlib import solverkit

    if name == "coordinate":
        return solverkit.CoordinateSearch(sweeps=1)
    from qiskit_algorithms.optimizers import NFT, SPSA

    return {"spsa": lambda: SPSA(maxiter=2, learning_rate=0.1, perturbation=0.1), "nft": lambda: NFT(maxiter=4)}[name]()


def _run_optimize(a: dict):
    """The two seeded optimisation functions of mutation.py called directly (the fifth 'constructor-like' function):
    a = {"individual": plain individual, "layer": int | "all", "optimizer": name, "seed": int, "coeffs": [...]}.
    Exact estimator, no transpilation; returns the new individual and the evaluation count."""
    from vlib import solverkit
    from queasars.circuit_evaluation.circuit_evaluation import OperatorCircuitEvaluator
    from queasars.minimum_eigensolvers.evqe.evolutionary_algorithm import mutation

    ind = ev.impl_individual(a["individual"])
    evaluator = OperatorCircuitEvaluator(estimator=solverkit.exact_estimator(), estimator_precision=0.0,
                                         operator=solverkit._hamiltonian(a["individual"]["n"], a["coeffs"]))
    if a["layer"] == "all":
        new, n = mutation.optimize_all_parameters_of_individual(individual=ind, evaluator=evaluator, optimizer=make_optimizer(a["optimizer"]), random_seed=a["seed"])
    else:
        new, n = mutation.optimize_layer_of_individual(individual=ind, layer_id=a["layer"], evaluator=evaluator, optimizer=make_optimizer(a["optimizer"]), random_seed=a["seed"])
    return {"individual": canon_individual(new), "evaluations": num(n)}


def _ambient_snapshot():
    import random

    import numpy as np

    st = np.random.get_state()
    return {"random": hash(random.getstate()), "numpy.random": hash((st[0], st[1].tobytes(), st[2], st[3], st[4]))}


def run_job(job: dict, ambient: int | None, executor: str = "pool") -> dict:
    """Run one job under the ambient state number `ambient` (None: keep whatever state the previous call left and
    only advance the ambient generators by one draw each - the back-to-back repetition).  Besides fp and log the
    result says which ambient generators were advanced during the call (information only; not compared)."""
    if ambient is None:
        advance_ambient()
    else:
        set_ambient(ambient)
    before = _ambient_snapshot()
    out = run_solve(job, executor) if job["kind"] == "solve" else run_constructor(job)
    after = _ambient_snapshot()
    out["ambient_touched"] = {k: before[k] != after[k] for k in before}
    return out


def job_key(job: dict) -> str:
    return json.dumps(job, sort_keys=True)


def compare_runs(a: dict, b: dict):
    """None if two runs of the same job agree, else dict(where, path, first, second[, log_path, log_first,
    log_second]): the first difference of the results (if any) and the first difference of the decision logs."""
    dr = first_difference(a["fp"], b["fp"])
    dl = first_difference(a["log"], b["log"])
    if not dr and not dl:
        return None
    out = {}
    if dr:
        out.update(where="result", path=dr[0], first=dr[1], second=dr[2])
    else:
        out.update(where="decision log", path=dl[0], first=dl[1], second=dl[2])
    if dl:
        out.update(log_path=dl[0], log_first=dl[1], log_second=dl[2])
    return out


# =============================================================================================== child processes
def child_main():
    req = json.loads(sys.stdin.read())
    core.use_repo()
    jobs = req["jobs"]
    results = [None] * len(jobs)
    for i in req.get("order") or range(len(jobs)):
        try:
            results[i] = run_job(jobs[i], req["ambient"] + 101 * i)
        except Exception as e:  # infrastructure trouble inside the child
            results[i] = {"fp": {"child-error": _exc(e), "trace": traceback.format_exc()[-1500:]}, "log": {}}
    import queasars

    sys.stdout.write("\n@@REPRO@@" + json.dumps({"results": results, "hashseed": os.environ.get("PYTHONHASHSEED"), "repo": str(Path(queasars.__file__).resolve().parents[1]), "hash_probe": hash("queasars")}))
    sys.stdout.flush()


def start_child(jobs, hashseed: int, ambient: int, order=None):
    env = dict(os.environ)
    env["PYTHONHASHSEED"] = str(hashseed)
    env["PYTHONPATH"] = str(core.REPO)
    env["PYTHONWARNINGS"] = "ignore"
    env["VERIF_REPO"] = str(core.REPO)
    p = subprocess.Popen([sys.executable, str(Path(__file__).resolve()), "--child"], stdin=subprocess.PIPE, stdout=subprocess.PIPE, stderr=subprocess.PIPE, text=True, env=env)
    p.stdin.write(json.dumps({"jobs": jobs, "ambient": ambient, "order": order}))
    p.stdin.close()
    p.stdin = None  # so that communicate() only drains stdout/stderr
    return p


def finish_child(p, timeout=1500) -> dict:
    try:
        out, err = p.communicate(timeout=timeout)  # drains the pipes while waiting (large outputs)
    except subprocess.TimeoutExpired:
        p.kill()
        raise RuntimeError("reprokit child timed out")
    if p.returncode != 0 or "@@REPRO@@" not in out:
        raise RuntimeError(f"reprokit child failed (rc={p.returncode}):\n{err[-3000:]}\n{out[-500:]}")
    return json.loads(out.split("@@REPRO@@", 1)[1])


if __name__ == "__main__":
    if "--child" in sys.argv:
        child_main()
