"""Exact, deterministic Qiskit V2 primitives for the /verif harnesses (no sampling noise, no seeds).

Public API
----------
exact_probabilities(circuit, parameter_values=None) -> dict[str, float]
    Joint distribution of *all* classical bits of a circuit whose measurements are final, computed from the exact
    Statevector.  Keys are Qiskit bitstrings (clbit 0 rightmost).  Works for transpiled circuits (layout, ancillas,
    swaps, barriers) because only the measure instructions decide which qubit feeds which clbit.

apportion(probabilities, shots) -> dict[str, int]
    Integer counts summing to `shots`, proportional to the probabilities (largest-remainder rounding, ties broken by
    bitstring order; exact whenever every probability is a multiple of 1/shots).

ExactSampler(default_shots=1024, mode="integer" | "fractional", observer=None)   (a BaseSamplerV2)
    run(pubs, *, shots=None) -> PrimitiveJob -> PrimitiveResult[SamplerPubResult]; result[i].data.<creg> answers
    get_counts().  mode="integer": a real BitArray holding apportion(p, shots) shots — |count/shots - p| < 1/shots,
    and = p exactly for dyadic p with power-of-two shots.  mode="fractional": a duck-typed FractionalBitArray whose
    get_counts() returns the float p * shots (so count / shots == p up to one rounding); usable wherever only
    get_counts()/num_shots/num_bits are read (queasars' measure_quasi_distributions).
    `observer(pubs)` is called with the list of coerced SamplerPub of every run() (to observe batches);
    `sampler.calls` records [(circuit name, shots), ...] per run().
    Set `sampler.fail_next = k` to make the next k JOBS fail (job.result() raises InjectedPrimitiveFailure).

ExactEstimator(observer=None, default_precision=0.0)   (a BaseEstimatorV2)
    run(pubs, *, precision=None): exact Statevector expectation values whatever precision is requested (Qiskit's
    StatevectorEstimator adds Gaussian noise for precision != 0); stds = 0.  `observer`, `.calls`, `.fail_next` as above.  `default_precision` only decides which precision a pub is
    RECORDED with when neither the pub nor run() names one (as a real estimator's default would apply); the values stay
    exact.  The observer / `.calls` therefore show whether a wrapper forwarded the caller's precision (0.0 included).

exact_estimator() -> qiskit.primitives.StatevectorEstimator(default_precision=0.0)
    Qiskit's own exact estimator (exact only while callers pass precision 0 / None).

All primitives run synchronously inside run() (the returned job is already finished) and are thread-compatible in
the sense that they keep no per-call state except the append-only `calls` list.
"""
from __future__ import annotations

from typing import Callable, Iterable, Optional

import numpy as np
from qiskit.circuit import QuantumCircuit
from qiskit.primitives import BaseEstimatorV2, BaseSamplerV2, PrimitiveResult, PubResult, SamplerPubResult, StatevectorEstimator
from qiskit.primitives.containers import BitArray, DataBin
from qiskit.primitives.containers.estimator_pub import EstimatorPub
from qiskit.primitives.containers.sampler_pub import SamplerPub
from qiskit.primitives.primitive_job import PrimitiveJob
from qiskit.quantum_info import SparsePauliOp, Statevector

_IGNORED = ("barrier", "delay")


def split_final_measurements(circuit: QuantumCircuit) -> tuple[QuantumCircuit, dict[int, int]]:
    """Return (the circuit without measurements/barriers on the same number of qubits, {clbit index: qubit index}).
    Raises ValueError for anything but final measurements (a gate after a measurement on the same qubit,
    classical control, resets after measurement)."""
    unitary = QuantumCircuit(circuit.num_qubits, global_phase=circuit.global_phase)
    qindex = {q: i for i, q in enumerate(circuit.qubits)}
    cindex = {c: i for i, c in enumerate(circuit.clbits)}
    wiring: dict[int, int] = {}
    measured: set[int] = set()
    for inst in circuit.data:
        name = inst.operation.name
        qs = [qindex[q] for q in inst.qubits]
        if name == "measure":
            wiring[cindex[inst.clbits[0]]] = qs[0]
            measured.add(qs[0])
        elif name in _IGNORED:
            continue
        else:
            if inst.clbits or any(q in measured for q in qs):
                raise ValueError(f"exactprims: only final measurements are supported (found {name} after a measurement)")
            unitary.append(inst.operation, qs)
    return unitary, wiring


def exact_probabilities(circuit: QuantumCircuit, parameter_values=None) -> dict[str, float]:
    """Exact joint distribution of all clbits (Qiskit bitstring keys, clbit 0 rightmost); unmeasured clbits read 0."""
    if parameter_values is not None:
        circuit = circuit.assign_parameters(parameter_values, inplace=False)
    unitary, wiring = split_final_measurements(circuit)
    n_cl = circuit.num_clbits
    clbits = sorted(wiring)
    if not clbits:
        return {"0" * n_cl: 1.0} if n_cl else {"": 1.0}
    qargs = [wiring[c] for c in clbits]
    # two clbits may read the same qubit: marginalise over the distinct qubits, then copy bits
    distinct = sorted(set(qargs))
    probs = Statevector(unitary).probabilities(qargs=distinct)
    out: dict[str, float] = {}
    for idx, p in enumerate(probs):
        if p <= 0.0:
            continue
        bit_of_qubit = {q: (idx >> k) & 1 for k, q in enumerate(distinct)}
        bits = ["0"] * n_cl
        for c in clbits:
            bits[n_cl - 1 - c] = str(bit_of_qubit[wiring[c]])
        key = "".join(bits)
        out[key] = out.get(key, 0.0) + float(p)
    return out


def apportion(probabilities: dict[str, float], shots: int, prune: float = 1e-13) -> dict[str, int]:
    """Largest-remainder rounding of probabilities * shots to integers summing to shots."""
    items = sorted((k, p) for k, p in probabilities.items() if p > prune)
    total = sum(p for _, p in items)
    quotas = [(k, p / total * shots) for k, p in items]
    base = {}
    rema = []
    for k, q in quotas:
        f = int(np.floor(q + 1e-9))  # p*shots that is an integer up to float fuzz stays that integer
        base[k] = f
        rema.append((-(q - f), k))
    missing = shots - sum(base.values())
    for _, k in sorted(rema)[: max(missing, 0)]:
        base[k] += 1
    return {k: v for k, v in base.items() if v > 0}


class InjectedPrimitiveFailure(RuntimeError):
    """Raised by the JOB of an exact primitive whose `fail_next` counter is positive (a flaky backend)."""


def _maybe_fail(primitive) -> None:
    if getattr(primitive, "fail_next", 0) > 0:
        primitive.fail_next -= 1
        raise InjectedPrimitiveFailure("exactprims: injected job failure")


class FractionalBitArray:
    """Stand-in for BitArray that reports fractional counts p * shots (mode="fractional" of ExactSampler)."""

    def __init__(self, probabilities: dict[str, float], num_shots: int, num_bits: int):
        self._p = dict(probabilities)
        self.num_shots = num_shots
        self.num_bits = num_bits
        self.shape = ()

    def get_counts(self, loc=None) -> dict[str, float]:
        return {k: p * self.num_shots for k, p in self._p.items()}

    def get_int_counts(self, loc=None) -> dict[int, float]:
        return {int(k, 2): p * self.num_shots for k, p in self._p.items()}

    def probabilities(self) -> dict[str, float]:
        return dict(self._p)


def _register_slices(circuit: QuantumCircuit):
    cindex = {c: i for i, c in enumerate(circuit.clbits)}
    return [(creg.name, [cindex[b] for b in creg]) for creg in circuit.cregs]


def _project(joint: dict[str, float], positions: list[int], n_cl: int) -> dict[str, float]:
    out: dict[str, float] = {}
    for key, p in joint.items():
        sub = "".join(key[n_cl - 1 - c] for c in reversed(positions))
        out[sub] = out.get(sub, 0.0) + p
    return out


class ExactSampler(BaseSamplerV2):
    """Sampler whose counts are proportional to the exact Statevector probabilities (see module docstring)."""

    def __init__(self, default_shots: int = 1024, mode: str = "integer", observer: Optional[Callable] = None):
        if mode not in ("integer", "fractional"):
            raise ValueError("mode must be 'integer' or 'fractional'")
        self._default_shots = default_shots
        self.mode = mode
        self.observer = observer
        self.calls: list[list[tuple[str, int]]] = []

    def run(self, pubs: Iterable, *, shots: Optional[int] = None):
        if shots is None:
            shots = self._default_shots
        coerced = [SamplerPub.coerce(pub, shots) for pub in pubs]
        self.calls.append([(p.circuit.name, p.shots) for p in coerced])
        if self.observer is not None:
            self.observer(coerced)
        job = PrimitiveJob(self._run, coerced)
        job._submit()
        return job

    def _run(self, pubs: list[SamplerPub]) -> PrimitiveResult:
        _maybe_fail(self)
        return PrimitiveResult([self._run_pub(p) for p in pubs], metadata={"version": 2})

    def _run_pub(self, pub: SamplerPub) -> SamplerPubResult:
        bound = pub.parameter_values.bind_all(pub.circuit)
        regs = _register_slices(pub.circuit)
        n_cl = pub.circuit.num_clbits
        meta = {"shots": pub.shots, "circuit_metadata": pub.circuit.metadata}
        if self.mode == "fractional":
            if bound.shape != ():
                raise ValueError("exactprims: mode='fractional' supports scalar pubs only")
            joint = exact_probabilities(bound[()])
            fields = {name: FractionalBitArray(_project(joint, pos, n_cl), pub.shots, len(pos)) for name, pos in regs}
            return SamplerPubResult(DataBin(**fields, shape=()), metadata=meta)
        arrays = {name: np.zeros(bound.shape + (pub.shots, (len(pos) + 7) // 8 or 1), dtype=np.uint8) for name, pos in regs}
        for index, circ in np.ndenumerate(bound):
            joint = exact_probabilities(circ)
            counts = apportion(joint, pub.shots)
            for name, pos in regs:
                # one row per shot, in bitstring order of the joint outcome (keeps registers consistent with each other)
                rows = []
                for key in sorted(counts):
                    sub = "".join(key[n_cl - 1 - c] for c in reversed(pos))
                    rows.append((sub, counts[key]))
                ba = BitArray.from_samples([s for s, c in rows for _ in range(c)], num_bits=len(pos))
                arrays[name][index] = ba.array
        fields = {name: BitArray(arrays[name], len(pos)) for name, pos in regs}
        return SamplerPubResult(DataBin(**fields, shape=bound.shape), metadata=meta)


class ExactEstimator(BaseEstimatorV2):
    """Estimator returning exact Statevector expectation values for every requested precision."""

    def __init__(self, observer: Optional[Callable] = None, default_precision: float = 0.0):
        self.observer = observer
        self.default_precision = default_precision
        self.calls: list[list[tuple[str, float]]] = []

    def run(self, pubs: Iterable, *, precision: Optional[float] = None):
        coerced = [EstimatorPub.coerce(pub, self.default_precision if precision is None else precision) for pub in pubs]
        self.calls.append([(p.circuit.name, p.precision) for p in coerced])
        if self.observer is not None:
            self.observer(coerced)
        job = PrimitiveJob(self._run, coerced)
        job._submit()
        return job

    def _run(self, pubs: list[EstimatorPub]) -> PrimitiveResult:
        _maybe_fail(self)
        return PrimitiveResult([self._run_pub(p) for p in pubs], metadata={"version": 2})

    def _run_pub(self, pub: EstimatorPub) -> PubResult:
        bound = pub.parameter_values.bind_all(pub.circuit)
        bc_circuits, bc_obs = np.broadcast_arrays(bound, pub.observables)
        evs = np.zeros_like(bc_circuits, dtype=np.float64)
        for index in np.ndindex(*bc_circuits.shape):
            paulis, coeffs = zip(*bc_obs[index].items())
            state = Statevector(bc_circuits[index])
            evs[index] = float(np.real(state.expectation_value(SparsePauliOp(paulis, coeffs))))
        data = DataBin(evs=evs, stds=np.zeros_like(evs), shape=evs.shape)
        return PubResult(data, metadata={"target_precision": pub.precision, "circuit_metadata": pub.circuit.metadata})


def exact_estimator() -> StatevectorEstimator:
    """Qiskit's StatevectorEstimator with default precision 0 (exact as long as callers request precision 0/None)."""
    return StatevectorEstimator(default_precision=0.0)
