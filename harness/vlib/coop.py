"""Cooperative scheduler for the concurrency wrappers of queasars/circuit_evaluation/mutex_primitives.py (DESIGN.md 3.4).

`CoopLock`, `CoopCondition`, `coop_sleep` replace `Lock`, `Condition`, `sleep` *in the namespace of the imported module*
(`install(module)`); nothing in /repo is changed.  Every synchronisation operation becomes a yield point: the calling
real thread publishes a descriptor of its pending operation, parks on a private semaphore, and the single controller
thread decides which logical thread performs its pending operation next (and with which choice: the waiter a notify()
wakes, whether a timed wait times out, whether the fake primitive fails).  Real Python threads execute the real code;
only the interleaving is dictated.  Exactly one real thread runs at any time, so a schedule replays exactly.

A *logical* thread is a caller; at wrapper level the real thread that hits the yield points is the one Qiskit's
`PrimitiveJob._submit` spawned for that caller's job: it is attributed to the logical thread that is currently running.

Semantics of the simulated primitives (the same few lines as `wait_end`/`notify_one`/`free` in Batch/Monitor.v):
  acquire(blocking)  enabled iff the lock is free (a TIMED acquire of a held lock may time out: answers False)
  try-acquire        always enabled, answers whether it got it
  release            always enabled (RuntimeError if not locked) enter/exit   acquire/release of the condition's lock
  wait-begin         releases the condition's lock, joins the wait set
  wait-end           enabled iff the condition's lock is free and the thread was notified, or (timed) the controller
                     chooses the timeout; re-acquires the lock
  notify             wakes the waiter the controller chooses (CPython: the oldest); notify_all wakes all
Deadlock = some logical thread unfinished and no pending operation enabled: detected exactly, no timeouts.
"""
from __future__ import annotations

import threading

CTL = None  # the controller new CoopLock/CoopCondition objects bind to


class CoopAbort(BaseException):
    """Raised inside parked threads when a run is abandoned (deadlock reached, prefix finished, step limit)."""


class CoopLock:
    def __init__(self, *args, name=None, ctl=None, **kw):
        self.ctl = ctl or CTL
        self.name = name
        self.owner = None
        if self.ctl is not None:
            self.ctl.locks.append(self)

    def acquire(self, blocking=True, timeout=-1):
        if blocking:
            # acquire(timeout=t) with t >= 0 is a TIMED acquire: while another thread holds the lock the controller may
            # let it time out (it then answers False), exactly like the timed condition wait
            timed = timeout is not None and timeout >= 0
            return self.ctl.yield_op(("acquire", self, timed))
        return self.ctl.yield_op(("tryacquire", self))

    def release(self):
        err = self.ctl.yield_op(("release", self))
        if err:
            raise RuntimeError("release unlocked lock")

    def locked(self):
        return self.owner is not None

    def __enter__(self):
        self.acquire()
        return self

    def __exit__(self, *a):
        self.release()


class CoopSerializableLock(CoopLock):
    """Stands in for dask.utils.SerializableLock (the name is rebound in the module namespace, so whatever lock objects
    the code creates, whenever, are cooperative).  Constructing one while a schedule is running is itself a yield point
    ("new_lock"): a check-then-create sequence in the code under test can be pre-empted between the check and the
    assignment of the new lock."""

    def __init__(self, *args, **kw):
        super().__init__(*args, **kw)
        self.serial = len([l for l in self.ctl.locks if isinstance(l, CoopSerializableLock)]) if self.ctl is not None else 0
        if self.name is None:
            self.name = "L" if self.serial <= 1 else f"L{self.serial}"
        if self.ctl is not None and self.ctl.running and not self.ctl.abort:
            self.ctl.yield_op(("new_lock", self))


class CoopCondition:
    def __init__(self, lock=None, name=None, ctl=None):
        self.ctl = ctl or CTL
        self.name = name
        self.owner = None  # owner of the condition's lock
        self.waiters = []  # logical tids waiting, oldest first
        if self.ctl is not None:
            self.ctl.conds.append(self)

    def __enter__(self):
        self.ctl.yield_op(("enter", self))
        return self

    def __exit__(self, *a):
        err = self.ctl.yield_op(("exit", self))
        if err:
            raise RuntimeError("release unlocked lock")

    acquire = __enter__

    def release(self):
        self.__exit__()

    def wait(self, timeout=None):
        timed = timeout is not None
        err = self.ctl.yield_op(("wait_begin", self, timed))
        if err:
            raise RuntimeError("cannot wait on un-acquired lock")
        return self.ctl.yield_op(("wait_end", self, timed))

    def notify(self, n=1):
        err = self.ctl.yield_op(("notify", self, n))
        if err:
            raise RuntimeError("cannot notify on un-acquired lock")

    def notify_all(self):
        err = self.ctl.yield_op(("notify_all", self))
        if err:
            raise RuntimeError("cannot notify on un-acquired lock")


def coop_sleep(d):
    CTL.yield_op(("sleep",))


def install(module, ctl):
    """Bind the module's Lock/Condition/sleep to the cooperative versions and make `ctl` current."""
    global CTL
    CTL = ctl
    module.Lock = CoopLock
    module.Condition = CoopCondition
    module.sleep = coop_sleep
    if hasattr(module, "SerializableLock"):
        module.SerializableLock = CoopSerializableLock


class Rec:
    __slots__ = ("tid", "pending", "gate", "answer", "done", "thread", "nops", "ident")

    def __init__(self, tid):
        self.tid = tid
        self.pending = None
        self.gate = None
        self.answer = None
        self.done = False
        self.thread = None
        self.nops = 0
        self.ident = None  # real thread currently acting for this logical thread


class Controller:
    def __init__(self, n):
        self.recs = [Rec(i) for i in range(n)]
        self.current = None
        self.back = threading.Semaphore(0)
        self.locks = []
        self.conds = []
        self.abort = False
        self.running = False
        self.schedule = []  # [(tid, choice)] performed so far
        self.real_threads = set()

    # ------------------------------------------------------------------ worker side
    def yield_op(self, desc):
        if self.abort or not self.running:
            # unwinding after an abandoned run (or used outside a run): operations are no-ops
            return False if desc[0] in ("release", "exit", "wait_begin", "notify", "notify_all", "f_begin", "f_end", "new_lock") else True
        rec = self.recs[self.current]
        rec.pending = desc
        rec.ident = threading.get_ident()
        gate = rec.gate = threading.Semaphore(0)
        self.real_threads.add(threading.current_thread())
        self.back.release()
        gate.acquire()
        if self.abort:
            raise CoopAbort()
        return rec.answer

    def finished(self, tid):
        """Called by the logical thread's body when all its calls are done."""
        rec = self.recs[tid]
        rec.done = True
        rec.pending = None
        if not self.abort:
            self.back.release()

    # ------------------------------------------------------------------ controller side
    def start(self, bodies):
        """bodies[i](): the whole life of logical thread i.  Each runs to its first yield point."""
        self.running = True
        for i, body in enumerate(bodies):
            th = threading.Thread(target=self._wrap, args=(i, body), daemon=True)
            self.recs[i].thread = th
            self.current = i
            th.start()
            self.back.acquire()

    def _wrap(self, i, body):
        try:
            body()
        except CoopAbort:
            return
        finally:
            pass
        self.finished(i)

    def enabled_choices(self, tid, faults=True):
        """Choices with which the pending operation of `tid` can be performed now ([] = not enabled)."""
        rec = self.recs[tid]
        if rec.done or rec.pending is None:
            return []
        d = rec.pending
        k = d[0]
        if k == "acquire" and len(d) > 2 and d[2]:
            return [0] if d[1].owner is None else [1]  # timed acquire of a held lock: it can only time out
        if k in ("acquire", "enter"):
            return [0] if d[1].owner is None else []
        if k == "wait_end":
            c, timed = d[1], d[2]
            if c.owner is not None:
                return []
            if tid in c.waiters:
                return [1] if timed else []
            return [0]
        if k == "notify":
            return list(range(len(d[1].waiters))) or [0]
        if k == "f_end" or k == "f_begin":
            return [0, 1] if faults else [0]  # 1 = the primitive raises (f_begin: at submission, f_end: from result())
        return [0]

    def transitions(self, faults=True):
        return [(r.tid, c) for r in self.recs for c in self.enabled_choices(r.tid, faults)]

    def all_done(self):
        return all(r.done for r in self.recs)

    def perform(self, tid, choice):
        """Apply the pending operation of `tid` to the simulated state and let it run to its next yield point."""
        rec = self.recs[tid]
        d = rec.pending
        k = d[0]
        ans = True
        if k == "acquire" and len(d) > 2 and d[2] and d[1].owner is not None:
            assert choice == 1, "a timed acquire of a held lock can only time out"
            ans = False
        elif k == "acquire" or k == "enter":
            assert d[1].owner is None, "scheduled a disabled acquire"
            d[1].owner = tid
        elif k == "tryacquire":
            if d[1].owner is None:
                d[1].owner = tid
            else:
                ans = False
        elif k == "release" or k == "exit":
            if d[1].owner is None:
                ans = True  # error flag
            else:
                d[1].owner = None  # threading.Lock may be released by any thread
                ans = False
        elif k == "wait_begin":
            c = d[1]
            if c.owner != tid:
                ans = True
            else:
                c.owner = None
                c.waiters.append(tid)
                ans = False
        elif k == "wait_end":
            c = d[1]
            assert c.owner is None, "scheduled a disabled wait-end"
            if tid in c.waiters:
                assert d[2] and choice == 1, "scheduled a wait-end that was neither notified nor timed out"
                c.waiters.remove(tid)
                ans = False
            c.owner = tid
        elif k == "notify":
            c = d[1]
            if c.owner != tid:
                ans = True
            else:
                ans = False
                for j in range(d[2]):
                    if c.waiters:
                        c.waiters.pop(choice if j == 0 and choice < len(c.waiters) else 0)
        elif k == "notify_all":
            c = d[1]
            if c.owner != tid:
                ans = True
            else:
                ans = False
                c.waiters.clear()
        elif k == "f_end" or k == "f_begin":
            ans = choice == 1  # True = the primitive raises here
        rec.answer = ans
        rec.nops += 1
        rec.pending = None
        self.schedule.append((tid, choice))
        self.current = tid
        rec.gate.release()
        self.back.acquire()

    def stop(self):
        """Abandon the run: every parked real thread unwinds with CoopAbort; all real threads are joined."""
        self.abort = True
        for r in self.recs:
            if r.gate is not None:
                r.gate.release()
        for r in self.recs:
            if r.thread is not None:
                r.thread.join(20)
        for th in list(self.real_threads):
            if th is not threading.current_thread():
                th.join(20)
        self.running = False

    def describe_pending(self):
        out = {}
        for r in self.recs:
            if r.done:
                continue
            d = r.pending
            out[f"T{r.tid}"] = None if d is None else "(" + ", ".join([d[0]] + [getattr(x, "name", None) or str(x) for x in d[1:]]) + ")"
        return out
